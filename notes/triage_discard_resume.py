# Design-time triage only: establishes ground truth for a rule designed in DESIGN.md.
# NOT a check, not registered in MANIFEST.json; the checks never execute nautilus.
# Run from a scratch directory: /venv/bin/python triage_discard_resume.py
import numpy as np, os, warnings
warnings.filterwarnings('ignore')
from nautilus import Sampler
def prior(x): return x
def like(x): return -0.5*np.sum(((x-0.5)/0.1)**2)
if os.path.exists('c.h5'): os.remove('c.h5')
s=Sampler(prior, like, n_dim=2, n_live=100, n_networks=0, filepath='c.h5', resume=False, seed=1)
print("run1", s.run(n_eff=200, discard_exploration=False), s.n_like, s.explored)
s.discard_exploration=True
print("after toggle shell_n sum", s.shell_n.sum(), "log_z", s.log_z)
print("run2", s.run(n_eff=400, n_like_max=s.n_like+300), s.n_like)
ref=s.posterior(); 
r=Sampler(prior, like, n_dim=2, n_live=100, n_networks=0, filepath='c.h5', resume=True, seed=1)
print("resumed discard flag:", r.discard_exploration, " orig:", s.discard_exploration)
print("resumed shell_n sum", r.shell_n.sum(), "n points", sum(len(p) for p in r.points))
try:
    p=r.posterior()
    print("posterior lens", len(p[0]), len(ref[0]), "log_z", r.log_z, s.log_z)
except Exception as e:
    print("posterior FAIL", type(e).__name__, e)

# Demonstration of a defect found by the round-5 bug hunt (DESIGN.md 10.13).
# Run with cwd = a nautilus tree: exits 1 on the tree before the fix:, 0 after.
import os, sys; sys.path.insert(0, os.getcwd())
import numpy as np
import h5py
import nautilus
from nautilus.bounds.union import Union
from nautilus.bounds.basic import Ellipsoid, UnitCubeEllipsoidMixture
print(nautilus.__file__)

# C13: "After any sequence of split, trim and sample operations a union keeps
# one consistent record per ellipsoid (bound, its points, its volume, its
# may-split flag) ... and no operation raises."
# A union that went through write()/read() has lost the may-split record
# (`block`) altogether: bounds, points_bounds and log_v_all come back, `block`
# does not, so the next split() - and any trim() that actually drops an
# ellipsoid - raises AttributeError.

rng = np.random.default_rng(0)
points = np.vstack([rng.normal(size=(80, 2)) * 0.01 + 0.25,
                    rng.normal(size=(80, 2)) * 0.01 + 0.75,
                    rng.random(size=(8, 2))])
fp = '/tmp/H6_c_demo.h5'
problems = []

for bound_class in [Ellipsoid, UnitCubeEllipsoidMixture]:
    u = Union.compute(points, bound_class=bound_class, n_points_min=8,
                      rng=np.random.default_rng(1))
    assert u.split() and u.split()        # three ellipsoids, history: S S
    u.sample(100)
    with h5py.File(fp, 'w') as f:
        u.write(f.create_group('union'))
    with h5py.File(fp, 'r') as f:
        r = Union.read(f['union'], rng=np.random.default_rng(1))

    n = len(r.bounds)
    print('{}: read back {} bounds, {} point sets, {} volumes, block: {}'
          .format(bound_class.__name__, n, len(r.points_bounds),
                  len(r.log_v_all), getattr(r, 'block', '<missing>')))
    print('   original block record:', u.block)
    if not hasattr(r, 'block') or len(r.block) != n:
        problems.append(bound_class.__name__ + ': may-split record missing')

    # The same operations on the original object work ...
    ok_split = u.split()
    ok_trim = u.trim(threshold=1.5)
    print('   original object : split ->', ok_split, ', trim ->', ok_trim)
    # ... but raise on the object that was read back.
    for name, op in [('split', lambda: r.split()),
                     ('trim', lambda: r.trim(threshold=1.5))]:
        try:
            print('   read-back object: {} -> {}'.format(name, op()))
        except Exception as e:
            print('   read-back object: {} raised {!r}'.format(name, e))
            problems.append('{}: {} after read raised {}'.format(
                bound_class.__name__, name, type(e).__name__))
    print('   records after the failed trim: {} bounds, {} point sets, {} '
          'volumes'.format(len(r.bounds), len(r.points_bounds),
                           len(r.log_v_all)))
    # The trim was half applied: the ellipsoid is gone but reset() was never
    # reached, so cached samples / counters of the old union are still used.
    x = r.sample(500)
    n_out = int(np.sum(~r.contains(x)))
    print('   sample() after the failed trim: {} of 500 points lie outside '
          'the union; n_sample={} (not reset)'.format(n_out, r.n_sample))
    if n_out > 0:
        problems.append('{}: half-applied trim, sample() returns {} points '
                        'outside the union'.format(bound_class.__name__,
                                                   n_out))

os.remove(fp)
if problems:
    print('\nVIOLATIONS:')
    for p in problems:
        print(' -', p)
    sys.exit(1)
print('no violation')

# Demonstration of a defect found by the round-5 bug hunt (DESIGN.md 10.13).
# Run with cwd = a nautilus tree: exits 1 on the tree before the fix:, 0 after.
import os, sys; sys.path.insert(0, os.getcwd())
import warnings
import numpy as np
import nautilus
from multiprocessing.pool import Pool, ThreadPool
from nautilus.bounds import NautilusBound
from nautilus.pool import NautilusPool

warnings.filterwarnings('ignore')
print(nautilus.__file__)

# ThreadPool is a subclass of multiprocessing.pool.Pool ("instances of
# multiprocessing.Pool" are documented as supported pools) and it exposes
# `_processes`, so NautilusPool.size accepts it.
assert issubclass(ThreadPool, Pool)
fail = False

# ---- 1. bound level ------------------------------------------------------
rng = np.random.default_rng(0)
pts = rng.random((2000, 3))
log_l = -50 * np.sum((pts - 0.5)**2, axis=1)
log_l_min = np.sort(log_l)[-500]
bound = NautilusBound.compute(pts, log_l, log_l_min, np.log(0.1),
                              n_networks=0, rng=np.random.default_rng(1))
rng_before = bound.rng
bound.sample(100, pool=NautilusPool(ThreadPool(4)))
n_all = len(bound.points)
n_unique = len(np.unique(bound.points, axis=0))
print('bound level : {} buffered proposal points, {} distinct -> every point '
      'is stored {:.1f} times'.format(n_all, n_unique, n_all / n_unique))
print('bound level : bound.rng replaced by a worker rng:',
      bound.rng is not rng_before)
if n_unique < n_all:
    fail = True


# ---- 2. sampler level ----------------------------------------------------
def prior(u):
    return u


def likelihood(x):
    return -0.5 * np.sum(((x - 0.5) / 0.2)**2)


sampler = nautilus.Sampler(prior, likelihood, n_dim=2, n_live=500,
                           n_networks=0, pool=(None, ThreadPool(4)), seed=3)
sampler.run(n_eff=30000, discard_exploration=True)
points = np.concatenate(sampler.points)
n_dup = len(points) - len(np.unique(points, axis=0))
print('sampler     : {} likelihood calls, {} of them at a point that had '
      'already been evaluated (exact duplicates)'.format(len(points), n_dup))
print('sampler     : reported n_eff = {:.0f}, log_z = {:.4f}'.format(
    sampler.n_eff, sampler.log_z))
for shell, p in enumerate(sampler.points):
    d = len(p) - len(np.unique(p, axis=0))
    if d > 0:
        print('              shell {}: {} points, {} duplicates'.format(
            shell, len(p), d))
if n_dup > 0:
    fail = True

if fail:
    print('FAIL: proposals drawn through a thread-based sampler pool are not '
          'independent uniform draws; the same points are proposed (and '
          'counted in n_eff / the posterior) several times.')
    sys.exit(1)
print('OK')

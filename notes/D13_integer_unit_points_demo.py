# Demonstration of a defect found by the round-5 bug hunt (DESIGN.md 10.13).
# Run with cwd = a nautilus tree: exits 1 on the tree before the fix:, 0 after.
import os, sys; sys.path.insert(0, os.getcwd())
import numpy as np
import nautilus
from nautilus import Prior
from scipy.stats import norm

print(nautilus.__file__)
fail = []

prior = Prior()
prior.add_parameter('a', (0.0, 0.5))
prior.add_parameter('b', (-2.5, 2.5))
prior.add_parameter('c', norm(loc=1.0, scale=0.3))

# The eight corners / edge mid-points of the unit cube written down as an
# integer array are perfectly good points of the unit cube.
corners_int = np.array([[0, 0, 0], [1, 1, 1], [1, 0, 1], [0, 1, 0]])
corners_flt = corners_int.astype(float)

with np.errstate(all='ignore'):
    ref = prior.unit_to_physical(corners_flt)
print('float input  ->\n', ref)
try:
    with np.errstate(all='ignore'):
        got = prior.unit_to_physical(corners_int)
    print('int input    ->\n', got, got.dtype)
    if not np.array_equal(got, ref):
        fail.append('integer-typed unit-cube points give different physical '
                    'points than the same points as floats')
except Exception as e:
    print('int input    -> {}: {}'.format(type(e).__name__, e))
    fail.append('integer-typed unit-cube points raise ' + type(e).__name__)

# Same with a prior that has only bounded ranges (no infinities involved).
prior2 = Prior()
prior2.add_parameter('a', (0.0, 0.5))
prior2.add_parameter('b', (-2.5, 2.5))
u = np.array([1, 1])
d_int = prior2.unit_to_dictionary(u)
d_flt = prior2.unit_to_dictionary(u.astype(float))
print('dict from int  :', d_int)
print('dict from float:', d_flt)
if any(d_int[k] != d_flt[k] for k in d_flt):
    fail.append('upper corner of (0, 0.5) x (-2.5, 2.5) mapped to {} instead '
                'of {}'.format([float(d_int[k]) for k in d_flt],
                               [float(d_flt[k]) for k in d_flt]))

# Reduced precision input silently gives reduced precision output.
u32 = np.array([0.3, 0.7], dtype=np.float32)
out32 = prior2.unit_to_physical(u32)
out64 = prior2.unit_to_physical(u32.astype(np.float64))
print('float32 in:', out32.dtype, out32, ' float64 in:', out64)

if fail:
    for f in fail:
        print('FAIL:', f)
    sys.exit(1)
print('OK')

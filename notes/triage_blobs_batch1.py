# Design-time triage only: establishes ground truth for a rule designed in DESIGN.md.
# NOT a check, not registered in MANIFEST.json; the checks never execute nautilus.
# Run from a scratch directory: /venv/bin/python triage_blobs_batch1.py
import numpy as np, warnings
warnings.filterwarnings('ignore')
from nautilus import Sampler
def prior(x): return x
def like(x): return -0.5*np.sum(((x-0.5)/0.2)**2), float(x[0])
for nb in [1,2]:
    s=Sampler(prior, like, n_dim=2, n_live=50, n_networks=0, n_batch=nb, seed=1)
    try:
        print(nb, s.run(n_eff=0, n_like_max=60, f_live=1.0), s.n_like)
        p,w,l,b=s.posterior(return_blobs=True)
        print("  blobs ok:", np.all(b==p[:,0]), b.shape, p.shape)
    except Exception as e:
        import traceback; traceback.print_exc()
# vectorized with n_batch=1
def likev(x): return -0.5*np.sum(((x-0.5)/0.2)**2,axis=-1), x[:,0]
s=Sampler(prior, likev, n_dim=2, n_live=50, n_networks=0, n_batch=1, seed=1, vectorized=True)
try:
    print('vec', s.run(n_eff=0, n_like_max=60, f_live=1.0), s.n_like)
except Exception as e:
    import traceback; traceback.print_exc()

# Demonstration of a defect found by the round-6 bug hunt (DESIGN.md 10.14).
# Run with cwd = a nautilus tree: exits 1 on the tree before the fix:, 0 after.
import os, sys; sys.path.insert(0, os.getcwd())
import shutil, tempfile, warnings
import numpy as np
import h5py
import nautilus
from nautilus import Sampler
print(nautilus.__file__)
warnings.filterwarnings('ignore')


def prior(x):
    return x


def like(x):
    return -0.5 * np.sum(((x - 0.5) / 0.05)**2)


tmp = tempfile.mkdtemp()
fp = os.path.join(tmp, 'run.h5')
cfg = dict(n_dim=2, n_live=40, n_batch=1, n_like_new_bound=5, n_networks=0,
           n_points_min=3, seed=5)
s = Sampler(prior, like, filepath=fp, **cfg)

# A flag that is a bool for every practical purpose (result of a numpy
# comparison / np.any / an entry of a bool array).
flag = np.any(np.array([1]) > 0)
print('type of flag:', type(flag), '== True:', flag == True)  # noqa: E712

raised = False
try:
    s.run(n_eff=100, discard_exploration=flag)
except ValueError as e:
    raised = True
    print('run() raised only at the END of exploration, after', s.n_like,
          'likelihood calls: ValueError:', e)

problems = []
if raised and s.n_like == 0:
    print('the argument was rejected before any work was done: fine')
    print('OK')
    sys.exit(0)
if raised:
    with h5py.File(fp, 'r') as f:
        file_explored = bool(f['sampler'].attrs['explored'])
        file_n_bounds = sum(k.startswith('bound_') for k in f.keys())
    print('in memory : explored =', s.explored, ' n_bounds =', len(s.bounds))
    print('checkpoint: explored =', file_explored, ' n_bounds =',
          file_n_bounds)
    if s.explored and not file_explored:
        problems.append('exception left sampler explored=True in memory ' +
                        'while the checkpoint still says explored=False')

    # The user repeats the call with a genuine bool (e.g. next notebook cell).
    n0 = s.n_like
    s.run(n_eff=1e9, n_like_max=n0 + 60, discard_exploration=True)
    print('continued in memory: n_like', n0, '->', s.n_like, ' explored =',
          s.explored, ' n_bounds =', len(s.bounds))

    with h5py.File(fp, 'r') as f:
        g = f['sampler']
        file_explored = bool(g.attrs['explored'])
        n_shell_attr = len(g.attrs['shell_n'])
        n_points_ds = sum(k.startswith('points_') and k != 'points_t'
                          for k in g.keys())
        end_exp = g.attrs['shell_end_exp']
    print('checkpoint after continuing: explored =', file_explored,
          ' len(shell_n) =', n_shell_attr, ' point datasets =', n_points_ds,
          ' shell_end_exp =', end_exp)
    if n_shell_attr != n_points_ds:
        problems.append('checkpoint is inconsistent: shell_n has %d entries '
                        'but %d shells/bounds are stored' %
                        (n_shell_attr, n_points_ds))

    try:
        r = Sampler(prior, like, filepath=fp, **cfg)
        print('resumed: explored =', r.explored, ' shells =', len(r.points),
              ' bounds =', len(r.bounds), ' log_z =', r.log_z,
              ' (memory log_z =', s.log_z, ')')
        if not r.explored:
            problems.append('after a resume exploration is NOT finished ' +
                            'although it had finished and sampling-phase ' +
                            'batches were already drawn')
        bad = [i for i in range(len(r.points))
               if len(r.points[i]) != r.shell_n[i]]
        if bad:
            problems.append('resumed sampler: shell_n disagrees with the '
                            'stored points in %d shells, e.g. shell %d: '
                            'shell_n=%d, len(points)=%d' %
                            (len(bad), bad[0], r.shell_n[bad[0]],
                             len(r.points[bad[0]])))
        same = (len(r.points) == len(s.points) and all(
            np.array_equal(a, b) for a, b in zip(r.points, s.points)))
        if not same:
            problems.append('resumed samples differ from the samples in ' +
                            'memory (history not preserved)')
    except Exception as e:
        problems.append('resume raised %s: %s' % (type(e).__name__, e))

shutil.rmtree(tmp, ignore_errors=True)
print()
if problems:
    print('VIOLATIONS:')
    for p in problems:
        print(' -', p)
    sys.exit(1)
print('no problem found')

import os, sys, warnings
sys.path.insert(0, os.environ.get('NAUTILUS_TREE', '/repo'))
warnings.filterwarnings('ignore')
import numpy as np, nautilus
print('using', nautilus.__file__)
from nautilus.bounds import Union

bad_total = 0
for seed in (0, 22):
    rng = np.random.default_rng(seed)
    npm, n_dim = 20, 2
    M1 = rng.integers(20, 40); M2 = rng.integers(10, 30); s = rng.integers(3, 15)
    c2 = rng.normal(size=n_dim) * 3
    pts = np.vstack([rng.normal(size=(M1, n_dim)) * 0.1,
                     rng.normal(size=(M2, n_dim)) * 0.1 + c2,
                     rng.normal(size=(s, n_dim)) * rng.uniform(0.5, 3) + c2 * rng.uniform(0, 1)])
    u = Union.compute(pts, unit=False, n_points_min=npm, rng=np.random.default_rng(seed))
    while u.split():
        sizes = [len(p) for p in u.points_bounds]
        small = [n for n in sizes if n < npm]
        if small:
            bad_total += 1
            print('seed %d: %d construction points, n_points_min=%d -> ellipsoids with %s points'
                  % (seed, len(pts), npm, sizes))
            break
print('FAIL' if bad_total else 'PASS')
sys.exit(1 if bad_total else 0)

# Demonstration of a defect found by the round-6 bug hunt (DESIGN.md 10.14).
# Run with cwd = a nautilus tree: exits 1 on the tree before the fix:, 0 after.
import os, sys; sys.path.insert(0, os.getcwd())
import time
import warnings
import numpy as np
import nautilus
from nautilus import Sampler

print(nautilus.__file__)
warnings.filterwarnings('ignore')

# C10: run() must either evaluate a batch per step or return; it must stop at
# n_like_max and return True exactly when the targets are met.
# Here: hard-edged likelihood (-inf outside a disc, very common for likelihoods
# that encode support limits), n_shell=0 (no per-shell minimum) and
# discard_exploration=True.  After the exploration the sampling phase draws one
# batch in shell 0 (the unit-cube shell, all of it -inf), n_eff becomes NaN and
# run() then spins forever WITHOUT calling the likelihood: neither
# "n_eff < target" nor "n_eff >= target" is true, n_like stops growing, so the
# n_like_max guard can never fire.  Only `timeout` gets us out.

calls = [0]


def likelihood(x):
    calls[0] += 1
    r2 = np.sum((x - 0.5)**2)
    return -np.inf if r2 > 0.04 else -0.5 * r2 / 0.005


sampler = Sampler(lambda x: x, likelihood, n_dim=2, n_live=100, n_networks=0,
                  n_batch=50, seed=3)

N_LIKE_MAX = 100000
t0 = time.time()
ok = sampler.run(n_shell=0, n_eff=500, discard_exploration=True,
                 n_like_max=N_LIKE_MAX, timeout=8)
t1 = time.time() - t0
n1 = calls[0]
print('first run : returned', ok, 'after %.1f s,' % t1, 'n_like =',
      sampler.n_like, ', real calls =', n1, ', explored =', sampler.explored)
print('shell_n   :', sampler.shell_n)
print('shell_log_l:', sampler.shell_log_l)
print('n_eff     :', sampler.n_eff)

# Second call: nothing at all is evaluated, the whole timeout is burnt.
t0 = time.time()
ok2 = sampler.run(n_shell=0, n_eff=500, discard_exploration=True,
                  n_like_max=N_LIKE_MAX, timeout=5)
t2 = time.time() - t0
n2 = calls[0] - n1
print('second run: returned', ok2, 'after %.1f s with %d likelihood calls' %
      (t2, n2))

bad = (sampler.explored and not ok2 and n2 == 0 and t2 >= 4.9 and
       sampler.n_like < N_LIKE_MAX and np.isnan(sampler.n_eff))
if bad:
    print('VIOLATION (C10): run() busy-loops without evaluating a batch: '
          'n_like=%d < n_like_max=%d, targets not met, yet no batch is '
          'started; without `timeout` the call never returns.' %
          (sampler.n_like, N_LIKE_MAX))
    sys.exit(1)
print('no violation observed')

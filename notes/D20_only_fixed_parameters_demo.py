# Demonstration of a defect found by the round-6 bug hunt (DESIGN.md 10.14).
# Run with cwd = a nautilus tree: exits 1 on the tree before the fix:, 0 after.
import os, sys; sys.path.insert(0, os.getcwd())
import numpy as np
import nautilus
from nautilus import Prior
print(nautilus.__file__)

# A prior whose declared parameters are all fixed numbers or links to them.
# Number of free parameters = 0, so the unit cube has d = 0 coordinates.
prior = Prior()
prior.add_parameter('a', 1.5)        # fixed
prior.add_parameter('b', -2)         # fixed
prior.add_parameter('c', 'a')        # link to a fixed parameter
print('dimensionality:', prior.dimensionality())

bad = 0
for u in [np.zeros((0, )), np.zeros((4, 0))]:
    phys = prior.unit_to_physical(u)   # works, shape preserved
    print('unit_to_physical', u.shape, '->', phys.shape)
    expect = {'a': 1.5, 'b': -2.0, 'c': 1.5}
    for name, f, arg in [('unit_to_dictionary', prior.unit_to_dictionary, u),
                         ('physical_to_dictionary',
                          prior.physical_to_dictionary, phys)]:
        try:
            d = f(arg)
            ok = (set(d) == set(expect) and all(
                np.shape(d[k]) == u.shape[:-1] and np.all(d[k] == expect[k])
                for k in expect))
            print(name, u.shape, '->', d, 'OK' if ok else 'WRONG')
            bad += not ok
        except Exception as e:
            print(name, u.shape, 'raised', repr(e))
            bad += 1

# For comparison: as soon as one free parameter exists the same declarations
# work, and the empty prior (no parameters at all) works too.
p2 = Prior(); p2.add_parameter('a', 1.5); p2.add_parameter('x', (0, 1))
print('with one free parameter:', p2.unit_to_dictionary(np.array([0.25])))
print('empty prior:', Prior().unit_to_dictionary(np.zeros((4, 0))))

if bad:
    print('VIOLATION: {} calls failed for an all-fixed prior (d = 0); fixed '
          'parameters must be constant and every key present.'.format(bad))
    sys.exit(1)
print('no violation')

import sys, os, warnings
sys.path.insert(0, '/repo')
import numpy as np, nautilus
from nautilus import Sampler
warnings.filterwarnings('ignore')
def like(x):
    # likelihood grows away from the centre: the low-likelihood points sit INSIDE the hull
    # of the live points, so the first bound swallows the whole unit-cube shell
    return 0.5 * np.sum(((x - 0.5) / 0.25) ** 2)
found = None
for seed in range(30):
    fn = 'd8c.hdf5'
    if os.path.exists(fn): os.remove(fn)
    s = Sampler(lambda x: x, like, n_dim=2, n_live=100, n_networks=0, seed=seed, filepath=fn)
    s.run(f_live=0.3, n_eff=0, verbose=False)
    if type(s.bounds[0]).__name__ != 'UnitCube':
        found = seed; break
print('found seed', found, [type(b).__name__ for b in s.bounds][:3], s.shell_n[:3])
if found is not None:
    r = Sampler(lambda x: x, like, n_dim=2, n_live=100, n_networks=0, seed=found, filepath=fn)
    print('original bounds[0]:', type(s.bounds[0]).__name__, '| resumed bounds[0]:', type(r.bounds[0]).__name__)
    print('log_v of shell 0 bound: original %.4f resumed %.4f' % (s.bounds[0].log_v, r.bounds[0].log_v))
    pts = s.points[0][:5]
    print('contains() of stored shell-0 points: original', s.bounds[0].contains(pts), 'resumed', r.bounds[0].contains(pts))
    t = np.array([[0.5, 0.5]])
    print('contains(centre): original', s.bounds[0].contains(t), 'resumed', r.bounds[0].contains(t))

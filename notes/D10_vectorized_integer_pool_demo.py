# Demonstration of a defect found by the round-5 bug hunt (DESIGN.md 10.13).
# Run with cwd = a nautilus tree: exits 1 on the tree before the fix:, 0 after.
import os, sys; sys.path.insert(0, os.getcwd())
# C11: the result must not depend on scalar vs. vectorised likelihood nor on
# the size of the likelihood pool.  With pool=<int> and vectorized=True the
# sampler cannot evaluate the likelihood at all.
import warnings
import numpy as np
import nautilus
from nautilus import Sampler
print(nautilus.__file__)
warnings.simplefilter('ignore')


def prior(x):
    return x


def like(x):
    return -0.5 * np.sum(((x - 0.4) / 0.05)**2)


def like_v(x):
    return -0.5 * np.sum(((x - 0.4) / 0.05)**2, axis=-1)


kw = dict(n_dim=2, n_live=100, n_networks=0, n_batch=50, seed=1)
fail = False
for name, f, extra in [
        ('scalar,     pool=None', like, dict()),
        ('vectorized, pool=None', like_v, dict(vectorized=True)),
        ('scalar,     pool=2   ', like, dict(pool=2)),
        ('vectorized, pool=(None, 2)', like_v, dict(vectorized=True,
                                                    pool=(None, 2))),
        ('vectorized, pool=2   ', like_v, dict(vectorized=True, pool=2)),
        ('vectorized, pool=(2, None)', like_v, dict(vectorized=True,
                                                    pool=(2, None)))]:
    try:
        s = Sampler(prior, f, **kw, **extra)
        r = s.run(n_like_max=300)
        print('{:28s} ok   n_like={} log_z={:.6f}'.format(
            name, s.n_like, s.log_z))
    except Exception as e:
        fail = True
        print('{:28s} FAIL {!r}'.format(name, e))

if fail:
    print('VIOLATION: a vectorised likelihood together with an integer ' +
          'pool raises NameError in the first batch.')
    sys.exit(1)
print('no violation')

# Demonstration of a defect found by the round-5 bug hunt (DESIGN.md 10.13).
# Run with cwd = a nautilus tree: exits 1 on the tree before the fix:, 0 after.
import os, sys; sys.path.insert(0, os.getcwd())
import numpy as np
import nautilus
from nautilus import Prior, Sampler

print(nautilus.__file__)
fail = []

# A uniform range is declared as a (lower, upper) tuple.  Malformed tuples are
# neither rejected with ValueError/TypeError nor handled: they are silently
# turned into a frozen scipy `uniform` with a non-positive scale whose inverse
# CDF is NaN everywhere.
for label, rng in [('reversed (1, 0)', (1, 0)), ('empty (2, 2)', (2, 2)),
                   ('three entries (0, 1, 5)', (0, 1, 5)),
                   ('one entry (1,)', (1,))]:
    prior = Prior()
    prior.add_parameter('a', (0, 1))
    try:
        prior.add_parameter('b', rng)
    except (ValueError, TypeError) as e:
        print('{:25s}: rejected with {} (fine)'.format(
            label, type(e).__name__))
        continue
    except Exception as e:
        print('{:25s}: raised {} instead of ValueError/TypeError: {}'.format(
            label, type(e).__name__, e))
        fail.append(label)
        continue
    x = prior.unit_to_physical(np.array([[0.25, 0.25], [0.75, 0.75]]))
    print('{:25s}: ACCEPTED, keys={}, unit_to_physical -> b = {}'.format(
        label, prior.keys, x[:, 1]))
    if np.any(np.isnan(x)) or len(rng) != 2:
        fail.append(label)

# Consequence: a complete run on NaN parameters without any complaint.
prior = Prior()
prior.add_parameter('a', (0, 1))
try:
    prior.add_parameter('b', (1, 0))   # typo: bounds swapped
except ValueError:
    print('swapped bounds rejected, no run on NaN parameters possible')
    if fail:
        print('FAIL:', fail)
        sys.exit(1)
    print('OK')
    sys.exit(0)
seen = []


def likelihood(p):
    seen.append(p['b'])
    return -0.5 * ((p['a'] - 0.5) / 0.1)**2


sampler = Sampler(prior, likelihood, n_live=100, n_networks=0, seed=0)
sampler.run(n_eff=100)
points, log_w, log_l = sampler.posterior()
print('run with swapped bounds finished; fraction of NaN in posterior ' +
      'column b: {:.2f}; likelihood saw NaN in {} of {} calls'.format(
          np.mean(np.isnan(points[:, 1])), int(np.sum(np.isnan(seen))),
          len(seen)))
if np.any(np.isnan(points)):
    fail.append('run on NaN parameters')

if fail:
    print('FAIL:', fail)
    sys.exit(1)
print('OK')

# Design-time triage only: establishes ground truth for a rule designed in DESIGN.md.
# NOT a check, not registered in MANIFEST.json; the checks never execute nautilus.
# Run from a scratch directory: /venv/bin/python triage_bounds_prior_shift.py
import numpy as np, h5py, traceback
from nautilus.bounds import Union, PhaseShift
from nautilus import Prior

print("== C09: Union unit=False write/read")
pts = np.random.default_rng(0).random((200,3))
u = Union.compute(pts, unit=False, rng=np.random.default_rng(0))
with h5py.File('u.h5','w') as f:
    u.write(f.create_group('g'))
    r = Union.read(f['g'], rng=np.random.default_rng(0))
    try:
        print(r.contains(pts).all())
    except Exception as e:
        print("  FAIL", type(e).__name__, e)
    print("  has block after read:", hasattr(r,'block'))

print("== C13: trim then split")
rng=np.random.default_rng(0)
n=3
def sph(k): 
    p=rng.normal(size=(k,n)); p/=np.linalg.norm(p,axis=1)[:,None]; return p*rng.uniform(size=k)[:,None]**(1/n)
s=sph(1000)
points=np.vstack([s, s+10, s[:30]+1e7])
b=Union.compute(points, unit=False, n_points_min=50, rng=np.random.default_rng(0))
print(b.split(), b.split(), b.trim())
print("  len bounds", len(b.bounds), "len block", len(b.block), "len log_v_all", len(b.log_v_all), "len points_bounds", len(b.points_bounds))
try:
    print("  split after trim:", b.split())
except Exception as e:
    print("  FAIL", type(e).__name__, e)

print("== C15: rejected declaration leaves state")
p=Prior(); p.add_parameter('a')
try: p.add_parameter('b', dist=[0.0])
except TypeError as e: print("  TypeError; keys", p.keys, "dists", len(p.dists))
p=Prior(); p.add_parameter('a')
try: p.add_parameter('b', dist='zzz')
except ValueError as e: print("  ValueError; keys", p.keys, "dists", len(p.dists))
p=Prior(); p.add_parameter('x_1'); p.add_parameter()
print("  auto collision keys:", p.keys)
p=Prior()
try: p.add_parameter(dist='x_0')
except Exception as e: print("  self link via auto key:", type(e).__name__, e, p.keys, p.dists)

print("== C16: mod closure")
ps=PhaseShift(); ps.periodic=np.array([0]); ps.centers=np.array([0.7])
x=np.array([[np.nextafter(0.2,0),0.3]])
print("  fwd", repr(ps.transform(x)[0,0]))
ps.centers=np.array([0.3])
print("  inv", repr(ps.transform(x,inverse=True)[0,0]))
for c in [0.7,0.3,0.9,0.1, 0.55]:
    ps.centers=np.array([c])
    for inv in [False,True]:
        s=(-1 if inv else 1)*(-c+0.5)
        if s<0:
            xx=np.nextafter(-s,0)
            print("   c",c,"inv",inv,"x",repr(xx),"->",repr(ps.transform(np.array([[xx,0.]]),inverse=inv)[0,0]))

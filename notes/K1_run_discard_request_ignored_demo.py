# Demonstration of the known finding K1 (DESIGN.md 10.13): exits 1 on the current tree.
import os, sys; sys.path.insert(0, os.getcwd())
import warnings
import numpy as np
import nautilus
from nautilus import Sampler
print(nautilus.__file__)
warnings.simplefilter('ignore')

# C12: "discard_exploration ... whether it was requested in run(), set
# afterwards, or set after a resume".  Requesting it in run() is silently
# ignored whenever exploration already ended in an earlier run() slice (or in a
# previous process that wrote the checkpoint file).


def prior(x):
    return x


def likelihood(x):
    return -0.5 * np.sum(((x - 0.5) / 0.05)**2)


def n_post(s):
    return len(s.posterior()[0])


problems = []

# --- history 1: two run() calls on the same object ------------------------
s = Sampler(prior, likelihood, n_dim=2, n_live=100, n_networks=0, seed=1)
s.run(n_eff=300)                                  # explores, no discard
n_all = sum(len(p) for p in s.points)
n_exp = int(np.sum(s.shell_end_exp))
ok = s.run(n_eff=300, discard_exploration=True)    # user now asks to discard
print('history 1: run(discard_exploration=True) returned', ok,
      '| flag =', s.discard_exploration,
      '| posterior size =', n_post(s), '| stored =', n_all,
      '| drawn after exploration =', n_all - n_exp)
if not s.discard_exploration or n_post(s) != n_all - n_exp:
    problems.append('history 1: request in run() ignored, exploration ' +
                    'points still in posterior and run() reports success')

# Reference: what the same request gives through the attribute.
s.discard_exploration = True
print('           via attribute: posterior size =', n_post(s))

# --- history 2: the opposite direction -------------------------------------
s = Sampler(prior, likelihood, n_dim=2, n_live=100, n_networks=0, seed=1)
s.run(n_eff=300, discard_exploration=True)
s.run(n_eff=300, discard_exploration=False)
print('history 2: run(discard_exploration=False) after a discarding run',
      '| flag =', s.discard_exploration)
if s.discard_exploration:
    problems.append('history 2: run(discard_exploration=False) ignored')

# --- history 3: resume from a checkpoint, then request in run() ------------
fp = '/tmp/H6_a_demo.h5'
s = Sampler(prior, likelihood, n_dim=2, n_live=100, n_networks=0, seed=1,
            filepath=fp, resume=False)
s.run(n_eff=300)
r = Sampler(prior, likelihood, n_dim=2, n_live=100, n_networks=0, seed=1,
            filepath=fp, resume=True)
ok = r.run(n_eff=300, discard_exploration=True)
print('history 3: resumed, run(discard_exploration=True) returned', ok,
      '| flag =', bool(r.discard_exploration), '| posterior size =',
      n_post(r), '| drawn after exploration =',
      sum(len(p) for p in r.points) - int(np.sum(r.shell_end_exp)))
if not r.discard_exploration:
    problems.append('history 3: request in run() after resume ignored')
os.remove(fp)

if problems:
    print('\nVIOLATIONS:')
    for p in problems:
        print(' -', p)
    sys.exit(1)
print('no violation')

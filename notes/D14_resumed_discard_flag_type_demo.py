# Demonstration of a defect found by the round-5 bug hunt (DESIGN.md 10.13).
# Run with cwd = a nautilus tree: exits 1 on the tree before the fix:, 0 after.
import os, sys; sys.path.insert(0, os.getcwd())
import warnings
import numpy as np
import nautilus
from nautilus import Sampler
print(nautilus.__file__)
warnings.simplefilter('ignore')

# C12: "turning it on ..., turning it off again restores every statistic
# bit-for-bit - whether it was requested in run(), set afterwards, or set after
# a resume".  After a resume the sampler's own discard_exploration value is
# rejected by its own setter, so the usual save / toggle / restore idiom
# raises and the sampler is left in the toggled view.


def prior(x):
    return x


def likelihood(x):
    return -0.5 * np.sum(((x - 0.5) / 0.05)**2)


def roundtrip(s, label):
    old = s.discard_exploration          # value handed out by the sampler
    log_z_old = s.log_z
    s.discard_exploration = not old      # look at the other view
    try:
        s.discard_exploration = old      # ... and go back
    except Exception as e:
        print('{}: restoring the saved value {!r} (type {}) raised {!r}'.format(
            label, old, type(old).__module__ + '.' + type(old).__name__, e))
        print('{}: sampler left with flag={}, log_z={} instead of {}'.format(
            label, s.discard_exploration, s.log_z, log_z_old))
        return False
    print('{}: ok, log_z restored: {}'.format(label, s.log_z == log_z_old))
    return s.log_z == log_z_old


fp = '/tmp/H6_b_demo.h5'
kwargs = dict(n_dim=2, n_live=100, n_networks=0, seed=1, filepath=fp)
s = Sampler(prior, likelihood, resume=False, **kwargs)
s.run(n_eff=2000, discard_exploration=False)
ok_fresh = roundtrip(s, 'fresh sampler  ')

r = Sampler(prior, likelihood, resume=True, **kwargs)
ok_resumed = roundtrip(r, 'resumed sampler')

# Same thing when copying the setting from one sampler to another.
r2 = Sampler(prior, likelihood, resume=True, **kwargs)
try:
    s.discard_exploration = r2.discard_exploration
    ok_copy = True
except ValueError as e:
    print('copying the flag of a resumed sampler to another sampler raised',
          repr(e))
    ok_copy = False
os.remove(fp)

if not (ok_fresh and ok_resumed and ok_copy):
    print('VIOLATION: toggle/restore after resume raises ValueError')
    sys.exit(1)
print('no violation')

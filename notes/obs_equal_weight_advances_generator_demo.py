# Demonstration of a defect found by the round-5 bug hunt (DESIGN.md 10.13).
# Run with cwd = a nautilus tree: exits 1 on the tree before the fix:, 0 after.
import os, sys; sys.path.insert(0, os.getcwd())
# C11: looking at the posterior between two run() calls must not change what
# the sampler does afterwards.  posterior(equal_weight=True) draws from the
# sampler's own generator, so it does.
import hashlib
import warnings
import numpy as np
import nautilus
from nautilus import Sampler
print(nautilus.__file__)
warnings.simplefilter('ignore')


def prior(x):
    return x


def like(x):
    return -0.5 * np.sum(((x - 0.4) / 0.05)**2)


def digest(s):
    m = hashlib.sha1()
    for a in s.posterior():
        m.update(np.ascontiguousarray(a).tobytes())
    return m.hexdigest()[:12]


def state(s):
    return str(s.rng.bit_generator.state['state']['state'])[-12:]


kw = dict(n_dim=2, n_live=100, n_networks=0, n_batch=50, seed=7)

res = {}
for observe in ['nothing', 'posterior()', 'posterior(equal_weight=True)']:
    s = Sampler(prior, like, **kw)
    s.run(n_eff=3000, n_like_max=600)  # stops during the exploration phase
    before = state(s)
    if observe == 'posterior()':
        s.posterior()
        s.log_z, s.n_eff, s.eta, s.shell_bound_occupation()
    elif observe == 'posterior(equal_weight=True)':
        s.posterior(equal_weight=True)
    after = state(s)
    s.run(n_eff=3000)
    res[observe] = (digest(s), int(s.n_like), float(s.log_z), float(s.n_eff))
    print('{:30s} rng touched by observation: {!s:5}  final: {}'.format(
        observe, before != after, res[observe]))

if len(set(res.values())) > 1:
    print('VIOLATION: the final result depends on whether the ' +
          'equal-weighted posterior was inspected between two run() calls.')
    sys.exit(1)
print('no violation')

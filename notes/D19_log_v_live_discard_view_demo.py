# Demonstration of a defect found while triaging the round-6 bug hunt (DESIGN.md 10.14).
# Run with cwd = a nautilus tree: exits 1 on the tree before the fix:, 0 after.
import os, sys; sys.path.insert(0, os.getcwd())
import numpy as np
import nautilus
from nautilus import Sampler
print(nautilus.__file__)


def like(x):
    return -0.5 * np.sum(((x - 0.5) / 0.1)**2)


s = Sampler(lambda x: x, like, n_dim=2, n_live=100, n_networks=0, seed=1)
s.run(n_eff=300, discard_exploration=True)
print('explored', s.explored, 'discard', s.discard_exploration,
      'rows in view', int(s.shell_n.sum()),
      'rows stored', sum(len(ll) for ll in s.log_l))
try:
    v = s.log_v_live
except IndexError as e:
    print('FAIL: log_v_live raises in the discarded view:', e)
    sys.exit(1)
# independent recomputation from the rows of the view
log_l = np.concatenate([ll[k:] for ll, k in zip(s.log_l, s.shell_end_exp)])
log_v = np.repeat(s.shell_log_v - np.log(np.maximum(s.shell_n, 1)), s.shell_n)
from scipy.special import logsumexp
ref = logsumexp(log_v[np.argsort(log_l)][-s.n_live:])
print('log_v_live', v, 'reference', ref)
if v != ref:
    print('FAIL: log_v_live pairs volumes and likelihoods of different samples')
    sys.exit(1)
s.discard_exploration = False
print('full view:', s.log_v_live)
print('OK')

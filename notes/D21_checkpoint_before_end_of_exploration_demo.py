# Demonstration of a defect found by the round-7 bug hunt (DESIGN.md 10.15).
# Run with cwd = a nautilus tree: exits 1 on the tree before the fix:, 0 after.
import os, sys; sys.path.insert(0, os.getcwd())
# K1_a: a kill between the last exploration batch's write_shell_update() and
# the full write() that records "exploration has ended" leaves a (complete,
# loadable) checkpoint from which the re-run script does NOT reproduce the
# uninterrupted run: it samples one more exploration batch.
import shutil, tempfile
import numpy as np
import nautilus
from nautilus import Sampler
print(nautilus.__file__)


def prior(u):
    return u


def like(x):
    return -0.5 * np.sum(((x - 0.5) / 0.05)**2)


KW = dict(n_dim=2, n_live=100, n_networks=0, n_batch=50, seed=1)
RUN = dict(n_eff=500)


class Kill(BaseException):
    """Stands in for SIGKILL: nothing after this point is executed."""


def summary(s):
    p, w, l = s.posterior()
    return float(s.log_z), float(s.n_eff), int(s.n_like), p, w, l


def same(a, b):
    return all(np.array_equal(np.asarray(x), np.asarray(y)) for x, y in
               zip(a, b)) and len(a[3]) == len(b[3])


d = tempfile.mkdtemp(prefix='K1_a_')
try:
    # Uninterrupted reference (with a checkpoint file, same code path).
    ref = Sampler(prior, like, filepath=os.path.join(d, 'ref.h5'), **KW)
    ref.run(**RUN)
    r_ref = summary(ref)
    print('uninterrupted : log_z={:.6f} n_eff={:.2f} n_like={}'.format(
        *r_ref[:3]))

    # The same script, killed inside Sampler.write() at the moment the
    # temporary file is about to be moved into place for the write that
    # follows `self.explored = True`. os.replace is patched from the outside.
    fp = os.path.join(d, 'chk.h5')
    real_replace = os.replace
    log = []

    def replace_and_kill(src, dst):
        frame = sys._getframe(1)
        who = frame.f_code.co_name
        explored = bool(frame.f_locals['self'].explored)
        if who == 'write' and explored:
            raise Kill()
        real_replace(src, dst)
        log.append((who, int(frame.f_locals['self'].n_like)))

    os.replace = replace_and_kill
    try:
        s1 = Sampler(prior, like, filepath=fp, **KW)
        s1.run(**RUN)
        print('the kill point was never reached')
        sys.exit(0)
    except Kill:
        pass
    finally:
        os.replace = real_replace
    print('killed; last completed checkpoint:', log[-1],
          '(file is complete and loadable)')
    for name in os.listdir(d):
        if name.endswith('.tmp'):
            os.remove(os.path.join(d, name))

    # Re-run the same script: it resumes from the checkpoint.
    s2 = Sampler(prior, like, filepath=fp, **KW)
    print('resumed with  : n_like={} explored={} bounds={}'.format(
        int(s2.n_like), bool(s2.explored), len(s2.bounds)))
    s2.run(**RUN)
    r_res = summary(s2)
    print('after resume  : log_z={:.6f} n_eff={:.2f} n_like={}'.format(
        *r_res[:3]))

    # Contrast: a kill one checkpoint earlier is harmless.
    fp3 = os.path.join(d, 'chk3.h5')
    n_ok = len(log) - 1
    count = [0]

    def replace_and_kill_earlier(src, dst):
        if count[0] == n_ok:
            raise Kill()
        count[0] += 1
        real_replace(src, dst)

    os.replace = replace_and_kill_earlier
    try:
        s3 = Sampler(prior, like, filepath=fp3, **KW)
        s3.run(**RUN)
    except Kill:
        pass
    finally:
        os.replace = real_replace
    s4 = Sampler(prior, like, filepath=fp3, **KW)
    s4.run(**RUN)
    print('kill one checkpoint earlier, resumed: identical =',
          same(r_ref, summary(s4)))
finally:
    shutil.rmtree(d, ignore_errors=True)

if not same(r_ref, r_res):
    print('VIOLATION (C05): resuming from the checkpoint written after the '
          'last exploration batch gives n_like={} instead of {} and a '
          'different posterior/evidence; the end-of-exploration decision '
          'taken after that batch is not part of the checkpoint and is not '
          're-taken on resume.'.format(r_res[2], r_ref[2]))
    sys.exit(1)
print('no difference')

# Demonstration of a defect found by the round-5 bug hunt (DESIGN.md 10.13).
# Run with cwd = a nautilus tree: exits 1 on the tree before the fix:, 0 after.
import os, sys; sys.path.insert(0, os.getcwd())
# H3_a: a legal `neural_network_kwargs` makes every checkpoint write of a
# NautilusBound fail with OSError (HDF5 64 KiB attribute limit hit by the
# MLPRegressor.loss_curve_ list), although the same run without `filepath`
# works. The run can never get past the first bound, also not after a restart.
import gc, shutil, tempfile, warnings
import numpy as np
import nautilus
from nautilus import Sampler
print(nautilus.__file__)
warnings.filterwarnings('ignore')


def prior(x):
    return x


def likelihood(x):
    return -0.5 * np.sum(((x - 0.5) / 0.1)**2)


# Any MLPRegressor option that makes training take more than ~8190 epochs
# (max_iter is 10000 by default in nautilus) triggers the problem. Plain SGD
# with tol=0 (the nautilus default) always runs to max_iter.
nn_kwargs = dict(solver='sgd', hidden_layer_sizes=(8, ))
kwargs = dict(n_dim=2, n_live=100, n_networks=1, seed=1,
              neural_network_kwargs=nn_kwargs)
run_kwargs = dict(n_eff=0, n_like_max=400)

# 1. Without checkpointing everything is fine.
sampler = Sampler(prior, likelihood, **kwargs)
sampler.run(**run_kwargs)
n_iter = sampler.bounds[-1].neural_bounds[0].emulator.neural_networks[
    0].n_iter_
print('no checkpoint : ok, bounds = {}, n_like = {}, epochs of the network '
      '= {}'.format(len(sampler.bounds), sampler.n_like, n_iter))

# 2. With checkpointing, the identical run dies while writing the bound.
tmp = tempfile.mkdtemp()
path = os.path.join(tmp, 'checkpoint.hdf5')
errors = []
for attempt in range(2):
    sampler = Sampler(prior, likelihood, filepath=path, **kwargs)
    n_like_start = sampler.n_like
    try:
        sampler.run(**run_kwargs)
        print('attempt {}: ok'.format(attempt))
    except Exception as e:
        errors.append(repr(e))
        print('attempt {}: resumed at n_like = {}, crashed at n_like = {} '
              'with {}: {}'.format(attempt, n_like_start, sampler.n_like,
                                   type(e).__name__, e))
    print('           files left behind:', sorted(os.listdir(tmp)))
    # Drop the file handle leaked by the failed write (a real restart would
    # be a new process).
    del sampler
    gc.collect()
shutil.rmtree(tmp)

if errors:
    print('FAIL: a bound that works in memory cannot be written to a '
          'checkpoint; the checkpointed run is stuck at the same point after '
          'every restart.')
    sys.exit(1)
print('no problem found')

"""Slot tables and rules for the aligned groups of Sampler (DESIGN.md E1: G_shell,
G_rows, G_t, G_post) -- shared by C01, C02, C03, C12 and C14."""
import ast

from .core import AnalysisError
from .cfg import cfg_of
from .exprs import dotted, unparse, walk_no_nested, ekey, strip_not, root_attr
from .lockstep import Group, Tracker, Event, check_group_paths, STRUCTURAL

SHELL_ARRAYS = ['shell_n', 'shell_n_sample', 'shell_n_eff', 'shell_log_l_min', 'shell_log_l',
                'shell_log_v']
G_SHELL = Group('G_shell', ['bounds', 'points', 'log_l'] + SHELL_ARRAYS,
                {'blobs': {'self.blobs'}})
G_ROWS = Group('G_rows', ['points', 'log_l'], {'blobs': {'self.blobs', 'blobs'}})
G_T = Group('G_t', ['points_t', 'log_l_t', 'shell_t'],
            {'blobs_t': {'self.blobs', 'self.blobs_t'}})
T_OF = {'points': 'points_t', 'log_l': 'log_l_t', 'blobs': 'blobs_t'}


class SamplerTracker(Tracker):
    """Tracker for Sampler state: the per-shell arrays are flat arrays (element
    assignment is a MARK); `self.blobs = [x]` under `self.blobs is None` is the creation
    of the optional member and counts as an EXTEND of its (only) element."""

    def __init__(self, func, members):
        Tracker.__init__(self, func, members, arrays=set(SHELL_ARRAYS) | {
            'shell_t', 'shell_n_sample_exp', 'shell_end_exp'})

    def events_of(self, node):
        out = []
        for e in Tracker.events_of(self, node):
            if e.member == 'blobs' and e.level == 'list' and e.op == 'INIT' and \
                    e.extra.get('elts') and len(e.extra['elts']) == 1:
                # optional member created from its first batch
                out.append(Event('blobs', 'elem', '*', 'EXTEND', None, e.extra['elts'][0],
                                 e.ast, e.nid, {'old_first': True, 'init': True}))
                continue
            out.append(e)
        return out


def _likelihood_result_names(f):
    """Locals bound to the two results of self.evaluate_likelihood(...) in f."""
    out = []
    for n in walk_no_nested(f.node):
        if isinstance(n, ast.Assign) and isinstance(n.value, ast.Call) and \
                dotted(n.value.func) == '%s.evaluate_likelihood' % f.self_name and \
                isinstance(n.targets[0], ast.Tuple):
            out = [t.id for t in n.targets[0].elts if isinstance(t, ast.Name)]
    return out


def run_lockstep(ctx, rid, qualname, group, levels, max_loop=None, floor_paths=1):
    from .lockstep import bulk_deletion_view
    f = bulk_deletion_view(ctx.program.func(qualname))
    res_names = _likelihood_result_names(f)
    if res_names and 'blobs' in group.optional:
        # the presence of the optional member may be tested on the local that holds the
        # blobs returned by the likelihood, whatever it is called
        group = Group(group.name, group.mandatory,
                      {k: set(v) | ({res_names[-1]} if k == 'blobs' else set())
                       for k, v in group.optional.items()}, group.ignore_ops)
    tr = SamplerTracker(f, group.members)
    ml = max_loop if max_loop is not None else (1 if ctx.tier == 'quick' else 2)
    n, touched = check_group_paths(ctx, rid, f, group, tracker=tr, max_loop=ml, levels=levels,
                                   wildcard_idx=('*',))
    ctx.require(n >= floor_paths, '%s: group %s is no longer updated here (anchor drift)'
                % (qualname, group.name))
    ctx.extra['paths_compared'] = ctx.extra.get('paths_compared', 0) + n
    return tr


def rule_L1_sampler(ctx, which, rid='L1'):
    """which: subset of {'shell', 'rows', 't'}."""
    ctx.rule(rid, 'group-complete: along every bounded path, all members of an aligned group '
             '(per-shell records; rows of a shell; transfer candidates) undergo the same '
             'sequence of structural updates with the same selectors; optional members only '
             'skip an update under an explicit presence test')
    out = {}
    from .resolve import helper_closure
    S0 = ctx.program.cls('Sampler')
    allowed0, _ = helper_closure(ctx.program, S0, {
        'Sampler.add_bound', 'Sampler.run', 'Sampler.add_samples', 'Sampler.__init__'})
    if 'shell' in which:
        out['add_bound.shell'] = run_lockstep(ctx, rid, 'Sampler.add_bound', G_SHELL, ('list',))
        # the removal of empty shells: in run() itself or in a helper only run() calls
        sites = 0
        for q in sorted(allowed0 - {'Sampler.add_bound', 'Sampler.__init__',
                                    'Sampler.add_samples'}):
            from .lockstep import bulk_deletion_view
            fq = bulk_deletion_view(ctx.program.func(q))
            trq = SamplerTracker(fq, G_SHELL.members)
            if any(e.op in STRUCTURAL and e.level == 'list' and e.member in G_SHELL.members
                   for es in trq.all_events().values() for e in es):
                out[q + '.shell'] = run_lockstep(ctx, rid, q, G_SHELL, ('list',), max_loop=1)
                sites += 1
        ctx.require(sites >= 1, 'removal of empty shells not found in Sampler.run or its '
                    'helpers (anchor drift)')
    if 'rows' in which:
        out['add_bound.rows'] = run_lockstep(ctx, rid, 'Sampler.add_bound', G_ROWS, ('elem',))
        out['add_samples.rows'] = run_lockstep(ctx, rid, 'Sampler.add_samples', G_ROWS,
                                               ('elem',))
    if 't' in which:
        out['add_bound.t'] = run_lockstep(ctx, rid, 'Sampler.add_bound', G_T, ('list',))
    # no other Sampler method changes these groups structurally (who-may rule)
    allowed = allowed0
    S = ctx.program.cls('Sampler')
    members = set(G_SHELL.members) | set(G_T.members)
    for name, f in sorted(S.methods.items()):
        if f.qualname in allowed:
            continue
        tr = SamplerTracker(f, members)
        bad = [e for es in tr.all_events().values() for e in es if e.op in STRUCTURAL]
        ctx.ob(rid, '%s:no-structural-update' % f.qualname, not bad, f.where(),
               'does not change the aligned sampler records structurally' if not bad else
               'changes %s structurally outside the functions that keep the group in lockstep'
               % sorted({e.member for e in bad}))
    return out


# ---------------------------------------------------------------------------
# L2 move, L3 extend-prefix, L4 aligned source
# ---------------------------------------------------------------------------

def rule_L2_move(ctx, rid='L2'):
    ctx.rule(rid, 'move: rows that leave a shell for the transfer set are selected by a mask m, '
             'the shell keeps exactly the rows selected by ~m (same mask value, every paired '
             'member), and the shell tag is repeat(shell, sum(m)) of that same mask')
    f = ctx.program.func('Sampler.add_bound')
    cfg = cfg_of(f)
    tr = SamplerTracker(f, list(T_OF) + list(T_OF.values()) + ['shell_t'])
    ev = tr.all_events()
    pushes = {}     # member_t -> [(event)]
    selects = {}    # member -> [(event)]
    for nid in sorted(ev):
        for e in ev[nid]:
            if e.op == 'PUSH' and e.member in list(T_OF.values()) + ['shell_t']:
                pushes.setdefault(e.member, []).append(e)
            if e.op == 'SELECT' and e.level == 'elem' and e.member in T_OF:
                selects.setdefault(e.member, []).append(e)
    n = 0
    mask_keys = set()
    for m, mt in T_OF.items():
        ps, ss = pushes.get(mt, []), selects.get(m, [])
        if m == 'blobs' and not ps and not ss:
            continue
        ctx.require(ps or ss, 'Sampler.add_bound: transfer move of %r not found (L2 anchor)' % m)
        if not ss:
            n += 1
            ctx.ob(rid, 'Sampler.add_bound:move(%s)' % m, False, f.where(ps[0].ast),
                   'rows of self.%s are copied to %s but never removed from their shell: the '
                   'moved rows would be stored twice' % (m, mt))
            continue
        if not ps:
            n += 1
            ctx.ob(rid, 'Sampler.add_bound:move(%s)' % m, False, f.where(ss[0].ast),
                   'rows are removed from self.%s[shell] but not added to %s: the rows are lost '
                   'while their siblings are kept' % (m, mt))
            continue
        for p in ps:
            # payload must be self.m[shell][mask]
            pay = p.payload
            ok = False
            why = 'pushed value `%s` is not a mask selection of self.%s[shell]' % (
                unparse(pay), m)
            if isinstance(pay, ast.Subscript) and isinstance(pay.value, ast.Subscript):
                ra = root_attr(pay.value, f.self_name)
                if ra and ra[0] == m and len(ra[1]) == 1:
                    mk = tr.selkey(p.nid, pay.slice)
                    ik = tr.key(p.nid, ra[1][0][1])
                    comp = [s for s in ss if s.idx == ik and s.sel == _complement(mk)]
                    ok = bool(comp) and all(cfg.can_reach(p.nid, s.nid) for s in comp)
                    mask_keys.add(mk)
                    why = ('rows `%s` move to %s and self.%s[%s] keeps the complement of the '
                           'same mask' % (unparse(pay.slice), mt, m, unparse(ra[1][0][1]))
                           if ok else
                           'rows selected by `%s` move to %s but self.%s[%s] is not reduced by '
                           'the complement of that same mask (rows duplicated or lost)'
                           % (unparse(pay.slice), mt, m, unparse(ra[1][0][1])))
            n += 1
            ctx.ob(rid, 'Sampler.add_bound:move(%s)' % m, ok, f.where(p.ast), why)
    # shell tag
    for p in pushes.get('shell_t', []):
        pay = p.payload
        ok = False
        why = 'shell tag `%s` is not repeat(shell, sum(mask))' % unparse(pay)
        if isinstance(pay, ast.Call) and dotted(pay.func) in ('np.repeat', 'np.full') and \
                len(pay.args) >= 2:
            a, b = pay.args[0], pay.args[1]
            if dotted(pay.func) == 'np.full':
                a, b = b, a
            cnt = b
            mk = None
            if isinstance(cnt, ast.Call) and dotted(cnt.func) in (
                    'np.sum', 'np.count_nonzero', 'sum') and cnt.args:
                mk = tr.selkey(p.nid, cnt.args[0])
            # the loop variable indexing the shells
            sel_idx = {s.idx for ss in selects.values() for s in ss}
            ok = mk in mask_keys and tr.key(p.nid, a) in sel_idx
            why = ('tag is the shell index repeated once per moved row (same mask)' if ok else
                   'tag `%s` does not repeat the source shell index once per row of the move '
                   'mask' % unparse(pay))
        n += 1
        ctx.ob(rid, 'Sampler.add_bound:move(shell_t)', ok, f.where(p.ast), why)
    ctx.require(n >= 3, 'L2 found only %d move obligations' % n)
    return n


def _complement(k):
    return k[1:] if k.startswith('~') else '~' + k


def rule_L3_L4(ctx, rid3='L3', rid4='L4'):
    ctx.rule(rid3, 'extend-prefix: when rows are added to a shell the old rows come first '
             '(np.append(old, new) / np.concatenate((old, new))): history is append-only')
    ctx.rule(rid4, 'aligned source: the rows added to points, log_l and blobs of one shell in '
             'one step are the argument and the two results of one evaluate_likelihood call, '
             'or the same index selection of the three transfer arrays')
    f = ctx.program.func('Sampler.add_samples')
    cfg = cfg_of(f)
    tr = SamplerTracker(f, G_ROWS.members)
    ev = tr.all_events()
    ext = [e for nid in sorted(ev) for e in ev[nid] if e.op == 'EXTEND']
    ctx.require(len(ext) >= 4, 'Sampler.add_samples: only %d row extensions found' % len(ext))
    for e in ext:
        ok = e.extra.get('old_first', False)
        ctx.ob(rid3, 'Sampler.add_samples:extend(%s@%s)' % (e.member, _idx_text(e)), ok,
               f.where(e.ast), 'old rows first, new rows appended' if ok else
               'new rows are placed before the old ones: earlier samples are reordered')
    # families
    fam = {}
    for e in ext:
        fam.setdefault((e.idx if e.idx != '*' else None), []).append(e)
    # evaluate_likelihood call
    calls = []
    for n in cfg.nodes:
        if n.kind == 'stmt' and isinstance(n.ast, ast.Assign) and \
                isinstance(n.ast.value, ast.Call) and \
                dotted(n.ast.value.func) == '%s.evaluate_likelihood' % f.self_name:
            calls.append(n)
    ctx.require(len(calls) == 1, 'Sampler.add_samples: expected exactly one assignment from '
                'evaluate_likelihood, found %d' % len(calls))
    cn = calls[0]
    tgt = cn.ast.targets[0]
    ctx.require(isinstance(tgt, ast.Tuple) and len(tgt.elts) == 2 and
                all(isinstance(t, ast.Name) for t in tgt.elts) and cn.ast.value.args,
                'evaluate_likelihood result is not unpacked into two names')
    res_names = {'log_l': tgt.elts[0].id, 'blobs': tgt.elts[1].id}
    arg = cn.ast.value.args[0]
    arg_key = ekey(cfg, cn.id, arg, inline=False)

    def source_of(e):
        pay = e.payload
        # transfer gather: self.X_t[idx]
        if isinstance(pay, ast.Subscript):
            ra = root_attr(pay, f.self_name)
            if ra and len(ra[1]) == 1:
                return ('T', ra[0], tr.key(e.nid, ra[1][0][1]))
        if isinstance(pay, ast.Name):
            defs = cfg.defs_at(e.nid, pay.id)
            if pay.id in res_names.values() and defs == frozenset([cn.id]):
                role = [r for r, nme in res_names.items() if nme == pay.id][0]
                return ('E', role, cn.id)
            if ekey(cfg, e.nid, pay, inline=False) == arg_key:
                return ('E', 'points', cn.id)
        return ('?', unparse(pay), None)

    groups = {}
    for e in ext:
        s = source_of(e)
        groups.setdefault((s[0], s[2]), {})[e.member] = (s, e)
    for (kind, key), mem in sorted(groups.items(), key=lambda kv: str(kv[0])):
        for m, (s, e) in sorted(mem.items()):
            if kind == 'T':
                ok = s[1] == T_OF.get(m)
                why = 'rows of %r come from %r gathered with the shared index' % (m, s[1]) if ok \
                    else 'rows added to %r are gathered from %r (crossed transfer arrays)' % (
                        m, s[1])
            elif kind == 'E':
                ok = s[1] == m
                why = 'rows of %r are the %s of the single evaluate_likelihood call' % (
                    m, 'argument' if m == 'points' else 'result') if ok else \
                    'rows added to %r are the %r of the call (crossed results)' % (m, s[1])
            else:
                ok = False
                why = 'rows added to %r come from `%s`, which is neither the evaluated batch ' \
                      'nor a transfer gather' % (m, s[1])
            ctx.ob(rid4, 'Sampler.add_samples:source(%s<-%s)' % (m, kind), ok, f.where(e.ast),
                   why)
        # completeness of the family: points and log_l present
        missing = [m for m in ('points', 'log_l') if m not in mem]
        ctx.ob(rid4, 'Sampler.add_samples:family(%s)' % kind, not missing and kind != '?',
               f.where(list(mem.values())[0][1].ast),
               'points and log_l are extended from the same %s' % (
                   'transfer selection' if kind == 'T' else 'evaluation') if not missing else
               'family %s extends %s but not %s' % (kind, sorted(mem), missing))
    # the evaluated batch is not modified between the call and its storage
    return len(ext)


def _idx_text(e):
    return 'any' if e.idx == '*' else ('shell' if 'shell' in (e.idx or '') else 'last')


# ---------------------------------------------------------------------------
# L5 read view (posterior)
# ---------------------------------------------------------------------------

def _build_pattern(value, selfn):
    """np.concatenate([x[s:] for x, s in zip(self.<attr>, <start>)]) ->
    (attr, start expr) or None."""
    if not (isinstance(value, ast.Call) and dotted(value.func) in ('np.concatenate',
                                                                    'np.vstack', 'np.hstack')
            and value.args and isinstance(value.args[0], (ast.ListComp, ast.GeneratorExp))):
        return None
    lc = value.args[0]
    if len(lc.generators) != 1:
        return None
    g = lc.generators[0]
    if not (isinstance(g.iter, ast.Call) and dotted(g.iter.func) == 'zip' and
            len(g.iter.args) == 2 and isinstance(g.target, ast.Tuple) and
            len(g.target.elts) == 2):
        return None
    ra = root_attr(g.iter.args[0], selfn)
    if not ra or ra[1]:
        return None
    x, s = g.target.elts
    e = lc.elt
    if isinstance(e, ast.Subscript) and isinstance(e.value, ast.Name) and \
            isinstance(x, ast.Name) and e.value.id == x.id and isinstance(e.slice, ast.Slice) \
            and e.slice.upper is None and e.slice.step is None and \
            isinstance(e.slice.lower, ast.Name) and isinstance(s, ast.Name) and \
            e.slice.lower.id == s.id:
        return ra[0], g.iter.args[1]
    return None


def rule_L5(ctx, rid='L5'):
    ctx.rule(rid, 'read view: in posterior() the point, log-likelihood and blob arrays are '
             'built from the stored per-shell arrays with the same start offsets, repeated with '
             'the same counts on axis 0, and no other length- or order-changing operation '
             'touches one of them alone')
    f = ctx.program.func('Sampler.posterior')
    cfg = cfg_of(f)
    selfn = f.self_name
    locs = ['points', 'log_l', 'blobs', 'log_w']
    # discover the locals built from the stored arrays
    built = {}
    for n in cfg.nodes:
        if n.kind == 'stmt' and isinstance(n.ast, ast.Assign) and len(n.ast.targets) == 1 and \
                isinstance(n.ast.targets[0], ast.Name):
            bp = _build_pattern(n.ast.value, selfn)
            if bp:
                built[n.ast.targets[0].id] = (bp[0], ekey(cfg, n.id, bp[1]), n)
    ctx.require({'points', 'log_l'} <= {v[0] for v in built.values()},
                'Sampler.posterior: view construction over self.points / self.log_l not found '
                '(found %s)' % sorted(v[0] for v in built.values()))
    by_src = {v[0]: (k, v[1], v[2]) for k, v in built.items()}
    ref_key = by_src['points'][1]
    for src, (local, skey, node) in sorted(by_src.items()):
        ok = skey == ref_key
        ctx.ob(rid, 'Sampler.posterior:start(%s)' % src, ok, f.where(node.ast),
               'view of self.%s uses the same per-shell start offsets as the view of '
               'self.points' % src if ok else
               'view of self.%s is sliced with different start offsets than self.points: rows '
               'are misaligned' % src)
    blobs_ok = 'blobs' in by_src
    ctx.ob(rid, 'Sampler.posterior:view(blobs)', blobs_ok, f.where(),
           'blobs view is built like the points view' if blobs_ok else
           'no aligned view of self.blobs is built')
    # track the view locals
    names = [by_src[s][0] for s in by_src]
    tnames = {st.targets[0].id for st in walk_no_nested(f.node)
              if isinstance(st, ast.Assign) and isinstance(st.targets[0], ast.Name) and
              any(isinstance(x, ast.Attribute) and x.attr == 'prior' for x in ast.walk(st.value))}
    tr = Tracker(f, [], locals_=names)
    tr.map_calls = set(tnames)        # the prior transform maps rows to rows
    g = Group('G_post', [by_src['points'][0], by_src['log_l'][0]],
              {by_src['blobs'][0]: {'return_blobs'}} if blobs_ok else {},
              ignore_ops=('MARK', 'MAP', 'SET'))
    n, touched = check_group_paths(ctx, rid, f, g, tracker=tr, max_loop=1, levels=('list',))
    ctx.require(n >= 1, 'Sampler.posterior: equal-weight resampling of the view not found')
    # REPEAT must be on axis 0
    for es in tr.all_events().values():
        for e in es:
            if e.op == 'REPEAT':
                ok = e.extra.get('axis') == '0'
                ctx.ob(rid, 'Sampler.posterior:repeat-axis(%s)' % e.member, ok, f.where(e.ast),
                       'rows are repeated along axis 0' if ok else
                       'np.repeat without axis=0 flattens / repeats along the wrong axis')
            if e.op == 'SELECT' and e.extra.get('take'):
                one_d = e.member == by_src['log_l'][0]
                ok = e.extra.get('axis') == '0' or (one_d and e.extra.get('axis') is None)
                ctx.ob(rid, 'Sampler.posterior:take-axis(%s)' % e.member, ok, f.where(e.ast),
                       'rows are taken along axis 0' if ok else
                       'np.take without axis=0 indexes the flattened array: for a '
                       'two-dimensional %s the rows returned are not the selected rows'
                       % e.member)
    # the weights are rebuilt with the resampled length
    rep_keys = {e.sel for es in tr.all_events().values() for e in es if e.op == 'REPEAT'}
    ok = False
    wname = None
    for r_ in walk_no_nested(f.node):
        if isinstance(r_, ast.Return) and isinstance(r_.value, ast.Tuple) and \
                len(r_.value.elts) >= 2 and isinstance(r_.value.elts[1], ast.Name):
            wname = r_.value.elts[1].id
    for nnode in cfg.nodes:
        if nnode.kind == 'stmt' and isinstance(nnode.ast, ast.Assign) and \
                isinstance(nnode.ast.targets[0], ast.Name) and \
                nnode.ast.targets[0].id == wname:
            v = nnode.ast.value
            if isinstance(v, ast.Call) and dotted(v.func) in ('np.zeros', 'np.ones', 'np.full') \
                    and v.args and isinstance(v.args[0], ast.Call) and \
                    dotted(v.args[0].func) in ('np.sum', 'sum') and \
                    ekey(cfg, nnode.id, v.args[0].args[0]) in rep_keys:
                ok = True
            if isinstance(v, ast.Call) and dotted(v.func) == 'np.repeat' and len(v.args) >= 2 \
                    and ekey(cfg, nnode.id, v.args[1]) in rep_keys:
                ok = True
    ctx.ob(rid, 'Sampler.posterior:weights-length', ok or not rep_keys, f.where(),
           'equal weights are rebuilt with one entry per repeated row' if ok else
           'weights are not rebuilt to the resampled length')
    return tr, by_src


def rule_L1d_transition(ctx, rid='L1d'):
    """The exploration boundaries are recorded after the last removal of an empty shell."""
    from .lockstep import rule_derived
    ctx.rule(rid, 'transition-time members: shell_n_sample_exp / shell_end_exp are recorded '
             'after the last removal of an empty shell on every path (or are reduced in '
             'lockstep with the shell records)')
    run_f = ctx.program.func('Sampler.run')
    tr = SamplerTracker(run_f, G_SHELL.members + ['shell_n_sample_exp', 'shell_end_exp'])
    destructive = {'DELETE', 'SELECT', 'SLICE', 'REORDER', 'XFORM', 'REPLACE', 'INSERT'}
    extra = {m: helper_event_calls(ctx.program, run_f, {m}, ops=destructive)
             for m in ('shell_n_sample', 'points')}
    rule_derived(ctx, rid, run_f, 'shell_n_sample', 'shell_n_sample_exp', tr,
                 {nid for nid, _ in extra['shell_n_sample']})
    rule_derived(ctx, rid, run_f, 'points', 'shell_end_exp', tr,
                 {nid for nid, _ in extra['points']})


def helper_event_calls(prog, func, members, ops=None):
    """Calls in `func` to private helpers (methods only `func`'s permission set calls) that
    perform list-level structural updates of `members`.  -> [(call node id, Event)]"""
    from .resolve import helper_closure
    cfg = cfg_of(func)
    closure, _ = helper_closure(prog, func.cls, {func.qualname})
    out = []
    for c in walk_no_nested(func.node):
        if isinstance(c, ast.Call) and isinstance(c.func, ast.Attribute) and \
                isinstance(c.func.value, ast.Name) and c.func.value.id == func.self_name and \
                cfg.has(c):
            h = func.cls.methods.get(c.func.attr)
            if h is None or h.qualname not in closure or h is func:
                continue
            trh = SamplerTracker(h, list(members))
            for es in trh.all_events().values():
                for e in es:
                    if e.member in members and e.level == 'list' and (
                            e.op in (ops or STRUCTURAL)):
                        out.append((cfg.node_of(c).id, e))
    return out


# ---------------------------------------------------------------------------
# U1  update_shell_info touches only the slot it was asked to recompute
# ---------------------------------------------------------------------------

PER_SHELL = set(G_SHELL.members) | {'shell_n_sample_exp', 'shell_end_exp'}


def rule_U1(ctx, rid='U1'):
    ctx.rule(rid, 'slot discipline: update_shell_info(index) reads and writes the per-shell '
             'records (samples, counts, statistics, bound, exploration boundaries) only at '
             '`index`, and the recomputed volume depends on the bound volume, the sample count '
             'and the proposal count of that same shell')
    f = ctx.program.func('Sampler.update_shell_info')
    cfg = cfg_of(f)
    idx = [p for p in f.params if p != f.self_name][0]
    n = 0
    # a complete recomputation: every statistic of the shell is assigned on every path
    for a in ('shell_n', 'shell_log_v', 'shell_log_l', 'shell_n_eff'):
        nodes = set()
        for nn in cfg.nodes:
            if nn.kind == 'stmt' and isinstance(nn.ast, ast.Assign):
                for t in nn.ast.targets:
                    ra = root_attr(t, f.self_name)
                    if ra and ra[0] == a and ra[1] and ra[1][0][0] == 'idx' and \
                            isinstance(ra[1][0][1], ast.Name) and ra[1][0][1].id == idx:
                        nodes.add(nn.id)
        ok = bool(nodes) and cfg.must_pass(cfg.entry.id, cfg.exit.id, nodes)
        n += 1
        ctx.ob(rid, 'Sampler.update_shell_info:recomputes(%s)' % a, ok, f.where(),
               '%s[%s] is assigned on every path' % (a, idx) if ok else
               '%s[%s] is %s: after the call the statistic still describes the samples the '
               'shell held before' % (a, idx, 'never assigned' if not nodes else
                                      'left unassigned on some path (e.g. for a shell that '
                                      'became empty)'))
    bad = []
    for sub in walk_no_nested(f.node):
        if isinstance(sub, ast.Subscript):
            ra = root_attr(sub, f.self_name)
            if ra and ra[0] in PER_SHELL and ra[1] and ra[1][0][0] == 'idx':
                n += 1
                first = ra[1][0][1]
                if not (isinstance(first, ast.Name) and first.id == idx):
                    bad.append((sub.lineno, unparse(sub)))
        # whole-array use of a per-shell record inside the recomputation is suspicious too
    ctx.ob(rid, 'Sampler.update_shell_info:only-own-slot', not bad and n >= 8, f.where(),
           'all %d accesses to per-shell records use the slot `%s`' % (n, idx) if not bad else
           'per-shell records are accessed at another slot: %s' % bad[:3])
    # dependencies of the recomputed volume
    from .agree import _depends
    vol = [x for x in cfg.nodes if x.kind == 'stmt' and isinstance(x.ast, ast.Assign) and
           root_attr(x.ast.targets[0], f.self_name) and
           root_attr(x.ast.targets[0], f.self_name)[0] == 'shell_log_v' and
           not isinstance(x.ast.value, (ast.Constant, ast.UnaryOp))]
    ctx.require(vol, 'update_shell_info: recomputation of shell_log_v not found')
    v = vol[0]
    deps = {
        'bound-volume': lambda e: isinstance(e, ast.Attribute) and e.attr == 'log_v' and
        root_attr(e.value, f.self_name) and root_attr(e.value, f.self_name)[0] == 'bounds',
        'sample-count': lambda e: isinstance(e, ast.Call) and dotted(e.func) == 'len',
        'proposal-count': lambda e: isinstance(e, ast.Attribute) and
        dotted(e) == 'self.shell_n_sample',
    }
    for k, pred in deps.items():
        ok = _depends(cfg, v.id, v.ast.value, pred)
        ctx.ob(rid, 'Sampler.update_shell_info:volume-depends-on(%s)' % k, ok, f.where(v.ast),
               'the shell volume depends on the %s' % k if ok else
               'the shell volume does not depend on the %s' % k)
    # the samples summarised are the stored likelihoods of this shell from `start` on
    src = [x for x in cfg.nodes if x.kind == 'stmt' and isinstance(x.ast, ast.Assign) and
           isinstance(x.ast.value, ast.Subscript) and
           isinstance(x.ast.value.slice, ast.Slice) and
           root_attr(x.ast.value.value, f.self_name) and
           root_attr(x.ast.value.value, f.self_name)[0] == 'log_l']
    ok = bool(src) and src[0].ast.value.slice.upper is None and \
        src[0].ast.value.slice.step is None and isinstance(src[0].ast.value.slice.lower, ast.Name)
    ctx.ob(rid, 'Sampler.update_shell_info:summarises-stored-likelihoods', ok, f.where(),
           'the statistics are computed from self.log_l[index][start:]' if ok else
           'the statistics are not computed from the tail self.log_l[index][start:]')


# ---------------------------------------------------------------------------
# M7  shell_association: membership = last containing bound
# ---------------------------------------------------------------------------

def rule_M7(ctx, rid='M7'):
    ctx.rule(rid, 'shell_association assigns each point the largest index among the bounds that '
             'contain it: bounds are visited from the newest down and a point, once assigned, '
             'is never reassigned (or they are visited upwards and every hit overwrites)')
    f = ctx.program.func('Sampler.shell_association')
    cfg = cfg_of(f)
    loops = [lp for lp in walk_no_nested(f.node) if isinstance(lp, ast.For) and
             any(isinstance(c, ast.Call) and isinstance(c.func, ast.Attribute) and
                 c.func.attr == 'contains' for c in ast.walk(lp))]
    ctx.require(len(loops) == 1, 'shell_association: loop over the bounds not found')
    lp = loops[0]
    it = lp.iter
    desc = False
    e = it
    while isinstance(e, ast.Call) and dotted(e.func) in ('reversed', 'list', 'enumerate'):
        if dotted(e.func) == 'reversed':
            desc = not desc
        e = e.args[0]
    over_bounds = root_attr(e, f.self_name) and root_attr(e, f.self_name)[0] == 'bounds'
    # the value written is the enumerate index paired with the bound tested
    tgt = lp.target
    pair_ok = isinstance(tgt, ast.Tuple) and len(tgt.elts) == 2 and \
        all(isinstance(t, ast.Name) for t in tgt.elts)
    assigns = [s for s in ast.walk(lp) if isinstance(s, ast.Assign) and
               isinstance(s.targets[0], ast.Subscript) and isinstance(s.value, ast.Name) and
               pair_ok and s.value.id == tgt.elts[0].id]
    cont = [c for c in ast.walk(lp) if isinstance(c, ast.Call) and
            isinstance(c.func, ast.Attribute) and c.func.attr == 'contains']
    recv_ok = pair_ok and all(isinstance(c.func.value, ast.Name) and
                              c.func.value.id == tgt.elts[1].id for c in cont)
    ctx.ob(rid, 'Sampler.shell_association:index-paired-with-bound', bool(
        over_bounds and pair_ok and assigns and recv_ok), f.where(lp),
        'the index written for a point is the enumerate index of the bound that was tested')
    # once assigned never reassigned: the test is applied only to unassigned points
    only_unassigned = False
    if assigns:
        res_name = assigns[0].targets[0].value.id if isinstance(
            assigns[0].targets[0].value, ast.Name) else None
        for s in ast.walk(lp):
            if isinstance(s, ast.Assign) and isinstance(s.value, ast.Compare) and \
                    isinstance(s.value.left, ast.Name) and s.value.left.id == res_name and \
                    isinstance(s.value.ops[0], (ast.GtE, ast.Lt)):
                only_unassigned = True
    ok = (desc and only_unassigned) or (not desc and not only_unassigned)
    ctx.ob(rid, 'Sampler.shell_association:last-containing-bound', bool(over_bounds and ok),
           f.where(lp), 'bounds are visited newest-first and only unassigned points are tested: '
           'a point gets the last bound that contains it' if ok else
           'the visiting order (%s) and the update discipline (%s) do not select the LAST '
           'containing bound' % ('descending' if desc else 'ascending',
                                 'unassigned only' if only_unassigned else 'overwrite'))


# ---------------------------------------------------------------------------
# A8  estimators combine per-shell arrays under one selection
# ---------------------------------------------------------------------------

def rule_A8(ctx, rid='A8'):
    ctx.rule(rid, 'estimator alignment: in log_z, n_eff and eta every selection applied to a '
             'per-shell quantity uses one and the same mask (so that likelihood, volume and '
             'effective size of the same shells are combined), and the evidence depends on both '
             'the shell likelihoods and the shell volumes')
    from .agree import _depends
    prog = ctx.program
    shell_arrays = {'shell_n', 'shell_n_eff', 'shell_log_l', 'shell_log_v', 'shell_n_sample'}
    for q in ('Sampler.log_z', 'Sampler.n_eff', 'Sampler.eta'):
        f = prog.func(q)
        cfg = cfg_of(f)
        # locals that hold per-shell quantities (derived from shell arrays)
        shellish = set()
        for _ in range(3):
            for n in cfg.nodes:
                if n.kind == 'stmt' and isinstance(n.ast, ast.Assign) and \
                        isinstance(n.ast.targets[0], ast.Name):
                    if any((isinstance(x, ast.Attribute) and x.attr in shell_arrays) or
                           (isinstance(x, ast.Name) and x.id in shellish)
                           for x in ast.walk(n.ast.value)):
                        shellish.add(n.ast.targets[0].id)
        keys = {}
        for n in cfg.nodes:
            a = n.ast if n.kind == 'stmt' else (n.expr if n.kind == 'test' else None)
            if a is None:
                continue
            for sub in ast.walk(a):
                if isinstance(sub, ast.Subscript) and isinstance(sub.ctx, ast.Load):
                    base_shell = any((isinstance(x, ast.Attribute) and x.attr in shell_arrays)
                                     or (isinstance(x, ast.Name) and x.id in shellish)
                                     for x in ast.walk(sub.value))
                    sl = sub.slice
                    if base_shell and isinstance(sl, (ast.Name, ast.UnaryOp, ast.Compare)):
                        keys.setdefault(ekey(cfg, n.id, sl), []).append(sub.lineno)
        ok = len(keys) <= 1
        ctx.ob(rid, '%s:one-selection' % q, ok, f.where(),
               'per-shell quantities are combined under a single selection (%d uses)' % sum(
                   len(v) for v in keys.values()) if ok else
               'per-shell quantities are selected with %d different masks (lines %s): values of '
               'different shells would be combined' % (len(keys), sorted(
                   {l for v in keys.values() for l in v})))
    f = prog.func('Sampler.log_z')
    cfg = cfg_of(f)
    rets = [n for n in cfg.nodes if n.kind == 'stmt' and isinstance(n.ast, ast.Return) and
            n.ast.value is not None and not (isinstance(n.ast.value, ast.Constant))]
    for r in rets:
        for a in ('shell_log_l', 'shell_log_v'):
            ok = _depends(cfg, r.id, r.ast.value,
                          lambda e, a=a: isinstance(e, ast.Attribute) and e.attr == a)
            ctx.ob(rid, 'Sampler.log_z:depends-on(%s)' % a, ok, f.where(r.ast),
                   'the evidence depends on %s' % a)


# ---------------------------------------------------------------------------
# A9 the marker written for an empty shell is the one the estimators test for
# ---------------------------------------------------------------------------

def _marker(e):
    """'nan' / '-inf' / 'inf' / 'zero' for np.nan, -np.inf, np.inf, 0; else None."""
    if isinstance(e, ast.Attribute) and dotted(e) in ('np.nan', 'np.NaN', 'math.nan'):
        return 'nan'
    if isinstance(e, ast.Attribute) and dotted(e) in ('np.inf', 'math.inf'):
        return 'inf'
    if isinstance(e, ast.UnaryOp) and isinstance(e.op, ast.USub) and \
            isinstance(e.operand, ast.Attribute) and dotted(e.operand) in ('np.inf', 'math.inf'):
        return '-inf'
    if isinstance(e, ast.Call) and dotted(e.func) == 'float' and e.args and \
            isinstance(e.args[0], ast.Constant) and isinstance(e.args[0].value, str):
        return {'nan': 'nan', '-inf': '-inf', 'inf': 'inf'}.get(e.args[0].value.lower())
    return None


def rule_A9(ctx, rid='A9'):
    ctx.rule(rid, 'empty-shell marker agreement: where estimators recognise a shell without '
             'samples by a test on a per-shell statistic (np.isnan(x), x == 0 / x > 0, '
             'x == -inf), every degenerate constant the sampler writes into that statistic '
             '(nan, +-inf, 0) is one those tests recognise')
    prog = ctx.program
    S = prog.cls('Sampler')
    n = 0

    def self_attr(a, f):
        while isinstance(a, ast.Subscript):
            a = a.value
        if isinstance(a, ast.Attribute) and isinstance(a.value, ast.Name) and \
                a.value.id == f.self_name:
            return a.attr
        return None
    tested = {}
    for f in S.methods.values():
        for x in walk_no_nested(f.node):
            if isinstance(x, ast.Call) and dotted(x.func) in ('np.isnan', 'math.isnan') and \
                    x.args and self_attr(x.args[0], f):
                tested.setdefault(self_attr(x.args[0], f), {}).setdefault('nan', []).append(
                    f.qualname)
            if isinstance(x, ast.Call) and dotted(x.func) in ('np.isneginf',) and x.args and \
                    self_attr(x.args[0], f):
                tested.setdefault(self_attr(x.args[0], f), {}).setdefault('-inf', []).append(
                    f.qualname)
            if isinstance(x, ast.Compare) and len(x.ops) == 1 and self_attr(x.left, f) and \
                    self_attr(x.left, f).startswith('shell_'):
                c = x.comparators[0]
                if isinstance(c, ast.Constant) and c.value == 0 and \
                        not isinstance(c.value, bool) and \
                        isinstance(x.ops[0], (ast.Eq, ast.NotEq, ast.Gt, ast.LtE)):
                    tested.setdefault(self_attr(x.left, f), {}).setdefault('zero', []).append(
                        f.qualname)
                if _marker(c) == '-inf':
                    tested.setdefault(self_attr(x.left, f), {}).setdefault('-inf', []).append(
                        f.qualname)
    for attr, kinds in sorted(tested.items()):
        users = sorted({u for us in kinds.values() for u in us})
        for f in S.methods.values():
            for st in walk_no_nested(f.node):
                if not isinstance(st, ast.Assign) or len(st.targets) != 1:
                    continue
                if self_attr(st.targets[0], f) != attr:
                    continue
                v = st.value
                if isinstance(v, ast.Call) and dotted(v.func) == 'np.append' and \
                        len(v.args) >= 2:
                    v = v.args[1]
                m = _marker(v)
                if m is None and isinstance(v, ast.Constant) and v.value == 0 and \
                        not isinstance(v.value, bool):
                    m = 'zero'
                if m is None:
                    continue
                ok = m in kinds
                n += 1
                ctx.ob(rid, '%s:marker(%s)' % (f.qualname, attr), ok, f.where(st),
                       'a shell without samples gets %s = %s, which %s test for' % (
                           attr, m, ', '.join(users)) if ok else
                       '`%s` marks a shell without samples with %s, but %s recognise such shells '
                       'only by %s on %s: the shell is not skipped and its degenerate terms '
                       'poison the estimate' % (unparse(st)[:50], m, ', '.join(users),
                                                ' / '.join(sorted(kinds)), attr))
    return n


# ---------------------------------------------------------------------------
# L3b blobs returned by the likelihood are stored on every path
# ---------------------------------------------------------------------------

def rule_L3b(ctx, rid='L3'):
    ctx.rule(rid, 'returned blobs are stored: in add_samples, wherever the batch evaluation '
             'returned blobs, every path to the exit stores them into self.blobs (first batch: '
             'creation of the list; later: extension of the shell\'s rows)')
    f = ctx.program.func('Sampler.add_samples')
    cfg = cfg_of(f)
    names = _likelihood_result_names(f)
    if not names:
        ctx.note('L3b not decided: result of evaluate_likelihood not found')
        return 0
    bname = names[-1]
    stores = set()
    for n in cfg.nodes:
        if n.kind != 'stmt' or n.ast is None:
            continue
        st = n.ast
        tgt_ok = False
        if isinstance(st, ast.Assign):
            for t in st.targets:
                b = t
                while isinstance(b, ast.Subscript):
                    b = b.value
                if dotted(b) == '%s.blobs' % f.self_name:
                    tgt_ok = True
        elif isinstance(st, ast.Expr) and isinstance(st.value, ast.Call) and \
                isinstance(st.value.func, ast.Attribute) and \
                st.value.func.attr in ('append', 'extend'):
            b = st.value.func.value
            while isinstance(b, ast.Subscript):
                b = b.value
            if dotted(b) == '%s.blobs' % f.self_name:
                tgt_ok = True
        if tgt_ok and any(isinstance(x, ast.Name) and x.id == bname for x in ast.walk(st)):
            stores.add(n.id)
    tests = [t for t in cfg.nodes if t.kind == 'test' and t.expr is not None and any(
        tx == '%s is not None' % bname or tx == '%s is None' % bname
        for _, tx, _ in __import__('nvstat.cfg', fromlist=['edge_facts']).edge_facts(t.expr, True))]
    n = 0
    from .cfg import edge_facts
    for t in tests:
        for s_, lab in t.succ:
            if lab not in (True, False):
                continue
            present = any((tx == '%s is not None' % bname and tr) or
                          (tx == '%s is None' % bname and not tr)
                          for _, tx, tr in edge_facts(t.expr, lab))
            if not present:
                continue
            ok = bool(stores) and (s_ in stores or cfg.must_pass(s_, cfg.exit.id, stores)
                                   if s_ != cfg.exit.id else False)
            n += 1
            ctx.ob(rid, 'Sampler.add_samples:returned-blobs-stored', ok, f.where(t.ast),
                   'every path on which the likelihood returned blobs stores them' if ok else
                   'a path on which the likelihood returned blobs reaches the end of '
                   'add_samples without storing them: the blobs of that batch are lost and the '
                   'blob rows no longer line up with the points')
    return n


# ---------------------------------------------------------------------------
# G6: a record kept as a snapshot of another record is a copy, not a second name for it
# ---------------------------------------------------------------------------

_COPIES = {'np.copy', 'np.array', 'copy.copy', 'copy.deepcopy', 'deepcopy', 'list', 'np.append',
           'np.concatenate', 'np.delete', 'np.insert'}
_NO_COPY = {'np.asarray', 'np.asanyarray', 'np.atleast_1d', 'np.ravel', 'np.reshape',
            'np.squeeze', 'np.transpose'}


def _inplace_written(cls, attr):
    """Sites of `cls` that modify attribute `attr` in place (element store, in-place operator
    on an element, list mutators)."""
    out = []
    for m in cls.methods.values():
        for n in walk_no_nested(m.node):
            tg = []
            if isinstance(n, ast.Assign):
                tg = n.targets
            elif isinstance(n, ast.AugAssign):
                tg = [n.target]
            for t in tg:
                if isinstance(t, ast.Subscript):
                    ra = root_attr(t, m.self_name)
                    if ra and ra[0] == attr:
                        out.append((m, n))
            if isinstance(n, ast.Call) and isinstance(n.func, ast.Attribute) and n.func.attr in (
                    'append', 'pop', 'extend', 'insert', 'remove', 'clear', 'sort', 'fill',
                    'resize', 'put'):
                ra = root_attr(n.func.value, m.self_name)
                if ra and ra[0] == attr and not ra[1]:
                    out.append((m, n))
    return out


def rule_G6(ctx, classes=('Sampler',), rid='G6'):
    """`self.X = self.Y` (or a non-copying wrapper of it) makes X a second name for Y's storage:
    every later element store into Y (`self.shell_n_sample[shell] += n`) shows through X.  A
    record that is meant to FREEZE another one at some moment (shell_n_sample_exp: the proposal
    counts when exploration ended) must be a copy."""
    ctx.rule(rid, 'snapshot-not-alias: an attribute assigned from another attribute of the same '
             'object that is modified in place anywhere in the class is assigned a copy')
    n = 0
    for cname in classes:
        cls = ctx.program.cls(cname)
        for m in cls.methods.values():
            for st in walk_no_nested(m.node):
                if not (isinstance(st, ast.Assign) and len(st.targets) == 1):
                    continue
                ta = root_attr(st.targets[0], m.self_name)
                if not ta or ta[1]:
                    continue
                v = st.value
                how = 'bare'
                while isinstance(v, ast.Call):
                    d = dotted(v.func) or ''
                    if isinstance(v.func, ast.Attribute) and v.func.attr == 'copy' and \
                            not v.args:
                        how, v = 'copy', v.func.value
                        break
                    if d in _COPIES and v.args:
                        how, v = 'copy', v.args[0]
                        break
                    if d in _NO_COPY and v.args:
                        v = v.args[0]
                        continue
                    v = None
                    break
                if v is None:
                    continue
                sa = root_attr(v, m.self_name) if isinstance(v, ast.Attribute) else None
                if not sa or sa[1] or sa[0] == ta[0]:
                    continue
                w = _inplace_written(cls, sa[0]) + _inplace_written(cls, ta[0])
                n += 1
                if not w:
                    ctx.ob(rid, '%s:%s<-%s:snapshot-is-a-copy' % (m.qualname, ta[0], sa[0]), True,
                           m.where(st), 'neither record is modified in place anywhere in %s'
                           % cls.name)
                    continue
                ok = how == 'copy'
                ctx.ob(rid, '%s:%s<-%s:snapshot-is-a-copy' % (m.qualname, ta[0], sa[0]), ok,
                       m.where(st),
                       '`%s` stores a copy' % unparse(st)[:60] if ok else
                       '`%s` makes self.%s a second name for the storage of self.%s, which is '
                       'modified in place (`%s` in %s): the frozen record follows every later '
                       'update' % (unparse(st)[:60], ta[0], sa[0], unparse(w[0][1])[:40],
                                   w[0][0].qualname))
    return n


def rule_T11(ctx, rid='T11'):
    """The removal of unoccupied shells at the end of exploration runs whenever ANY shell is
    empty: a guard around the removal loop is `np.any(<the loop's own selector>)` (or absent)."""
    ctx.rule(rid, 'prune-guard: the loop that removes unoccupied shells is guarded by nothing '
             'stronger than "some shell is unoccupied"')
    n = 0
    cls_ = ctx.program.cls('Sampler')
    funcs = [m for k, m in cls_.methods.items() if k != '__init__']
    for f in funcs:
        n += _t11_in(ctx, rid, f)
    ctx.require(n >= 1, 'T11: removal loop of unoccupied shells not found in Sampler')
    return n


def _t11_in(ctx, rid, f):
    par = {}
    for p in ast.walk(f.node):
        for c in ast.iter_child_nodes(p):
            par[id(c)] = p
    n = 0
    for lp in walk_no_nested(f.node):
        if not isinstance(lp, ast.For):
            continue
        sel = None
        its = [lp.iter]
        for x in ast.walk(lp.iter):
            if isinstance(x, ast.Name):
                its += [st.value for st in walk_no_nested(f.node) if isinstance(st, ast.Assign)
                        and len(st.targets) == 1 and isinstance(st.targets[0], ast.Name) and
                        st.targets[0].id == x.id]
        for it in its:
            for c in ast.walk(it):
                if isinstance(c, ast.Call) and (dotted(c.func) or '') in (
                        'np.flatnonzero', 'np.where') and c.args:
                    sel = c.args[0]
        pops = [c for c in ast.walk(lp) if isinstance(c, ast.Call) and
                isinstance(c.func, ast.Attribute) and c.func.attr == 'pop' and
                root_attr(c.func.value, f.self_name)]
        if sel is None or not pops:
            continue
        p = par.get(id(lp))
        guards = []
        q = lp
        while isinstance(p, ast.If) and q in p.body:
            # only guards that mention the record the selector tests
            names = {x.attr for x in ast.walk(sel) if isinstance(x, ast.Attribute)}
            if any(isinstance(x, ast.Attribute) and x.attr in names for x in ast.walk(p.test)):
                guards.append(p.test)
            q, p = p, par.get(id(p))
        n += 1
        bad = None
        for g in guards:
            okg = isinstance(g, ast.Call) and (
                (dotted(g.func) == 'np.any' and g.args and unparse(g.args[0]) == unparse(sel)) or
                (isinstance(g.func, ast.Attribute) and g.func.attr == 'any' and
                 unparse(g.func.value) == unparse(sel)))
            if not okg:
                ctx.require(isinstance(g, ast.Call) and (dotted(g.func) or '') in (
                    'np.all', 'all') or isinstance(g, ast.Compare) or
                    (isinstance(g, ast.Call) and isinstance(g.func, ast.Attribute) and
                     g.func.attr == 'all'),
                    'T11 not decided: guard `%s` of the shell-removal loop' % unparse(g)[:50])
                bad = g
        ctx.ob(rid, 'Sampler.run:prune-guard', bad is None, f.where(bad or lp),
               'unoccupied shells are removed whenever `%s` holds for some shell' % unparse(sel)
               if bad is None else
               'the removal loop runs only under `%s`, which is stronger than `np.any(%s)`: an '
               'unoccupied shell survives the end of exploration (a shell without a sample: NaN '
               'statistics, and the sampling phase may never fill it)'
               % (unparse(bad)[:50], unparse(sel)))
    return n

"""C08 -- proposals are uniform over the bound and reported volumes are calibrated (weak)."""
from ..agree import rule_A3, rule_Q1_Q2
from ..pathrules import rule_T8ii
from ..persist import rule_P4_bound, rule_P1_P2, rule_P9, persist_classes, _ctor_obj
from ..shape import rule_N2, rule_N3
from ..lockstep import ExpandingTracker
from .C13 import rule_T9, G_UNION
from ..rowfacts import rule_M1
from ..memo import rule_K2
from ..volumes import rule_V2

LEVEL_TEXT = ('Weak structural claim only: the pool path merges exactly the counters the serial '
              'path advances; counters describe the rows actually cached; acceptance depends on '
              'multiplicity over all members and allocation on member volumes; counters are '
              'persisted.  Uniformity and calibration as distributional facts are NOT decided.'
              ' Plus exact algebra for the closed-form volumes (rational accepted fraction, log|det M| + (n/2) log pi - lgamma(n/2+1) for the sampling matrix M), acceptance probability 1/multiplicity, proposal-cache discipline and fresh counters.')


def run(ctx):
    from ..persist import rule_P8
    rule_P8(ctx)      # ... also after a checkpoint round trip of the networks
    from ..persist import rule_P12k
    rule_P12k(ctx)      # ordered members are never rebuilt from the (alphabetical) group names
    prog = ctx.program
    # M1 first: it does not depend on the shape of the pool branch, which A3 needs
    rule_M1(ctx)      # what sample() hands out is inside the region contains() accepts
    from ..rowfacts import rule_M2
    rule_M2(ctx, 'NeuralBound.contains')      # contains() tests every member in one frame:
    rule_M2(ctx, 'NautilusBound.contains')    # the region proposals are uniform over is well defined
    rule_A3(ctx)
    from ..shape import rule_N4, rule_G8
    rule_N4(ctx)      # per-member membership tests are reduced over the members
    rule_G8(ctx)      # each pool job draws from its own stream
    rule_T8ii(ctx, 'Union.sample')
    rule_T8ii(ctx, 'NautilusBound.sample')
    rule_Q1_Q2(ctx)
    rule_N2(ctx)
    rule_N3(ctx, classes={'Union', 'NautilusBound', 'Ellipsoid', 'UnitCubeEllipsoidMixture',
                          'NeuralBound', 'UnitCube'})
    from ..rowfacts import rule_M9
    k9 = rule_M9(ctx)
    ctx.require(k9 >= 4, 'M9 decided only %d cache obligations (floor 4)' % k9)
    rule_V2(ctx)      # the closed-form volumes, as exact algebra
    from ..volumes import rule_V5
    rule_V5(ctx)      # members hand back raw draws; only the union rejects and counts
    from ..effects import rule_F3
    rule_F3(ctx)      # every pool job draws from its own generator, in every member
    from ..initrules import rule_I2
    rule_I2(ctx)      # counters and cache start from zero in compute() and reset()
    rule_K2(ctx, classes={'Union', 'NautilusBound', 'Ellipsoid', 'UnitCubeEllipsoidMixture',
                          'NeuralBound', 'UnitCube'})      # a cached volume is invalidated by every counter update (serial and pool)
    for q in ('Union.split', 'Union.trim'):     # counters restart when the member set changes
        from ..loader import helper_view
        fq = helper_view(prog, prog.func(q))
        rule_T9(ctx, fq, ExpandingTracker(fq, G_UNION.members + ['log_v_all'],
                                          arrays={'block', 'log_v_all'}))
    for cname in ('Union', 'NautilusBound'):
        rule_P4_bound(ctx, prog.cls(cname))
        rd = prog.cls(cname).methods['read']      # ... and members come back in written order
        rule_P9(ctx, rd, _ctor_obj(rd))
    ctx.floor('A3', 5, 'merge obligations')
    ctx.floor('T8', 4, 'accounting obligations')
    ctx.floor('V2', 12, 'volume-algebra obligations')
    ctx.not_decided += ['uniformity of proposals and calibration of volumes as distributional '
                        'statements (the heart of the property)',
                        'floating-point evaluation of the volume formulas; that '
                        'minimum_volume_enclosing_ellipsoid returns A and its inverse']

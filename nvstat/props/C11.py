"""C11 -- same seed, same result, however the likelihood is evaluated or observed."""
from ..effects import rule_F1, rule_F2, rule_F3, rule_F4, rule_F5, rule_F7, rule_F8, rule_G1, rule_F9, rule_G3, rule_F10

LEVEL_TEXT = ('Static effect analysis over the resolved call graph: purity of the 12 read-only '
              'accessors, observational independence of verbose / filepath / vectorized / pool, '
              'rng plumbing to every object that draws, absence of nondeterminism sources, and '
              'order preservation of the pool map.')


def run(ctx):
    rule_F1(ctx)
    rule_F2(ctx)
    from ..rowfacts import rule_M9
    rule_M9(ctx)      # a pool job owns the bound it fills (no shared mutable state between jobs)
    from ..effects import rule_F2p
    rule_F2p(ctx)
    rule_F3(ctx)
    rule_F4(ctx)
    rule_F5(ctx)
    rule_F7(ctx)      # scalar vs vectorised must not differ through in-place user code
    from ..effects import rule_F12
    rule_F12(ctx)      # the likelihood's own return array is never stored
    rule_F8(ctx)      # ... nor through shape-dependent arithmetic in the transform
    rule_G1(ctx)      # ... nor on what another sampler did earlier in the process
    rule_F10(ctx)     # vectorised / pooled evaluation never meets the worker-only stub
    k3 = rule_G3(ctx)
    ctx.require(k3 >= 3, 'G3 found only %d optional constructor arguments (floor 3)' % k3)
    rule_F9(ctx)      # ... nor on arrays changed behind the caller's back
    from ..memo import rule_K2
    rule_K2(ctx)      # ... nor on when an accessor happened to fill a cache

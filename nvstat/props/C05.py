"""C05 -- stopping and resuming at any batch boundary does not change the result."""
from ..persist import (rule_P0, rule_P9, rule_P1_P2, rule_P3, rule_P4_sampler, rule_P4_bound,
                       rule_P5, rule_P8, rule_P11, rule_P14)
from ..effects import rule_F3, rule_F4
from ..memo import rule_K2

LEVEL_TEXT = ('Static persistence-completeness analysis: effect sets of the code that runs '
              'between two full checkpoint writes are compared with the key tables extracted '
              'from write / write_shell_update / update and the resume block; plus rng plumbing '
              'and nondeterminism-source rules.')

P3_EXCEPTIONS = {
    ('Sampler', 'n_update_iter'), ('Sampler', 'n_like_iter'),
}


def run(ctx):
    from ..persist import rule_P17
    k17 = rule_P17(ctx)      # no value is sorted / thinned between attribute and file
    ctx.require(k17 >= 60, 'P17 saw only %d stored values (floor 60)' % k17)
    from ..persist import rule_P16
    rule_P16(ctx)      # the resume block does not overwrite what the caller configured
    from ..persist import rule_P12k
    rule_P12k(ctx)      # ordered members are never rebuilt from the (alphabetical) group names
    from ..pathrules import rule_T2_publish
    rule_T2_publish(ctx)      # a half-finished checkpoint update is never published
    prog = ctx.program
    S = prog.cls('Sampler')
    init = prog.func('Sampler.__init__')
    rule_P4_sampler(ctx)
    roots = [prog.func('Sampler.run')] + [f for f in S.methods.values() if f.kind == 'setter']
    rule_P0(ctx, 'Sampler', roots, prog.func('Sampler.write'))
    for cname in ('NautilusBound', 'Union'):
        c = prog.cls(cname)
        rule_P0(ctx, cname, [c.methods[m] for m in ('sample', 'log_v', 'reset')
                             if m in c.methods], c.methods['write'])
    for cname in ('NautilusBound', 'Union'):
        rule_P4_bound(ctx, prog.cls(cname))
    rule_P1_P2(ctx, 'Sampler', prog.func('Sampler.write'), init, 'self',
               reader_only_keys={'n_dim', 'n_live', 'n_update', 'n_like_new_bound',
                                 'enlarge_per_dim', 'n_points_min', 'split_threshold',
                                 'n_networks', 'n_batch', 'vectorized', 'pass_dict',
                                 'neural_network_{}'})
    rule_P5(ctx, 'Sampler', init, 'self')
    rule_P9(ctx, init, 'self')
    from ..persist import rule_P12
    rule_P12(ctx, init, 'self')
    rule_P11(ctx)
    rule_P14(ctx)
    from ..persist import rule_P15
    k15 = rule_P15(ctx, 'Sampler', prog.func('Sampler.write_shell_update'), init, 'self')
    ctx.require(k15 >= 15, 'P15 saw only %d updated keys (floor 15)' % k15)
    for cname in ('NautilusBound', 'Union'):
        c = prog.cls(cname)
        from ..persist import _ctor_obj
        rule_P15(ctx, cname, c.methods['update'], c.methods['read'], _ctor_obj(c.methods['read']))
    from ..pathrules import rule_T10
    k10 = rule_T10(ctx)
    ctx.require(k10 >= 3, 'T10 saw only %d checkpoint writes in run() (floor 3)' % k10)
    rule_P8(ctx)      # the emulator's hyper-parameters survive the round trip
    rule_K2(ctx)      # cached values never outlive the state they were computed from
    rule_F3(ctx)
    rule_F4(ctx)
    ctx.floor('P4', 25, 'incremental-update obligations')
    ctx.floor('P0', 20, 'mutable attributes')
    ctx.floor('P6', 6, 'state-change sites in run()')
    ctx.floor('P1', 30, 'key obligations')
    ctx.floor('P2', 20, 'key/attribute pairs')
    ctx.assumptions += [
        'the constructor arguments of a resumed sampler equal those of the original (config keys '
        'are written but deliberately not read back)',
        'first-batch test `n_like == n_batch` holds exactly after the first batch of a fresh '
        'sampler (n_like grows by exactly n_batch per batch: decided under C10)',
    ]
    ctx.not_decided += ['bit-identity as such (needs exact h5py float round trips and '
                        'deterministic sklearn training: trusted)']

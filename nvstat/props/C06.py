"""C06 -- a kill at any instant leaves an atomic, loadable checkpoint."""
from ..pathrules import rule_T2
from ..persist import rule_P4_sampler

LEVEL_TEXT = ('Static typestate analysis of every function of the package that touches the file '
              'system for writing: decides that the caller-visible checkpoint path changes only '
              'by an atomic rename of a completely written and closed temporary file, which is '
              'the necessary and sufficient code shape for "every crash point leaves the old or '
              'the new state".')


def run(ctx):
    n = rule_T2(ctx)
    ctx.require(n >= 2, 'only %d checkpoint writers found (floor 2: Sampler.write, '
                'Sampler.write_shell_update)' % n)
    ctx.floor('T2', 3, 'typestate obligations')
    # never a mixture of two states: an in-place update is only ever applied to a file that
    # this run wrote completely (first batch, layout changes => full write) and refreshes
    # everything that changed since
    rule_P4_sampler(ctx)
    ctx.assumptions += [
        'POSIX rename/replace within one file system is atomic',
        'crash = process kill (page cache survives): no fsync obligation',
        'HDF5 library internals are trusted once the file is closed',
    ]
    ctx.not_decided += ['power loss / fsync durability', 'reader tolerance of foreign files']

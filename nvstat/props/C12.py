"""C12 -- exploration ends once; then history is append-only; discard is a pure view."""
from ..effects import rule_F6
from ..pathrules import rule_T3, rule_T4, rule_T6
from ..agree import rule_A2_A6
from ..sampler_rules import rule_L3_L4, rule_L1_sampler, rule_L1d_transition
from ..persist import rule_P4_sampler_subset

LEVEL_TEXT = ('Static phase-guard, who-may-write, extend-prefix and purity rules: bounds and '
              'shell records change only under `not explored`, explored is only ever set to '
              'True, rows are only appended after the old ones, the discard setter recomputes '
              'every shell from stored arrays with no lazy sampling, and the flag is persisted '
              'by the incremental update.')


def run(ctx):
    from ..persist import rule_P12k
    rule_P12k(ctx)      # ordered members are never rebuilt from the (alphabetical) group names
    from ..pathrules import rule_T2_publish
    rule_T2_publish(ctx)      # a half-finished checkpoint update is never published
    rule_T6(ctx)
    rule_F6(ctx)
    rule_L1_sampler(ctx, {'shell'})
    rule_L3_L4(ctx)
    rule_L1d_transition(ctx)
    from ..sampler_rules import rule_G6
    k6 = rule_G6(ctx)      # the exploration boundary is a copy of the counts, not an alias
    ctx.require(k6 >= 1, 'G6 saw no snapshot assignment (floor 1: shell_n_sample_exp)')
    from ..sampler_rules import rule_T11
    rule_T11(ctx)      # every unoccupied shell is removed when exploration ends
    rule_T3(ctx, view=True)
    # the view is a pure recomputation: update_shell_info assigns EVERY statistic of the shell on
    # every path (a shell with no sample in view must not keep the n_eff of the other view)
    from ..sampler_rules import rule_U1
    rule_U1(ctx)
    from ..pathrules import rule_T5
    rule_T5(ctx)      # the loop of run() ends only when every shell has its minimum (success predicate)
    rule_T4(ctx)
    rule_A2_A6(ctx)
    from ..initrules import rule_I1
    rule_I1(ctx, {'counter', 'rows'})
    # ... also across a resume: the stored rows come back in shell order
    from ..persist import rule_P9, rule_P12
    rule_P9(ctx, ctx.program.func('Sampler.__init__'), 'self')
    rule_P12(ctx, ctx.program.func('Sampler.__init__'), 'self')
    rule_P4_sampler_subset(ctx, ('points', 'log_l', 'blobs', 'shell_t', 'bound', 'pop_shell', 'add_bound', 'first-batch',
                            'update-shell', 'batch-checkpointed', 'optional-init') + ('shell_', '_discard_exploration', 'explored', 'discard_explora'),
                           'the stored rows, the exploration boundary and the discard flag')
    ctx.floor('T6', 6, 'phase-guard obligations')
    ctx.floor('L3', 4, 'row extensions')
    ctx.floor('T4', 2, 'publication sites')
    ctx.not_decided += ['"every shell keeps at least one sample" as a count (follows from the '
                        'removal block + append-only, both decided; the count is runtime)',
                        'bit-for-bit restoration of the statistics when toggling back (decided: '
                        'they are a pure recomputation from stored arrays and flags)']

"""C07 -- bounds are sound: samples lie inside, construction points are enclosed."""
from ..rowfacts import rule_M1, rule_M2, rule_M3, rule_A4
from ..intervals import rule_M6
from ..lockstep import Group, ExpandingTracker, check_group_paths
from .C13 import rule_L6, rule_T9, G_UNION

LEVEL_TEXT = ('Static membership-fact rules at the composition level: for the four classes with '
              'sample() and contains(), every conjunct of contains() is established by a row '
              'selection on the path from the member draws to the returned rows, in the same '
              'frame and under the same guards; composite contains() masks only narrow the '
              'outer bound\'s mask; construction points stay recorded with their ellipsoid '
              'through splits; the phase shift is closed on [0,1).')


def run(ctx):
    from ..persist import rule_P17
    k17 = rule_P17(ctx, only={'Union', 'NautilusBound', 'Ellipsoid', 'UnitCubeEllipsoidMixture', 'NeuralBound', 'UnitCube', 'PhaseShift'})
    ctx.require(k17 >= 30, 'P17 saw only %d stored values of the bound classes (floor 30)' % k17)
    from ..shape import rule_N4
    rule_N4(ctx)      # per-member membership tests are reduced over the members
    from ..persist import rule_P8
    rule_P8(ctx)      # a restored emulator is the emulator whose verdicts filtered the cached proposals
    from ..persist import rule_P12k
    rule_P12k(ctx)      # ordered members are never rebuilt from the (alphabetical) group names
    from ..volumes import rule_V2
    rule_M1(ctx)
    rule_V2(ctx)      # leaf level: the ellipsoid sampler and contains() use inverse matrices
    from ..volumes import rule_V3, rule_V4
    k4 = rule_V4(ctx)
    ctx.require(k4 >= 5, 'V4 decided only %d enclosure obligations (floor 5)' % k4)
    k3 = rule_V3(ctx)
    ctx.require(k3 >= 2, 'V3 decided only %d enclosure sites (floor 2)' % k3)
    from ..effects import rule_F9
    rule_F9(ctx)      # contains() / transform() leave the points they are asked about alone
    rule_A4(ctx)
    rule_M2(ctx, 'NeuralBound.contains')
    rule_M2(ctx, 'NautilusBound.contains')
    rule_M3(ctx)
    rule_M6(ctx)
    prog = ctx.program
    ctx.rule('L1', 'group-complete: bounds / points_bounds / block change together in split and '
             'trim (so that the enclosure of the recorded points carries over to the union)')
    for q in ('Union.split', 'Union.trim'):
        from ..loader import helper_view
        f = helper_view(prog, prog.func(q))
        tr = ExpandingTracker(f, G_UNION.members + ['log_v_all'], arrays={'block', 'log_v_all'})
        check_group_paths(ctx, 'L1', f, G_UNION, tracker=tr, max_loop=1)
        rule_T9(ctx, f, tr)
        if q == 'Union.split':
            rule_L6(ctx, f, tr)
    ctx.floor('M1', 14, 'sample/contains obligations')
    ctx.floor('M2', 6, 'mask obligations')
    ctx.floor('A4', 6, 'mixture pairings')
    ctx.assumptions += ['leaf numerics are assumed, not decided: the MVEE encloses its points '
                        'after rescaling, u**(1/d) < 1, the Cholesky frame round-trips, '
                        'Generator.random() is in [0,1)']
    ctx.not_decided += ['numerical soundness of Ellipsoid.sample / Ellipsoid.contains and of the '
                        'minimum-volume enclosing ellipsoid (floating-point reasoning)']

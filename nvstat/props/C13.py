"""C13 -- a union of ellipsoids stays well-formed under any split/trim/sample order."""
import ast

from ..cfg import cfg_of
from ..exprs import unparse, ekey, dotted, walk_no_nested
from ..lockstep import (Group, ExpandingTracker, check_group_paths, rule_derived, STRUCTURAL)
from ..pathrules import rule_T1
from ..persist import attrs_assigned, _ctor_obj

LEVEL_TEXT = ('Static lockstep analysis of the four parallel per-ellipsoid records of Union '
              '(bounds, points_bounds, block; log_v_all derived) along every bounded path of '
              'split and trim, record/ellipsoid consistency of the pushed elements, '
              'validate-before-mutate for refused operations and cache invalidation.'
              ' Plus: refusal test polarity and summed children volumes, cluster top-up arithmetic (both clusters keep n_points_min), stabilised exponentials, argument isolation (recorded points never written through a call).')

G_UNION = Group('G_union', ['bounds', 'points_bounds', 'block'])


def rule_L6(ctx, func, tracker, rid='L6'):
    """The k-th ellipsoid pushed is computed from the k-th point set pushed."""
    ctx.rule(rid, 'record consistency: wherever an element is added to Union.bounds, the element '
             'added at the same position of points_bounds is the value passed to the compute '
             'call that produced the bound, in the same order')
    cfg = tracker.cfg
    ev = tracker.all_events()
    from ..lockstep import local_list_pushes

    def added(member):
        """records added to `member`: pushes and in-place replacements, in program order"""
        return [e for nid in sorted(ev) for e in ev[nid] if e.member == member and
                (e.op == 'PUSH' or (e.op == 'SET' and e.level == 'elem'))]

    def resolve(e):
        """the expression that produced the record: follows `lst[k]` / a local name into the
        local list / local it came from"""
        v = e.payload
        for _ in range(3):
            if isinstance(v, ast.Subscript) and isinstance(v.value, ast.Name) and \
                    isinstance(v.slice, ast.Constant) and isinstance(v.slice.value, int):
                pl = local_list_pushes(func, v.value.id, e.nid)
                if pl is not None and -len(pl) <= v.slice.value < len(pl):
                    v = pl[v.slice.value]
                    continue
            if isinstance(v, ast.Name):
                ds = cfg.defs_at(e.nid, v.id)
                if len(ds) == 1 and isinstance(cfg.nodes[next(iter(ds))].ast, ast.Assign):
                    v = cfg.nodes[next(iter(ds))].ast.value
                    continue
            break
        return v
    b = added('bounds')
    p = added('points_bounds')
    ctx.require(len(b) == len(p) and b, '%s: %d bound pushes vs %d point-set pushes (L1 reports '
                'the imbalance)' % (func.qualname, len(b), len(p)))
    for k, (eb, ep) in enumerate(zip(b, p)):
        call = resolve(eb)
        ok = False
        why = 'pushed bound is not a compute(...) call'
        if isinstance(call, ast.Call) and isinstance(call.func, ast.Attribute) and \
                call.func.attr == 'compute' and call.args:
            nb = cfg.node_of(call).id if cfg.has(call) else eb.nid
            kb = ekey(cfg, nb, call.args[0])
            kp = ekey(cfg, ep.nid, ep.payload)
            # the argument may be spelled through a loop variable (points[labels == label] for
            # label in [0, 1]): compare after substituting the k-th literal of the loop
            ok = kb == kp or _same_modulo_loop(func, call, ep.payload, k)
            why = 'bound #%d is computed from `%s`, record #%d stores `%s`' % (
                k, unparse(call.args[0]), k, unparse(ep.payload))
        ctx.ob(rid, '%s:record(%d)' % (func.qualname, k), ok, func.where(eb.ast), why)
    # block flags are computed from the same records (len of the pushed point sets)
    bl = added('block')
    ctx.ob(rid, '%s:one-flag-per-record' % func.qualname, len(bl) == len(b), func.where(),
           '%d may-split flags are pushed for %d new ellipsoids' % (len(bl), len(b)))
    for k, e in enumerate(bl):
        txt = unparse(e.payload)
        want = -len(bl) + k
        ok = ('points_bounds[%d]' % want) in txt or (k < len(p) and unparse(p[k].payload) in txt)
        if not ok and k < len(p):
            # the flag counts the rows the record selects: same selector expression
            sels = [unparse(x) for x in ast.walk(p[k].payload) if isinstance(x, ast.Compare)]
            ok = any(sx in txt for sx in sels)
            if not ok and isinstance(p[k].payload, ast.Subscript) and \
                    isinstance(p[k].payload.slice, ast.Name):
                ok = p[k].payload.slice.id in txt
        ctx.ob(rid, '%s:block(%d)' % (func.qualname, k), ok, func.where(e.ast),
               'may-split flag #%d is derived from record #%d (`%s`)' % (k, k, txt))


def _same_modulo_loop(func, call, payload, k):
    """compute(points[labels == label]) inside `for label in [0, 1]` is, for its k-th
    iteration, compute(points[labels == k-th literal])."""
    import copy
    for lp in walk_no_nested(func.node):
        if isinstance(lp, ast.For) and isinstance(lp.target, ast.Name) and \
                isinstance(lp.iter, (ast.List, ast.Tuple)) and any(
                    x is call for x in ast.walk(lp)) and k < len(lp.iter.elts):
            class Sub(ast.NodeTransformer):
                def visit_Name(self, n):
                    if n.id == lp.target.id:
                        return copy.deepcopy(lp.iter.elts[k])
                    return n
            a = Sub().visit(copy.deepcopy(call.args[0]))
            return unparse(a) == unparse(payload)
    return False


def rule_T9(ctx, func, tracker, rid='T9'):
    ctx.rule(rid, 'cache invalidation: every structural change of Union.bounds is followed on '
             'every path by a reset of the proposal cache and both counters')
    cfg = tracker.cfg
    ev = tracker.all_events()
    src = sorted({nid for nid, es in ev.items() for e in es
                  if e.member == 'bounds' and ((e.op in STRUCTURAL and e.level == 'list') or
                                               (e.op == 'SET' and e.level == 'elem'))})
    resets = set()
    for n in walk_no_nested(func.node):
        if isinstance(n, ast.Call) and dotted(n.func) == '%s.reset' % func.self_name and \
                cfg.has(n):
            resets.add(cfg.node_of(n).id)
    # explicit clearing of all three also counts
    assigned = attrs_assigned(func, func.self_name)
    for i, s in enumerate(src):
        ok = bool(resets) and cfg.must_pass(s, cfg.exit.id, resets)
        if not ok:
            ok = all(a in assigned and cfg.must_pass(s, cfg.exit.id, assigned[a])
                     for a in ('points', 'n_sample', 'n_reject'))
        ctx.ob(rid, '%s:reset-after-change@%d' % (func.qualname, i), ok,
               func.where(cfg.nodes[s].ast),
               'structural change of self.bounds is followed by reset() on every path' if ok
               else 'self.bounds changes but the cached proposals / counters drawn under the old '
               'member set survive (no reset on some path)')


def rule_S2(ctx, rid='S2'):
    ctx.rule(rid, 'refusal test of split: the summed volume of the two children is compared with '
             'the volume of the ellipsoid being split (the record at `index`), and the may-split '
             'flag uses the same minimum-size rule wherever it is computed')
    from ..agree import _depends
    from ..loader import helper_view
    f = helper_view(ctx.program, ctx.program.func('Union.split'))
    cfg = cfg_of(f)
    n = 0
    # the locals that hold the children: whatever is added to self.bounds
    child_names = set()
    struct_nodes = []
    for st in walk_no_nested(f.node):
        if isinstance(st, ast.Assign) and dotted(st.targets[0]) == 'self.bounds':
            child_names |= {x.id for x in ast.walk(st.value) if isinstance(x, ast.Name)
                            and x.id not in ('self', 'np')}
            if cfg.has(st):
                struct_nodes.append(cfg.node_of(st).id)
        if isinstance(st, ast.Call) and isinstance(st.func, ast.Attribute) and \
                dotted(st.func.value) == 'self.bounds' and cfg.has(st):
            if st.func.attr in ('append', 'extend', 'insert'):
                child_names |= {x.id for a_ in st.args for x in ast.walk(a_)
                                if isinstance(x, ast.Name) and x.id not in ('self', 'np')}
            if st.func.attr in ('append', 'extend', 'insert', 'pop'):
                struct_nodes.append(cfg.node_of(st).id)
    ctx.require(child_names and struct_nodes, 'Union.split: replacement of the split member '
                'not found')
    for t in cfg.nodes:
        if t.kind != 'test':
            continue
        for cmp_ in [x for x in ast.walk(t.expr) if isinstance(x, ast.Compare)
                     and len(x.ops) == 1]:
            sides = [cmp_.left, cmp_.comparators[0]]
            dep = [_depends(cfg, t.id, s_, lambda e: isinstance(e, ast.Name) and
                            e.id in child_names) or
                   any(isinstance(x, ast.Name) and x.id in child_names for x in ast.walk(s_))
                   for s_ in sides]
            if not any(dep) or all(dep):
                continue
            if not any(isinstance(x, ast.Attribute) and x.attr in ('log_v', 'log_v_all')
                       for s_ in sides for x in ast.walk(s_)):
                continue
            other = sides[1] if dep[0] else sides[0]
            kids = sides[0] if dep[0] else sides[1]
            n += 1
            # (a) the children's volumes are summed
            kc = kids
            while isinstance(kc, ast.Name):
                ds = cfg.defs_at(t.id, kc.id)
                if len(ds) != 1 or not isinstance(cfg.nodes[next(iter(ds))].ast, ast.Assign):
                    break
                kc = cfg.nodes[next(iter(ds))].ast.value
            summed = isinstance(kc, ast.Call) and (
                (dotted(kc.func) or '').endswith('logsumexp') or
                dotted(kc.func) in ('np.logaddexp', 'np.logaddexp.reduce'))
            ctx.ob(rid, 'Union.split:children-volume-is-summed', summed, f.where(t.ast),
                   'the children enter the comparison with their summed volume (logsumexp)'
                   if summed else
                   'the children enter the comparison as `%s`, not as the sum of their volumes: a '
                   'split whose children together are larger than the parent can be accepted'
                   % unparse(kids)[:50])
            # (b) polarity: the replacement is reached only when children <= parent
            op = cmp_.ops[0]
            kids_left = dep[0]
            greater = (isinstance(op, (ast.Gt, ast.GtE)) and kids_left) or \
                      (isinstance(op, (ast.Lt, ast.LtE)) and not kids_left)
            smaller = (isinstance(op, (ast.Lt, ast.LtE)) and kids_left) or \
                      (isinstance(op, (ast.Gt, ast.GtE)) and not kids_left)
            okp = False
            first = min(struct_nodes)
            for tid, lab in cfg.strict_guards(first):
                if tid != t.id:
                    continue
                from ..cfg import edge_facts
                for atom, _, truth in edge_facts(cfg.nodes[tid].expr, lab):
                    if ast.dump(atom) == ast.dump(cmp_) or unparse(atom) == unparse(cmp_):
                        okp = (greater and truth is False) or (smaller and truth is True)
            ctx.ob(rid, 'Union.split:replacement-only-if-not-larger', okp, f.where(t.ast),
                   'the split member is replaced only where the children\'s summed volume does '
                   'not exceed the parent\'s' if okp else
                   'the replacement of the split member is not confined to the branch on which '
                   '`%s` says the children are not larger than the parent: a split can increase '
                   'the summed volume' % unparse(cmp_)[:60])
            txt = unparse(other)
            # names used to select the record that is replaced (pop / np.delete / slice)
            idx_names = set()
            for x in ast.walk(f.node):
                if isinstance(x, ast.Call) and isinstance(x.func, ast.Attribute) and \
                        x.func.attr == 'pop' and x.args and isinstance(x.args[0], ast.Name):
                    idx_names.add(x.args[0].id)
                if isinstance(x, ast.Call) and dotted(x.func) == 'np.delete' and \
                        len(x.args) > 1 and isinstance(x.args[1], ast.Name):
                    idx_names.add(x.args[1].id)
                if isinstance(x, ast.Assign) and isinstance(x.targets[0], ast.Subscript) and \
                        dotted(x.targets[0].value) == 'self.bounds' and \
                        isinstance(x.targets[0].slice, ast.Name):
                    idx_names.add(x.targets[0].slice.id)
            ok = False
            o = other
            if isinstance(o, ast.Attribute) and o.attr == 'log_v':
                o = o.value
                want = 'bounds'
            else:
                want = 'log_v_all'
            if isinstance(o, ast.Subscript) and isinstance(o.slice, ast.Name) and \
                    o.slice.id in idx_names and dotted(o.value) == 'self.' + want:
                ok = True
            ctx.ob(rid, 'Union.split:children-vs-parent-volume', ok, f.where(t.ast),
                   'the children are compared with the volume of the ellipsoid being split'
                   if ok else 'the children are compared with `%s`, not with the volume of the '
                   'ellipsoid being split: a split that enlarges it can be accepted' % txt)
    ctx.require(n >= 1, 'Union.split: volume comparison of the children not found')
    # the minimum-size rule of the may-split flag
    factors = {}
    for q in ('Union.compute', 'Union.split', 'Union.read'):
        if not ctx.program.has_func(q):
            continue
        g = ctx.program.func(q)
        for x in ast.walk(g.node):
            if isinstance(x, ast.Compare) and len(x.ops) == 1 and \
                    isinstance(x.left, ast.Call) and dotted(x.left.func) == 'len' and \
                    'n_points_min' in unparse(x.comparators[0]):
                r = x.comparators[0]
                k = 1
                if isinstance(r, ast.BinOp) and isinstance(r.op, ast.Mult):
                    for side in (r.left, r.right):
                        if isinstance(side, ast.Constant):
                            k = side.value
                factors.setdefault((k, type(x.ops[0]).__name__), []).append(q)
    ok = len(factors) == 1
    ctx.ob(rid, 'Union:may-split-rule-agrees', ok, ctx.program.func('Union.compute').where(),
           'compute(), split() and the reader of older files flag an ellipsoid as unsplittable '
           'by the same size rule %s'
           % list(factors) if ok else
           'the may-split flag uses different size rules: %s' % factors)


def rule_S3(ctx, rid='S3'):
    ctx.rule(rid, 'minimum cluster size: the top-up of the smaller cluster in split() is '
             'triggered when a cluster has fewer than n_points_min members and assigns at least '
             'n_points_min of the most likely points to it (slice bound and threshold compared '
             'as linear forms in n_points_min)')
    from ..gaps import linear, _Unknown
    from fractions import Fraction
    from ..loader import helper_view
    f = helper_view(ctx.program, ctx.program.func('Union.split'))

    def sym(e):
        if isinstance(e, ast.Attribute) and e.attr == 'n_points_min':
            return 'm'
        return None
    n = 0
    # trigger: a comparison of cluster sizes (bincount / sum of labels) with n_points_min,
    # used as a branch condition (the same comparison stored as a may-split flag is S2's)
    in_tests = set()
    for st in walk_no_nested(f.node):
        if isinstance(st, (ast.If, ast.While, ast.IfExp)):
            for x in ast.walk(st.test):
                in_tests.add(id(x))
    for t in walk_no_nested(f.node):
        if id(t) not in in_tests:
            continue
        left_ = t.left if isinstance(t, ast.Compare) else None
        if isinstance(left_, ast.Name):
            # the counts may have been bound to a local first
            ds = [x for x in walk_no_nested(f.node) if isinstance(x, ast.Assign) and
                  len(x.targets) == 1 and isinstance(x.targets[0], ast.Name) and
                  x.targets[0].id == left_.id]
            if len(ds) == 1:
                left_ = ds[0].value
        if isinstance(t, ast.Compare) and len(t.ops) == 1 and any(
                isinstance(x, ast.Call) and dotted(x.func) in ('np.bincount', 'np.sum',
                                                               'np.count_nonzero')
                for x in ast.walk(left_)) and any(
                isinstance(x, ast.Attribute) and x.attr == 'n_points_min'
                for x in ast.walk(t.comparators[0])) and \
                isinstance(t.ops[0], (ast.GtE, ast.Gt, ast.Lt, ast.LtE)) and \
                'labels' in {x.id for x in ast.walk(left_) if isinstance(x, ast.Name)} | {
                    'labels' if 'bincount' in unparse(left_) else ''}:
            try:
                fm = linear(t.comparators[0], sym, {})
            except _Unknown:
                ctx.note('S3 not decided: threshold `%s`' % unparse(t.comparators[0]))
                continue
            c = fm.get(1, 0)
            strict = isinstance(t.ops[0], (ast.Gt, ast.Lt))
            # "size >= m + c" (or "size > m + c"): enough iff it implies size >= m
            ok = fm.get('m', 0) == 1 and (c >= 0 if not strict else c >= -1)
            n += 1
            ctx.ob(rid, 'Union.split:top-up-threshold', ok, f.where(t),
                   'a cluster counts as large enough only with at least n_points_min members'
                   if ok else
                   'the size test `%s` accepts clusters with fewer than n_points_min members'
                   % unparse(t)[:60])
    # the top-up assigns at least n_points_min points: labels[<order>[:K]] = label
    for st in walk_no_nested(f.node):
        if isinstance(st, ast.Assign) and isinstance(st.targets[0], ast.Subscript) and \
                isinstance(st.targets[0].slice, ast.Subscript) and \
                isinstance(st.targets[0].slice.slice, ast.Slice) and \
                st.targets[0].slice.slice.lower is None and \
                st.targets[0].slice.slice.upper is not None and \
                any(isinstance(x, ast.Attribute) and x.attr == 'n_points_min'
                    for x in ast.walk(st.targets[0].slice.slice.upper)):
            up = st.targets[0].slice.slice.upper
            try:
                fm = linear(up, sym, {})
            except _Unknown:
                ctx.note('S3 not decided: slice bound `%s`' % unparse(up))
                continue
            ok = fm.get('m', 0) >= 1 and fm.get(1, 0) >= 0
            n += 1
            ctx.ob(rid, 'Union.split:top-up-size', ok, f.where(st),
                   'the smaller cluster receives the n_points_min most likely points' if ok else
                   'the smaller cluster is topped up with `%s` points, fewer than n_points_min'
                   % unparse(up))
    # a top-up that selects by VALUE instead of by rank: `labels = np.where(p >= p_min, ..)` /
    # `labels[p >= p_min] = label` gives the smaller cluster every point tied with the cut -
    # possibly more than n_points_min, and the other cluster correspondingly fewer
    for st in walk_no_nested(f.node):
        if not isinstance(st, ast.Assign):
            continue
        t0 = st.targets[0]
        by_value = None
        if isinstance(st.value, ast.Call) and dotted(st.value.func) == 'np.where' and \
                st.value.args and isinstance(st.value.args[0], ast.Compare) and \
                isinstance(t0, (ast.Name, ast.Subscript)) and 'label' in unparse(t0):
            by_value = st.value.args[0]
        elif isinstance(t0, ast.Subscript) and isinstance(t0.slice, ast.Compare) and \
                'label' in unparse(t0.value):
            by_value = t0.slice
        if by_value is None:
            continue
        cfg_ = cfg_of(f)
        if not cfg_.has(st) or not any('n_points_min' in tx
                                       for _, tx, _ in cfg_.facts(cfg_.node_of(st).id)):
            continue
        n += 1
        ctx.ob(rid, 'Union.split:top-up-size', False, f.where(st),
               'the smaller cluster is topped up with every point satisfying `%s`, a cut by '
               'value: points tied with the cut all go to that cluster, which then holds more '
               'than n_points_min points while the other one is left with fewer than '
               'n_points_min (select by rank: `order[:n_points_min]`)' % unparse(by_value)[:50])
    # ... and the OTHER cluster keeps its minimum as well.  The top-up adds the n_points_min most
    # likely points to the smaller cluster without removing its former members, so that cluster
    # can grow to 2 n_points_min - 1 and the larger one shrink to N - 2 n_points_min + 1.  With
    # splits allowed from N >= k n_points_min points (k = factor of the may-split rule) this is
    # only safe if k >= 3, or if the cluster is re-labelled as a whole (the smaller one gets
    # exactly n_points_min, the other N - n_points_min >= n_points_min for k >= 2), or if the
    # sizes are checked again before the children are built.
    topups = [st for st in walk_no_nested(f.node) if isinstance(st, ast.Assign) and
              isinstance(st.targets[0], ast.Subscript) and
              isinstance(st.targets[0].slice, ast.Subscript) and
              isinstance(st.targets[0].slice.slice, ast.Slice) and
              any(isinstance(x, ast.Attribute) and x.attr == 'n_points_min'
                  for x in ast.walk(st.targets[0].slice))]
    if topups:
        cfg = cfg_of(f)
        tu = topups[0]
        lname = tu.targets[0].value.id if isinstance(tu.targets[0].value, ast.Name) else None
        k = None
        for x in ast.walk(ctx.program.func('Union.compute').node):
            if isinstance(x, ast.Compare) and len(x.ops) == 1 and \
                    isinstance(x.ops[0], (ast.Lt, ast.LtE)) and \
                    'n_points_min' in unparse(x.comparators[0]) and \
                    isinstance(x.left, ast.Call) and dotted(x.left.func) == 'len':
                try:
                    fm = linear(x.comparators[0], sym, {})
                    k = fm.get('m', 0)
                except _Unknown:
                    pass
        # (a) whole relabelling just before the top-up: labels[:] = <other> / labels = np.full
        relabel = False
        if lname and cfg.has(tu):
            for st in walk_no_nested(f.node):
                if isinstance(st, ast.Assign) and cfg.has(st) and st is not tu and \
                        cfg.dominates(cfg.node_of(st).id, cfg.node_of(tu).id) and \
                        cfg.strict_guards(cfg.node_of(st).id) == \
                        cfg.strict_guards(cfg.node_of(tu).id):
                    t0 = st.targets[0]
                    whole = (isinstance(t0, ast.Subscript) and isinstance(t0.value, ast.Name)
                             and t0.value.id == lname and isinstance(t0.slice, ast.Slice) and
                             t0.slice.lower is None and t0.slice.upper is None) or \
                            (isinstance(t0, ast.Name) and t0.id == lname and
                             isinstance(st.value, ast.Call) and
                             dotted(st.value.func) in ('np.full', 'np.full_like', 'np.where'))
                    if whole:
                        relabel = True
        # (b) a second size check between the top-up and the construction of the children
        recheck = False
        if cfg.has(tu):
            after = cfg.reach(cfg.node_of(tu).id)
            for t in cfg.nodes:
                if t.kind == 'test' and t.id in after and t.expr is not None and any(
                        isinstance(x, ast.Call) and dotted(x.func) in (
                            'np.bincount', 'np.sum', 'np.count_nonzero', 'len')
                        for x in ast.walk(t.expr)) and 'n_points_min' in unparse(t.expr) and \
                        not cfg.can_reach(t.id, cfg.node_of(tu).id):
                    recheck = True
        ok = relabel and (k is not None and k >= 2) or recheck or (k is not None and k >= 3)
        n += 1
        ctx.ob(rid, 'Union.split:both-clusters-keep-minimum', ok, f.where(tu),
               'after the top-up both clusters hold at least n_points_min points (%s)' % (
                   'whole relabelling, splits from %s n_points_min points' % k if relabel else
                   ('sizes re-checked' if recheck else 'splits only from %s n_points_min' % k))
               if ok else
               'the top-up gives the smaller cluster its n_points_min most likely points without '
               'taking its former members away, so it can grow to 2 n_points_min - 1 while '
               'splits are allowed from %s n_points_min points: the LARGER cluster can be left '
               'with fewer than n_points_min points (no whole relabelling, no second size '
               'check)' % (k if k is not None else '?'))
    return n


def rule_INIT(ctx, rid='L0'):
    ctx.rule(rid, 'INIT-all: the constructor initialises every member of the group, each with '
             'one entry for the single initial ellipsoid')
    f = ctx.program.func('Union.compute')
    obj = _ctor_obj(f)
    asg = attrs_assigned(f, obj)
    cfg = cfg_of(f)
    rets = [x.id for x in cfg.nodes if x.kind == 'stmt' and isinstance(x.ast, ast.Return)]
    for m in G_UNION.members + ['log_v_all']:
        ok = m in asg and all(cfg.must_pass(cfg.entry.id, r, asg[m]) for r in rets)
        ctx.ob(rid, 'Union.compute:init(%s)' % m, ok, f.where(),
               'member %r is initialised on every path' % m if ok else
               'member %r is not initialised by compute()' % m)
    # the second constructor: a union that comes back from a checkpoint is a union like any
    # other -- split() and trim() read every member of the record
    if 'read' in ctx.program.cls('Union').methods:
        f = ctx.program.func('Union.read')
        obj = _ctor_obj(f)
        asg = attrs_assigned(f, obj)
        cfg = cfg_of(f)
        rets = [x.id for x in cfg.nodes if x.kind == 'stmt' and isinstance(x.ast, ast.Return)]
        for m in G_UNION.members + ['log_v_all']:
            ok = m in asg and all(cfg.must_pass(cfg.entry.id, r, asg[m]) for r in rets)
            ctx.ob(rid, 'Union.read:init(%s)' % m, ok, f.where(),
                   'member %r is rebuilt on every path of read()' % m if ok else
                   'read() returns a union without member %r: the next split() raises '
                   'AttributeError, and a trim() that drops an ellipsoid raises after it has '
                   'removed the bound, its points and its volume but before the proposal cache '
                   'is reset' % m)


def rule_REC(ctx, rid='G5'):
    """A recursive retry is the same request: an option that a method passes on to a recursive
    call of itself (split -> split after blocking an ellipsoid) still has the value the caller
    gave - the parameter is not rebound on the way."""
    ctx.rule(rid, 'options handed on in a recursive call are the caller\'s: no parameter that '
             'a method passes to a recursive call of itself is rebound before that call')
    n = 0
    for q, f in sorted(ctx.program.functions.items()):
        if not f.self_name:
            continue
        recs = [c for c in walk_no_nested(f.node) if isinstance(c, ast.Call) and
                dotted(c.func) == '%s.%s' % (f.self_name, f.name)]
        if not recs:
            continue
        cfg = cfg_of(f)
        passed = set()
        for c in recs:
            for a in list(c.args) + [k.value for k in c.keywords]:
                if isinstance(a, ast.Name) and a.id in f.params:
                    passed.add(a.id)
        for p in sorted(passed):
            rebinds = [st for st in walk_no_nested(f.node)
                       if isinstance(st, (ast.Assign, ast.AugAssign)) and cfg.has(st) and any(
                           isinstance(t, ast.Name) and t.id == p
                           for t in (st.targets if isinstance(st, ast.Assign) else [st.target]))
                       and any(cfg.has(c) and cfg.can_reach(cfg.node_of(st).id, cfg.node_of(c).id)
                               for c in recs)]
            n += 1
            ctx.ob(rid, '%s:recursive-call-keeps(%s)' % (q, p), not rebinds,
                   f.where(rebinds[0]) if rebinds else f.where(),
                   'the recursive call receives the caller\'s `%s`' % p if not rebinds else
                   '`%s` rebinds the option before it is handed to the recursive call: the retry '
                   'runs with a different setting than the caller asked for (e.g. overlapping '
                   'ellipsoids although allow_overlap=False)' % unparse(rebinds[0])[:60])
    ctx.require(n >= 1, 'G5: no recursive call with a forwarded option found (Union.split)')
    return n


def rule_RETRY(ctx, rid='S4'):
    """split(): (a) the retry after a refused candidate terminates - the recursive call is
    dominated by `self.block[index] = True`, which excludes the candidate that was just refused;
    (b) the overlap refusal is taken exactly when overlap is not allowed and the candidate
    overlaps."""
    ctx.rule(rid, 'split(): a refused candidate is blocked before the retry (termination); the '
             'overlap refusal is taken when overlap is not allowed and the children overlap')
    f = ctx.program.func('Union.split')
    cfg = cfg_of(f)
    sn = f.self_name
    recs = [c for c in walk_no_nested(f.node) if isinstance(c, ast.Call) and
            dotted(c.func) == '%s.split' % sn and cfg.has(c)]
    blocks = {cfg.node_of(st).id for st in walk_no_nested(f.node)
              if isinstance(st, ast.Assign) and cfg.has(st) and
              isinstance(st.targets[0], ast.Subscript) and
              dotted(st.targets[0].value) == '%s.block' % sn and
              isinstance(st.value, ast.Constant) and st.value.value is True}
    for c in recs:
        nid = cfg.node_of(c).id
        ok = any(cfg.dominates(b, nid) for b in blocks)
        ctx.ob(rid, 'Union.split:retry-excludes-refused-candidate', ok, f.where(c),
               'the ellipsoid whose split was refused is blocked before split() calls itself '
               'again' if ok else
               'split() calls itself again without blocking the ellipsoid whose split it has '
               'just refused: the same candidate is chosen again - unbounded recursion '
               '(RecursionError) instead of `return False`')
    # the overlap refusal
    tests = [t for t in cfg.nodes if t.kind == 'test' and t.expr is not None and
             'ellipsoids_overlap' in unparse(t.expr)]
    for t in tests:
        rets = [s_ for s_, lab in t.succ if lab is True and cfg.nodes[s_].kind == 'stmt' and
                isinstance(cfg.nodes[s_].ast, ast.Return)]
        if not rets:
            continue
        facts = {(tx, tr) for _, tx, tr in cfg.facts(rets[0])}
        ok = ('allow_overlap', False) in facts and any(
            'ellipsoids_overlap' in tx and tr is True for tx, tr in facts)
        ctx.ob(rid, 'Union.split:overlap-refusal-polarity', ok, f.where(t.ast),
               'the split is refused when overlap is not allowed and the children would overlap'
               if ok else
               'the refusal `%s` is not "overlap not allowed AND children overlap": with '
               'allow_overlap=False overlapping ellipsoids are accepted (or non-overlapping '
               'splits refused when overlap is allowed)' % unparse(t.expr)[:60])


def rule_TRIMREF(ctx, rid='S5'):
    """trim(): the candidate (lowest density) is compared with the typical density of the OTHER
    ellipsoids.  A reference statistic that includes the candidate is pulled towards it: with two
    ellipsoids only half the log-density gap reaches the threshold, so an ellipsoid the documented
    rule drops (density < median of the others / threshold) is kept (C13_m)."""
    ctx.rule(rid, 'trim-reference-excludes-candidate: in Union.trim the statistic the lowest '
             'density is compared with is taken over the records without the candidate')
    f = ctx.program.func('Union.trim')
    cand = None      # index variable bound to argmin / argmax of the density record
    for st in walk_no_nested(f.node):
        if isinstance(st, ast.Assign) and len(st.targets) == 1 and \
                isinstance(st.targets[0], ast.Name) and isinstance(st.value, ast.Call) and \
                (dotted(st.value.func) or '') in ('np.argmin', 'np.argmax', 'np.nanargmin') and \
                st.value.args:
            cand = (st.targets[0].id, unparse(st.value.args[0]))
    ctx.require(cand, 'S5 not decided: Union.trim does not pick its candidate by argmin')
    idx, rec = cand
    for st in walk_no_nested(f.node):
        if isinstance(st, ast.Assign) and len(st.targets) == 1 and \
                isinstance(st.targets[0], ast.Name) and st.targets[0].id == idx and \
                isinstance(st.value, ast.Call):
            low = (dotted(st.value.func) or '').endswith('argmin') != (
                isinstance(st.value.args[0], ast.UnaryOp) and
                isinstance(st.value.args[0].op, ast.USub))
            ctx.ob(rid, 'Union.trim:candidate-is-the-lowest-density', low, f.where(st),
                   'the candidate is the member with the lowest density' if low else
                   '`%s` selects the DENSEST member as the one to drop' % unparse(st)[:50])
    refs = []
    for t in walk_no_nested(f.node):
        if not isinstance(t, ast.If):
            continue
        for c in ast.walk(t.test):
            if isinstance(c, ast.Call) and (dotted(c.func) or '') in (
                    'np.median', 'np.mean', 'np.nanmedian', 'np.average', 'np.amax', 'np.max',
                    'np.percentile', 'np.quantile') and c.args:
                refs.append(c)
    ctx.require(refs, 'S5 not decided: no reference statistic in the test of Union.trim')
    for c in refs:
        a = c.args[0]
        a2 = a
        if isinstance(a, ast.Name) and a.id != rec:
            for st in walk_no_nested(f.node):
                if isinstance(st, ast.Assign) and len(st.targets) == 1 and \
                        isinstance(st.targets[0], ast.Name) and st.targets[0].id == a.id:
                    a2 = st.value
        excl = isinstance(a2, ast.Call) and dotted(a2.func) == 'np.delete' and \
            len(a2.args) >= 2 and unparse(a2.args[1]) == idx and unparse(a2.args[0]) == rec
        if not excl and isinstance(a2, ast.Subscript) and unparse(a2.value) == rec:
            # boolean / index selection that names the candidate: rec[np.arange(n) != index]
            excl = any(isinstance(x, ast.Compare) and len(x.ops) == 1 and
                       isinstance(x.ops[0], ast.NotEq) and
                       idx in (unparse(x.left), unparse(x.comparators[0]))
                       for x in ast.walk(a2.slice))
        whole = unparse(a2) == rec
        ctx.require(excl or whole, 'S5 not decided: reference `%s` in Union.trim' % unparse(c)[:50])
        ctx.ob(rid, 'Union.trim:reference-excludes-candidate', excl, f.where(c),
               'the reference `%s` leaves the candidate out' % unparse(c)[:50] if excl else
               '`%s` includes the candidate itself: the lowest density pulls the reference '
               'towards it (with two ellipsoids the gap is halved), so trim() refuses to drop an '
               'ellipsoid whose density is more than `threshold` below the others'
               % unparse(c)[:40])


def rule_S6(ctx, rid='S6'):
    """Three data-level facts of split() that S2-S4 do not cover: WHICH member is split (never a
    blocked one), WHEN the top-up runs (as soon as ONE cluster is too small) and WHICH cluster it
    fills (the smaller one)."""
    ctx.rule(rid, 'split-selection: the candidate maximises over unblocked members only; the '
             'top-up is triggered when any cluster is below the minimum and fills the smaller one')
    f = ctx.program.func('Union.split')

    def is_inf(e, sign):
        t = unparse(e).replace('numpy', 'np')
        return t in (('-np.inf', '-inf', "-float('inf')") if sign < 0 else
                     ('np.inf', 'inf', "float('inf')", '+np.inf'))
    n = 0
    for st in walk_no_nested(f.node):
        if not (isinstance(st, ast.Assign) and len(st.targets) == 1 and
                isinstance(st.targets[0], ast.Name) and isinstance(st.value, ast.Call)):
            continue
        d = dotted(st.value.func) or ''
        tgt = st.targets[0].id
        if d in ('np.argmax', 'np.argmin', 'np.nanargmax', 'np.nanargmin') and st.value.args \
                and any(isinstance(x, ast.Attribute) and x.attr in ('block', 'log_v_all')
                        for x in ast.walk(st.value.args[0])):
            a = st.value.args[0]
            ctx.require(isinstance(a, ast.Call) and dotted(a.func) == 'np.where' and
                        len(a.args) == 3, 'S6 not decided: split candidate `%s`'
                        % unparse(st)[:60])
            mask, rec, fill = a.args
            unblocked = isinstance(mask, ast.UnaryOp) and isinstance(mask.op, ast.Invert) and \
                isinstance(mask.operand, ast.Attribute) and mask.operand.attr == 'block'
            ctx.require(unblocked or (isinstance(mask, ast.Attribute) and mask.attr == 'block'),
                        'S6 not decided: mask `%s` of the split candidate' % unparse(mask)[:40])
            ok = unblocked and ((d.endswith('argmax') and is_inf(fill, -1)) or
                                (d.endswith('argmin') and is_inf(fill, +1)))
            n += 1
            ctx.ob(rid, 'Union.split:candidate-unblocked', ok, f.where(st),
                   'blocked members carry the neutral element of the reduction' if ok else
                   '`%s` can select a blocked member (the fill value wins the reduction, or the '
                   'mask is not `~self.block`): an ellipsoid with fewer than 2 * n_points_min '
                   'points, or one whose split was refused, is split again' % unparse(st)[:70])
        elif d in ('np.argmin', 'np.argmax') and st.value.args and \
                not any(k.arg == 'axis' for k in st.value.keywords):
            src = st.value.args[0]
            counts = isinstance(src, ast.Name) and any(
                isinstance(x, ast.Assign) and isinstance(x.targets[0], ast.Name) and
                x.targets[0].id == src.id and isinstance(x.value, ast.Call) and
                dotted(x.value.func) == 'np.bincount' for x in walk_no_nested(f.node)) or (
                isinstance(src, ast.Call) and dotted(src.func) == 'np.bincount')
            if not counts:
                continue
            ok = d == 'np.argmin'
            n += 1
            ctx.ob(rid, 'Union.split:top-up-fills-the-smaller-cluster', ok, f.where(st),
                   'the cluster with fewer members receives the n_points_min most likely points'
                   if ok else 'the top-up fills the LARGER cluster: the smaller one ends with '
                   'all remaining points or none, below the configured minimum')
    for st in walk_no_nested(f.node):
        if not isinstance(st, ast.If):
            continue
        t, neg = st.test, False
        while isinstance(t, ast.UnaryOp) and isinstance(t.op, ast.Not):
            neg, t = not neg, t.operand
        if not (isinstance(t, ast.Call) and (dotted(t.func) or '') in ('np.all', 'np.any') and
                t.args and isinstance(t.args[0], ast.Compare) and len(t.args[0].ops) == 1 and
                any(isinstance(x, ast.Attribute) and x.attr == 'n_points_min'
                    for x in ast.walk(t.args[0].comparators[0]))):
            continue
        q = dotted(t.func).split('.')[-1]
        ge = isinstance(t.args[0].ops[0], (ast.GtE, ast.Gt))
        # "some cluster is too small":  not all(size >= m)  |  any(size < m)
        ok = (q == 'all' and ge and neg) or (q == 'any' and not ge and not neg)
        n += 1
        ctx.ob(rid, 'Union.split:top-up-when-any-cluster-is-small', ok, f.where(st),
               'the top-up runs as soon as one cluster is below the minimum' if ok else
               '`%s` holds only when EVERY cluster is below the minimum: a split into one large '
               'and one too-small cluster goes through without the top-up' % unparse(st.test)[:50])
    ctx.require(n >= 3, 'S6 found only %d of its 3 anchors in Union.split' % n)


def run(ctx):
    rule_REC(ctx)
    rule_RETRY(ctx)
    prog = ctx.program
    ctx.rule('L1', 'group-complete: along every bounded path, all members of an aligned group '
             'undergo the same sequence of structural updates with the same selectors')
    ctx.rule('L1d', 'derived member: log_v_all is rebuilt from bounds after the last structural '
             'change of bounds on every path')
    total = 0
    for q in ('Union.split', 'Union.trim'):
        from ..loader import helper_view
        f = helper_view(prog, prog.func(q))
        tr = ExpandingTracker(f, G_UNION.members + ['log_v_all'], arrays={'block', 'log_v_all'})
        n, touched = check_group_paths(ctx, 'L1', f, G_UNION, tracker=tr,
                                       max_loop=1 if ctx.tier == 'quick' else 2)
        total += n
        ctx.require(n > 0, '%s no longer changes the per-ellipsoid records (L1 anchor)' % q)
        rule_derived(ctx, 'L1d', f, 'bounds', 'log_v_all', tr)
        rule_T9(ctx, f, tr)
        if q == 'Union.split':
            rule_L6(ctx, f, tr)
    rule_INIT(ctx)
    rule_S2(ctx)
    rule_S3(ctx)
    from ..shape import rule_N3
    rule_N3(ctx, classes={'Union'})      # the member to split is chosen in log space
    from ..effects import rule_F9
    rule_F9(ctx)      # the recorded construction points are never modified through a call
    rule_T1(ctx, 'Union.split', {'bounds', 'points_bounds', 'log_v_all'}, false_return=True)
    rule_T1(ctx, 'Union.trim', {'bounds', 'points_bounds', 'log_v_all'}, false_return=True)
    # shape-sensitive rules last: an unrecognised shape ends the run as "not decided" (exit 2)
    # only after every other rule has had its say (C13_f: candidate chosen in linear space is
    # N3's finding, not an analysis error of S6)
    rule_S6(ctx)
    rule_TRIMREF(ctx)
    from ..effects import rule_G7
    k7 = rule_G7(ctx, {'n_points_min'})      # the CONFIGURED minimum reaches every union
    ctx.require(k7 >= 3, 'G7 saw only %d hand-over sites for n_points_min (floor 3)' % k7)
    ctx.extra['paths_compared'] = total
    ctx.floor('L1', 6, 'member lockstep verdicts')
    ctx.floor('T1', 5, 'rejection exits')
    ctx.floor('L6', 4, 'record obligations')
    ctx.floor('T9', 2, 'structural change sites')
    ctx.floor('S3', 2, 'cluster-size obligations')
    ctx.floor('S5', 1, 'trim reference')
    ctx.not_decided += ['that the LARGER cluster keeps n_points_min members after the top-up '
                        '(depends on the mixture fit); the volumes themselves (numerics)',
                        '"no operation raises" in general']

"""C03 -- posterior rows are faithful (point, log-likelihood, blob) triples, once each."""
from ..sampler_rules import rule_L1_sampler, rule_L2_move, rule_L3_L4, rule_L5
from ..shape import rule_S1, rule_V1
from ..effects import rule_F5, rule_F7
from ..agree import rule_A5
from ..persist import rule_P4_sampler_subset, rule_P1_P2

LEVEL_TEXT = ('Static lockstep analysis of the parallel point / log-likelihood / blob arrays '
              'along every bounded path of add_bound, add_samples and posterior, ordered-map and '
              'batch-axis rules on the evaluation path, and callback isolation.')


def run(ctx):
    from ..effects import rule_G1
    rule_G1(ctx)      # no state shared between sampler instances (worker pools, caches)
    from ..persist import rule_P12k
    rule_P12k(ctx)      # ordered members are never rebuilt from the (alphabetical) group names
    from ..pathrules import rule_T2_publish
    rule_T2_publish(ctx)      # a half-finished checkpoint update is never published
    from ..effects import rule_F4
    rule_F4(ctx)      # proposal streams are a function of the persisted generator state only
    # effect rules first: they do not depend on the shape of the view construction, which the
    # lockstep rules below need (C03_m: a helper that returns a VIEW of the only shell)
    rule_F5(ctx)
    rule_F7(ctx)
    from ..effects import rule_F12
    rule_F12(ctx)      # the likelihood's own return array is never stored
    from ..effects import rule_F11
    rule_F11(ctx)      # the returned triples are copies, not views of the stored rows
    rule_L1_sampler(ctx, {'rows', 't', 'shell'})
    rule_L2_move(ctx)
    rule_L3_L4(ctx)
    from ..rowfacts import rule_M9
    rule_M9(ctx)      # a proposal is handed out once
    from ..sampler_rules import rule_L3b
    k3b = rule_L3b(ctx)
    ctx.require(k3b >= 1, 'L3b: test of the returned blobs not found in add_samples')
    rule_L5(ctx)
    rule_S1(ctx, ['Sampler.evaluate_likelihood', 'Sampler.add_samples', 'Sampler.sample_shell',
                  'Sampler.posterior'])
    rule_V1(ctx)
    rule_A5(ctx)        # each evaluated / transferred point is used at most once
    # ... also across a checkpoint resume: the rows, the transfer candidates and their
    # consumed marks reach the file after every batch and come back into the same attributes
    from ..initrules import rule_I1
    rule_I1(ctx, {'rows'})
    rule_P4_sampler_subset(ctx, ('points', 'log_l', 'blobs', 'shell_t', 'bound', 'pop_shell', 'add_bound', 'first-batch',
                            'update-shell', 'batch-checkpointed', 'optional-init'),
                           'the stored rows and the transfer set')
    prog = ctx.program
    rule_P1_P2(ctx, 'Sampler', prog.func('Sampler.write'), prog.func('Sampler.__init__'), 'self',
               reader_only_keys={'n_dim', 'n_live', 'n_update', 'n_like_new_bound',
                                 'enlarge_per_dim', 'n_points_min', 'split_threshold',
                                 'n_networks', 'n_batch', 'vectorized', 'pass_dict',
                                 'neural_network_{}'})
    # ... in shell order: rows of shell i are read back from the keys formatted with i
    from ..persist import rule_P9, rule_P12
    rule_P9(ctx, prog.func('Sampler.__init__'), 'self')
    rule_P12(ctx, prog.func('Sampler.__init__'), 'self')
    ctx.floor('L1', 8, 'member lockstep verdicts')
    ctx.floor('L2', 3, 'move obligations')
    ctx.floor('L3', 4, 'row extensions')
    ctx.floor('L4', 6, 'aligned-source obligations')
    ctx.floor('L5', 8, 'view obligations')
    ctx.floor('F7', 4, 'prior-transform call sites')
    ctx.assumptions += ['the user likelihood is a pure function of its argument']
    ctx.not_decided += ['dtype inference for exotic blob types',
                        'value equality log_l == likelihood(point) (decided: alignment and '
                        'order of the stored triples)']

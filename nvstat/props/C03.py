"""C03 -- posterior rows are faithful (point, log-likelihood, blob) triples, once each."""
from ..sampler_rules import rule_L1_sampler, rule_L2_move, rule_L3_L4, rule_L5
from ..shape import rule_S1

LEVEL_TEXT = ('Static lockstep analysis of the parallel point / log-likelihood / blob arrays '
              'along every bounded path of add_bound, add_samples and posterior, ordered-map and '
              'batch-axis rules on the evaluation path, and callback isolation.')


def run(ctx):
    rule_L1_sampler(ctx, {'rows', 't'})
    rule_L2_move(ctx)
    rule_L3_L4(ctx)
    rule_L5(ctx)
    rule_S1(ctx, ['Sampler.evaluate_likelihood', 'Sampler.add_samples', 'Sampler.sample_shell',
                  'Sampler.posterior'])

"""C15 -- Prior maps the unit cube to parameters as declared."""
import ast

from ..cfg import cfg_of
from ..exprs import unparse, walk_no_nested, root_attr, ekey, dotted
from ..pathrules import rule_T1, rule_T1b, rule_T7, _present_label
from ..agree import rule_A1, eval_pred

LEVEL_TEXT = ('Static path and sibling-agreement rules over nautilus/prior.py: a rejected '
              'declaration cannot have modified the prior (no protected write reaches a raise), '
              'every appended key was tested for uniqueness, keys and dists grow together, only '
              'ValueError/TypeError are raised, link targets are declared and resolved to a '
              'non-link, and the three classifiers agree on free/fixed/link entries.'
              ' Plus: declared values never tested for truthiness, inverse CDF of the own coordinate (linear form of the isf/ppf argument), uniform(loc=low, scale=high-low) for ranges, free-branch conditions decided by what a declaration must provide (isf).')

ALLOWED = {'ValueError', 'TypeError'}


def rule_R1(ctx):
    rid = 'R1'
    ctx.rule(rid, 'error discipline: every explicit raise in Prior names ValueError or TypeError')
    cls = ctx.program.cls('Prior')
    for f in cls.methods.values():
        for n in walk_no_nested(f.node):
            if isinstance(n, ast.Raise):
                if n.exc is None:
                    ctx.ob(rid, '%s:bare-reraise' % f.qualname, False, f.where(n),
                           'bare re-raise may propagate an arbitrary exception type')
                    continue
                name = dotted(n.exc.func) if isinstance(n.exc, ast.Call) else dotted(n.exc)
                ctx.ob(rid, '%s:raise-%s' % (f.qualname, name), name in ALLOWED, f.where(n),
                       'raises %s' % name)
    ctx.floor(rid, 4, 'explicit raise sites')


def rule_DECL(ctx):
    rid = 'D1'
    ctx.rule(rid, 'declaration reaches the table as given: add_parameter never tests a declared '
             'value (key, dist) for truthiness -- 0, 0.0, False and the empty string are legal '
             'declarations -- and rebinds it only under a type test (isinstance / hasattr) or an '
             '`is None` test of that very parameter')
    f = ctx.program.func('Prior.add_parameter')
    cfg = cfg_of(f)
    params = [p for p in f.params if p != f.self_name]
    par = {}
    for n in ast.walk(f.node):
        for c in ast.iter_child_nodes(n):
            par[id(c)] = n

    def truthiness_uses(name):
        out = []
        for n in walk_no_nested(f.node):
            if not (isinstance(n, ast.Name) and n.id == name and isinstance(n.ctx, ast.Load)):
                continue
            p = par.get(id(n))
            if isinstance(p, ast.BoolOp):
                out.append(p)
            elif isinstance(p, ast.UnaryOp) and isinstance(p.op, ast.Not):
                out.append(p)
            elif isinstance(p, (ast.If, ast.While, ast.IfExp)) and p.test is n:
                out.append(p)
            elif isinstance(p, ast.Call) and isinstance(p.func, ast.Name) and \
                    p.func.id == 'bool':
                out.append(p)
        return out
    for name in params:
        uses = truthiness_uses(name)
        ctx.ob(rid, 'Prior.add_parameter:no-truthiness-test(%s)' % name, not uses,
               f.where(uses[0]) if uses else f.where(),
               'the declared %r is never tested for truthiness' % name if not uses else
               '`%s` tests the declared %r for truthiness: a legal falsy declaration (a '
               'parameter fixed to 0 / 0.0 / False, an empty key) is treated as if it had not '
               'been given' % (unparse(uses[0])[:50], name))
        # rebinding only under a type / None test of the parameter
        for n in cfg.nodes:
            if n.kind != 'stmt' or not isinstance(n.ast, (ast.Assign, ast.AugAssign)):
                continue
            tg = n.ast.targets if isinstance(n.ast, ast.Assign) else [n.ast.target]
            if not any(isinstance(t, ast.Name) and t.id == name for t in tg):
                continue
            ok = False
            for atom, text, truth in cfg.facts(n.id):
                for sub in ast.walk(atom):
                    if isinstance(sub, ast.Call) and isinstance(sub.func, ast.Name) and \
                            sub.func.id in ('isinstance', 'hasattr') and sub.args and \
                            isinstance(sub.args[0], ast.Name) and sub.args[0].id == name:
                        ok = True
                    if isinstance(sub, ast.Compare) and isinstance(sub.left, ast.Name) and \
                            sub.left.id == name and len(sub.ops) == 1 and \
                            isinstance(sub.ops[0], (ast.Is, ast.IsNot)):
                        ok = True
            ctx.ob(rid, 'Prior.add_parameter:rebinding-under-type-test(%s)' % name, ok,
                   f.where(n.ast),
                   '`%s` happens under a type / None test of %r' % (unparse(n.ast)[:40], name)
                   if ok else
                   '`%s` replaces the declared %r without a type or `is None` test of it: what '
                   'is stored is no longer what was declared' % (unparse(n.ast)[:50], name))


def rule_ICDF(ctx):
    rid = 'D2'
    ctx.rule(rid, 'inverse CDF of the own coordinate: in unit_to_physical a free parameter is '
             'dist.ppf(u) or dist.isf(1 - u) (argument compared as a linear form in u), u being '
             'the unit coordinate at the very index the result is stored to')
    from ..gaps import linear, _Unknown
    from fractions import Fraction
    f = ctx.program.func('Prior.unit_to_physical')
    pts = [p for p in f.params if p != f.self_name][0]
    n = 0
    for st in walk_no_nested(f.node):
        if not (isinstance(st, ast.Assign) and len(st.targets) == 1 and
                isinstance(st.targets[0], ast.Subscript) and isinstance(st.value, ast.Call) and
                isinstance(st.value.func, ast.Attribute) and
                st.value.func.attr in ('isf', 'ppf', 'sf', 'cdf', 'pdf', 'logpdf') and
                st.value.args):
            continue
        meth = st.value.func.attr
        tgt_idx = unparse(st.targets[0].slice)
        reads = []

        def sym(e):
            if isinstance(e, ast.Subscript) and isinstance(e.value, ast.Name) and \
                    e.value.id == pts:
                reads.append(unparse(e.slice))
                return 'u'
            return None
        try:
            fm = linear(st.value.args[0], sym, {})
        except _Unknown as exc:
            ctx.note('D2 not decided: %s' % exc)
            continue
        want = {'isf': {'u': Fraction(-1), 1: Fraction(1)}, 'ppf': {'u': Fraction(1)}}.get(meth)
        ok = want is not None and all(fm.get(k, 0) == want.get(k, 0) for k in set(fm) | set(want))
        n += 1
        ctx.ob(rid, 'Prior.unit_to_physical:inverse-cdf', ok, f.where(st),
               'free parameter = %s(%s): the inverse CDF of the unit coordinate' % (
                   meth, unparse(st.value.args[0])) if ok else
               'free parameter = %s(%s): not the inverse CDF of the unit coordinate (expected '
               'ppf(u) or isf(1 - u)) -- the mapping is reversed, shifted or not a quantile '
               'function' % (meth, unparse(st.value.args[0])))
        own = bool(reads) and all(r == tgt_idx for r in reads)
        n += 1
        ctx.ob(rid, 'Prior.unit_to_physical:own-coordinate', own, f.where(st),
               'the coordinate read (%s) is the one stored to' % tgt_idx if own else
               'the result is stored at [%s] but computed from coordinate(s) %s: a parameter is '
               'driven by another parameter\'s unit coordinate' % (tgt_idx, sorted(set(reads))))
    ctx.require(n >= 2, 'Prior.unit_to_physical: transformation of a free parameter not found')
    # the coordinate counter starts at the first coordinate
    for q in ('Prior.unit_to_physical', 'Prior.physical_to_dictionary'):
        g = ctx.program.func(q)
        from ..exprs import as_aug
        counters = {as_aug(x)[0].id for x in walk_no_nested(g.node)
                    if isinstance(x, (ast.Assign, ast.AugAssign)) and as_aug(x) is not None and
                    isinstance(as_aug(x)[0], ast.Name) and isinstance(as_aug(x)[1], ast.Add)}
        for c in sorted(counters):
            inits = [x for x in walk_no_nested(g.node) if isinstance(x, ast.Assign) and
                     len(x.targets) == 1 and isinstance(x.targets[0], ast.Name) and
                     x.targets[0].id == c and as_aug(x) is None]
            ok = bool(inits) and all(isinstance(x.value, ast.Constant) and x.value.value == 0
                                     and not isinstance(x.value.value, bool) for x in inits)
            ctx.ob(rid, '%s:counter-starts-at-zero' % q, ok, g.where(inits[0] if inits else None),
                   'the coordinate counter starts at 0' if ok else
                   'the coordinate counter does not start at 0: the first free parameter does '
                   'not use the first unit coordinate')


def _tuple_aliases(f):
    """{name: (tuple variable, index)} for `lower, upper = dist` unpackings in `f`."""
    out = {}
    for st in walk_no_nested(f.node):
        if isinstance(st, ast.Assign) and len(st.targets) == 1 and \
                isinstance(st.targets[0], (ast.Tuple, ast.List)) and \
                isinstance(st.value, ast.Name) and \
                all(isinstance(t, ast.Name) for t in st.targets[0].elts):
            for k, t in enumerate(st.targets[0].elts):
                out[t.id] = (st.value.id, k)
    return out


def rule_RANGE(ctx):
    rid = 'D3'
    ctx.rule(rid, 'declared range: a tuple (low, high) becomes the uniform distribution on '
             '[low, high] -- scipy parametrisation loc = low, scale = high - low (linear forms); '
             'a fixed number enters the dictionary multiplied into an array of ones only')
    from ..gaps import linear, _Unknown
    from fractions import Fraction
    f = ctx.program.func('Prior.add_parameter')
    alias = _tuple_aliases(f)
    n = 0
    for st in walk_no_nested(f.node):
        if not (isinstance(st, ast.Assign) and isinstance(st.value, ast.Call) and
                (dotted(st.value.func) or '').split('.')[-1] == 'uniform'):
            continue
        c = st.value
        kw = {k.arg: k.value for k in c.keywords}
        loc = kw.get('loc', c.args[0] if len(c.args) > 0 else None)
        scale = kw.get('scale', c.args[1] if len(c.args) > 1 else None)
        src = None

        def sym(e):
            if isinstance(e, ast.Subscript) and isinstance(e.value, ast.Name) and \
                    isinstance(e.slice, ast.Constant) and e.slice.value in (0, 1):
                return 'lo' if e.slice.value == 0 else 'hi'
            if isinstance(e, ast.Name) and e.id in alias and alias[e.id][1] in (0, 1):
                return 'lo' if alias[e.id][1] == 0 else 'hi'
            return None
        try:
            fl = linear(loc, sym, {}) if loc is not None else {}
            fs = linear(scale, sym, {}) if scale is not None else {1: Fraction(1)}
        except _Unknown as exc:
            ctx.note('D3 not decided: %s' % exc)
            continue
        okl = {k: v for k, v in fl.items() if v} == {'lo': Fraction(1)}
        oks = {k: v for k, v in fs.items() if v} == {'hi': Fraction(1), 'lo': Fraction(-1)}
        n += 1
        ctx.ob(rid, 'Prior.add_parameter:uniform-on-declared-range', okl and oks, f.where(st),
               'tuple (low, high) -> uniform(loc=low, scale=high - low)' if okl and oks else
               '`%s` is not the uniform distribution on the declared range [low, high] (scipy: '
               'loc = low, scale = high - low)' % unparse(c)[:70])
    ctx.require(n >= 1, 'Prior.add_parameter: conversion of a (low, high) tuple not found')
    # fixed parameters: constant times ones
    g = ctx.program.func('Prior.physical_to_dictionary')
    for st in walk_no_nested(g.node):
        if isinstance(st, ast.Assign) and isinstance(st.targets[0], ast.Subscript) and \
                isinstance(st.value, ast.BinOp) and any(
                    isinstance(x, ast.Call) and dotted(x.func) in ('np.ones', 'np.full',
                                                                   'np.ones_like')
                    for x in ast.walk(st.value)):
            v = st.value
            ok = isinstance(v.op, ast.Mult) and any(
                isinstance(side, ast.Name) for side in (v.left, v.right)) and any(
                isinstance(side, ast.Call) and dotted(side.func) in ('np.ones', 'np.ones_like')
                for side in (v.left, v.right))
            n += 1
            ctx.ob(rid, 'Prior.physical_to_dictionary:fixed-is-constant', ok, g.where(st),
                   'a fixed parameter is its declared value for every point' if ok else
                   '`%s` does not give a fixed parameter its declared value' % unparse(st)[:60])
    return n


def rule_TUPLE(ctx):
    rid = 'D4'
    ctx.rule(rid, 'range validation: before a tuple declaration is turned into a distribution, '
             'add_parameter rejects (ValueError / TypeError) a tuple that does not have exactly '
             'two entries and one whose bounds are not ordered; the array unit_to_physical '
             'fills is floating point whatever the dtype of the unit-cube input')
    f = ctx.program.func('Prior.add_parameter')
    cfg = cfg_of(f)
    convs = [nn for nn in cfg.nodes if nn.kind == 'stmt' and isinstance(nn.ast, ast.Assign) and
             isinstance(nn.ast.value, ast.Call) and
             (dotted(nn.ast.value.func) or '').split('.')[-1] == 'uniform']
    ctx.require(convs, 'Prior.add_parameter: conversion of a tuple declaration not found')
    conv = convs[0]
    dname = conv.ast.targets[0].id if isinstance(conv.ast.targets[0], ast.Name) else 'dist'
    # what is known when the conversion runs: the facts of its guards (polarity-normalised)
    len_ok = order_ok = nan_gap = False
    alias_t = _tuple_aliases(f)
    for atom, text, truth in cfg.facts(conv.id):
        if not (isinstance(atom, ast.Compare) and len(atom.ops) == 1):
            continue
        l_, r_, op = atom.left, atom.comparators[0], type(atom.ops[0])

        def is_len(e):
            return isinstance(e, ast.Call) and dotted(e.func) == 'len' and e.args and \
                isinstance(e.args[0], ast.Name) and e.args[0].id == dname

        def is_two(e):
            return isinstance(e, ast.Constant) and e.value == 2 and not isinstance(e.value, bool)
        if (is_len(l_) and is_two(r_)) or (is_len(r_) and is_two(l_)):
            if (op is ast.Eq and truth is True) or (op is ast.NotEq and truth is False):
                len_ok = True

        def idx(e):
            if isinstance(e, ast.Subscript) and isinstance(e.value, ast.Name) and \
                    e.value.id == dname and isinstance(e.slice, ast.Constant):
                return e.slice.value
            if isinstance(e, ast.Name) and e.id in alias_t and alias_t[e.id][0] == dname:
                return alias_t[e.id][1]
            return None
        a_, b_ = idx(l_), idx(r_)
        if {a_, b_} == {0, 1}:
            # normalise to a statement about dist[0] ? dist[1]
            if a_ == 1:
                op = {ast.Lt: ast.Gt, ast.Gt: ast.Lt, ast.LtE: ast.GtE, ast.GtE: ast.LtE}.get(op, op)
            # known TRUE: dist[0] < dist[1].  `not (dist[0] >= dist[1])` is not enough: it also
            # holds when a bound is NaN, and (nan, 1) then becomes a parameter that is NaN for
            # every input
            if op is ast.Lt and truth is True:
                order_ok = True
            elif op is ast.GtE and truth is False:
                nan_gap = True
    ctx.ob(rid, 'Prior.add_parameter:tuple-length-checked', len_ok, f.where(conv.ast),
           'a tuple with other than two entries is rejected before the conversion' if len_ok else
           'a tuple declaration is converted with `%s` without its length being checked: '
           '(1,) escapes as IndexError, (0, 1, 5) is accepted with the third entry dropped'
           % unparse(conv.ast)[:50])
    ctx.ob(rid, 'Prior.add_parameter:tuple-order-checked', order_ok, f.where(conv.ast),
           'a range whose upper bound does not exceed the lower one is rejected' if order_ok else
           ('the range is rejected when `low >= high`, which is false for a NaN bound too: '
            '(nan, 1.0) is accepted and the parameter is NaN for every input; test '
            '`not low < high`') if nan_gap else
           'the bounds of a range are not compared: (1, 0) and (2, 2) are accepted and every '
           'value of that parameter is NaN')
    # output buffer of unit_to_physical: every definition of the returned array
    g = ctx.program.func('Prior.unit_to_physical')
    pts = [p for p in g.params if p != g.self_name][0]
    rets = {r.value.id for r in walk_no_nested(g.node) if isinstance(r, ast.Return) and
            isinstance(r.value, ast.Name)}
    ctx.require(rets, 'Prior.unit_to_physical: returned array not found')
    FLOATS = ('float', 'np.float64', 'np.double', 'np.float_', "'float64'", "'f8'", "'d'")

    def float_dtype(e):
        t = unparse(e)
        if t in FLOATS:
            return True
        return isinstance(e, ast.Call) and dotted(e.func) in ('np.result_type', 'np.promote_types') \
            and any(unparse(x) in FLOATS for x in e.args)

    def classify(v):
        """'float' / 'inherit' / None (unknown) for the right-hand side defining the buffer."""
        if not isinstance(v, ast.Call):
            return None
        fn = dotted(v.func) or ''
        dt = [k.value for k in v.keywords if k.arg == 'dtype']
        if fn in ('np.zeros_like', 'np.empty_like', 'np.ones_like', 'np.full_like', 'np.copy',
                  'np.array', 'np.asarray') and v.args and \
                isinstance(v.args[0], ast.Name) and v.args[0].id == pts:
            if fn in ('np.array', 'np.asarray') and len(v.args) > 1:
                dt = dt + [v.args[1]]
            if not dt:
                return 'inherit'
            return 'float' if all(float_dtype(d) for d in dt) else None
        if fn in ('np.zeros', 'np.empty', 'np.ones', 'np.full'):
            if not dt:
                return 'float' if fn != 'np.full' else None
            if all(float_dtype(d) for d in dt):
                return 'float'
            if all(unparse(d) == '%s.dtype' % pts for d in dt):
                return 'inherit'
            return None
        if fn == '%s.astype' % pts and v.args:
            return 'float' if float_dtype(v.args[0]) else None
        if fn == '%s.copy' % pts:
            return 'inherit'
        return None
    bufs = [st for st in walk_no_nested(g.node) if isinstance(st, ast.Assign) and
            any(isinstance(t, ast.Name) and t.id in rets for t in st.targets)]
    ctx.require(bufs, 'Prior.unit_to_physical: definition of the returned array not found')
    for st in bufs:
        kind = classify(st.value)
        ctx.require(kind is not None, 'D4 not decided: dtype of `%s` in Prior.unit_to_physical'
                    % unparse(st)[:60])
        typed = kind == 'float'
        ctx.ob(rid, 'Prior.unit_to_physical:floating-point-output', typed, g.where(st),
               'the output array is float64 whatever the dtype of the input' if typed else
               '`%s` inherits the dtype of the input: for an integer array of unit-cube corners '
               '(0 / 1) every quantile is truncated to an integer' % unparse(st)[:50])


def rule_FIXED(ctx):
    rid = 'D5'
    ctx.rule(rid, 'fixed values need no free coordinate: the array a fixed parameter is broadcast '
             'to takes its shape from the batch axes of the input (shape[:-1]), never from one '
             'particular coordinate column - a declaration with no free parameter has none')
    n = 0
    for q in ('Prior.physical_to_dictionary', 'Prior.unit_to_physical',
              'Prior.unit_to_dictionary'):
        if not ctx.program.has_func(q):
            continue
        f = ctx.program.func(q)
        cfg = cfg_of(f)
        pts = [p for p in f.params if p != f.self_name]
        if not pts:
            continue
        for st in walk_no_nested(f.node):
            if not (isinstance(st, ast.Assign) and cfg.has(st)):
                continue
            nid = cfg.node_of(st).id
            # the fixed-number branch: under isinstance(dist, numbers.Number) true, or after the
            # distribution test failed
            facts = [(t, tr) for _, t, tr in cfg.facts(nid)]
            fixed = any('numbers.Number' in t and tr is True for t, tr in facts)
            if not fixed:
                continue
            cols = [x for x in ast.walk(st.value) if isinstance(x, ast.Subscript) and
                    isinstance(x.value, ast.Name) and x.value.id in pts and
                    any(isinstance(e, ast.Constant) and isinstance(e.value, int)
                        for e in (x.slice.elts if isinstance(x.slice, ast.Tuple) else [x.slice]))]
            n += 1
            ctx.ob(rid, '%s:fixed-value-shape' % q, not cols, f.where(st),
                   'a fixed value is broadcast to the batch shape of the input' if not cols else
                   '`%s` sizes a fixed parameter from coordinate column `%s`: a prior that '
                   'declares only fixed numbers (and links to them) has dimensionality 0, its '
                   'inputs have shape (0,) / (n, 0), and the dictionary transforms raise '
                   'IndexError instead of returning the constants'
                   % (unparse(st)[:60], unparse(cols[0])))
            # ... and keeps its own value: the constant is not cast to the dtype of the input
            # (integer physical points would truncate a fixed 0.5 to 0 - the sibling of D4)
            cast = None
            for x in ast.walk(st.value):
                if not isinstance(x, ast.Call):
                    continue
                d = dotted(x.func) or ''
                for k in x.keywords:
                    if k.arg == 'dtype' and any(isinstance(y, ast.Name) and y.id in pts
                                                for y in ast.walk(k.value)):
                        cast = x
                if d in ('np.full_like', 'numpy.full_like') and x.args and any(
                        isinstance(y, ast.Name) and y.id in pts for y in ast.walk(x.args[0])):
                    cast = x
                if isinstance(x.func, ast.Attribute) and x.func.attr == 'astype' and any(
                        isinstance(y, ast.Name) and y.id in pts
                        for a in x.args for y in ast.walk(a)):
                    cast = x
            ctx.ob(rid, '%s:fixed-value-kept' % q, cast is None, f.where(st),
                   'the fixed value keeps its own type' if cast is None else
                   '`%s` casts the fixed value to the dtype of the input points: with integer '
                   'physical points a fixed 0.5 becomes 0 (and every link to it)'
                   % unparse(cast)[:60])
    ctx.require(n >= 1, 'D5: fixed-number branch of the dictionary transform not found')


def rule_GATE(ctx):
    rid = 'D7'
    ctx.rule(rid, 'type gate: add_parameter admits a fixed value by an isinstance test against a '
             'number class; predicates that also hold for str / bytes (np.isscalar, np.ndim == 0) '
             'let a wrong-typed declaration into the table')
    f = ctx.program.func('Prior.add_parameter')
    tests = [t.test for t in walk_no_nested(f.node) if isinstance(t, (ast.If, ast.IfExp))]
    loose = [c for t in tests for c in ast.walk(t) if isinstance(c, ast.Call) and
             (dotted(c.func) or '') in ('np.isscalar', 'numpy.isscalar', 'np.ndim', 'np.isreal',
                                        'np.isrealobj', 'np.size')]
    strict = [c for t in tests for c in ast.walk(t) if isinstance(c, ast.Call) and
              dotted(c.func) == 'isinstance' and len(c.args) == 2 and
              any(isinstance(y, ast.Attribute) and isinstance(y.value, ast.Name) and
                  y.value.id == 'numbers' or isinstance(y, ast.Name) and
                  y.id in ('int', 'float', 'Number', 'Real')
                  for y in ast.walk(c.args[1]))]
    ctx.require(loose or strict, 'D7 not decided: no recognisable admission test for fixed '
                'values in Prior.add_parameter')
    ok = bool(strict) and not loose
    ctx.ob(rid, 'Prior.add_parameter:fixed-value-gate', ok, f.where((loose or strict)[0]),
           'fixed values are admitted by `%s`' % unparse(strict[0])[:50] if ok else
           '`%s` is true for bytes and str as well: a declaration of the wrong type is stored '
           'instead of being rejected with TypeError, and fails later inside a transform'
           % unparse((loose or strict)[0])[:50])


def rule_COMPOSE(ctx):
    rid = 'D6'
    ctx.rule(rid, 'unit_to_dictionary is the composition physical_to_dictionary(unit_to_physical(u)) '
             'of the very array it was given: the argument reaches unit_to_physical unchanged (no '
             'clipping, rounding or rebinding in between), so the dictionary holds the inverse CDF '
             'at the unit coordinate itself, faces and corners included')
    f = ctx.program.func('Prior.unit_to_dictionary')
    pts = [p for p in f.params if p != f.self_name]
    ctx.require(pts, 'Prior.unit_to_dictionary has no point parameter')
    pt = pts[0]
    inner = [c for c in walk_no_nested(f.node) if isinstance(c, ast.Call) and
             dotted(c.func) == '%s.unit_to_physical' % f.self_name]
    ctx.require(inner, 'Prior.unit_to_dictionary no longer calls unit_to_physical')
    rebind = [st for st in walk_no_nested(f.node) if isinstance(st, (ast.Assign, ast.AugAssign))
              and any(isinstance(t, ast.Name) and t.id == pt or
                      isinstance(t, ast.Subscript) and isinstance(t.value, ast.Name) and
                      t.value.id == pt
                      for t in (st.targets if isinstance(st, ast.Assign) else [st.target]))]
    keep = ('np.asarray', 'np.array', 'np.atleast_1d', 'np.atleast_2d', 'np.copy',
            'np.ascontiguousarray', 'np.asanyarray')
    rebind = [st for st in rebind if not (
        isinstance(st, ast.Assign) and isinstance(st.value, ast.Call) and
        dotted(st.value.func) in keep and st.value.args and
        isinstance(st.value.args[0], ast.Name) and st.value.args[0].id == pt)]
    direct = all(c.args and isinstance(c.args[0], ast.Name) and c.args[0].id == pt for c in inner)
    ok = direct and not rebind
    bad = rebind[0] if rebind else inner[0]
    ctx.ob(rid, 'Prior.unit_to_dictionary:argument-unchanged', ok, f.where(bad),
           'the unit-cube points reach unit_to_physical as given' if ok else
           '`%s`: the points are changed before the inverse CDF is applied - a coordinate on a '
           'face of the cube (0, 1, or within an ulp of them) no longer maps to the quantile of '
           'that coordinate, and unit_to_dictionary(u) differs from '
           'physical_to_dictionary(unit_to_physical(u))' % unparse(bad)[:60])


def rule_PAIR(ctx):
    rid = 'L1p'
    ctx.rule(rid, 'keys/dists lockstep: every normal-exit path of add_parameter appends exactly '
             'one element to keys and exactly one to dists')
    f = ctx.program.func('Prior.add_parameter')
    cfg = cfg_of(f)
    for attr in ('keys', 'dists'):
        nodes = set()
        for n in walk_no_nested(f.node):
            if isinstance(n, ast.Call) and isinstance(n.func, ast.Attribute) and \
                    n.func.attr == 'append':
                ra = root_attr(n.func.value, f.self_name)
                if ra and ra[0] == attr and not ra[1]:
                    nodes.add(cfg.node_of(n).id)
        ctx.require(nodes, 'Prior.add_parameter no longer appends to %s' % attr)
        ok1 = cfg.must_pass(cfg.entry.id, cfg.exit.id, nodes)
        twice = [a for a in nodes for b in nodes if cfg.can_reach(a, b)]
        ctx.ob(rid, 'Prior.add_parameter:one-append(%s)' % attr, ok1 and not twice, f.where(),
               'every successful path appends exactly once to self.%s' % attr
               if ok1 and not twice else
               ('a successful path appends no element to self.%s' % attr if not ok1 else
                'a path appends twice to self.%s' % attr))


def rule_LINK(ctx):
    rid = 'K1'
    ctx.rule(rid, 'link discipline: a string (link) distribution is stored only after a '
             'membership test of it against the key list whose failing branch rejects, and '
             'after the link chain has been resolved to a non-link entry')
    f = ctx.program.func('Prior.add_parameter')
    cfg = cfg_of(f)
    selfn = f.self_name
    appends = []
    for n in walk_no_nested(f.node):
        if isinstance(n, ast.Call) and isinstance(n.func, ast.Attribute) and \
                n.func.attr == 'append' and n.args:
            ra = root_attr(n.func.value, selfn)
            if ra and ra[0] == 'dists' and isinstance(n.args[0], ast.Name):
                appends.append(n)
    ctx.require(appends, 'Prior.add_parameter: no append of a distribution variable found')
    # the tests `isinstance(dist, str)` that select the link category
    for ap in appends:
        var = ap.args[0].id
        nid = cfg.node_of(ap).id
        # could this append execute with a str value?  find link-category tests on var
        link_tests = []
        for t in cfg.nodes:
            if t.kind != 'test':
                continue
            v = eval_pred(t.expr, var, 'link')
            if v is not None and eval_pred(t.expr, var, 'free') is (not v) and \
                    eval_pred(t.expr, var, 'fixed') is (not v):
                link_tests.append((t, v))
        ctx.require(link_tests, 'Prior.add_parameter: no test selecting link entries found')
        lt, lpol = link_tests[0]
        true_succ = [s for s, lab in lt.succ if lab is lpol]
        region = set()
        for s in true_succ:
            region |= cfg.reach(s, include_src=True)
        if nid not in region:
            continue      # this append cannot follow the link branch
        # (1) membership: `var in self.keys` with absent-branch rejecting
        ok_m = False
        for t in cfg.nodes:
            if t.kind != 'test' or t.id not in region:
                continue
            for sub in ast.walk(t.expr):
                if isinstance(sub, ast.Compare) and len(sub.ops) == 1 and \
                        isinstance(sub.ops[0], (ast.In, ast.NotIn)) and \
                        isinstance(sub.left, ast.Name) and sub.left.id == var:
                    ra = root_attr(sub.comparators[0], selfn)
                    if not (ra and ra[0] == 'keys'):
                        continue
                    # label on which "absent" is possible
                    present = _present_label(t.expr, sub)
                    if present is None:
                        # `x not in L or ...`: absent => true
                        e = t.expr
                        if isinstance(e, ast.BoolOp) and isinstance(e.op, ast.Or) and \
                                sub in e.values and isinstance(sub.ops[0], ast.NotIn):
                            absent = True
                        elif isinstance(e, ast.BoolOp) and isinstance(e.op, ast.And) and \
                                sub in e.values and isinstance(sub.ops[0], ast.In):
                            absent = False
                        else:
                            continue
                    else:
                        absent = not present
                    ab = set()
                    for s, lab in t.succ:
                        if lab == absent:
                            ab |= cfg.reach(s, include_src=True)
                    if nid not in ab and all(s_ == t.id or cfg.must_pass(s_, nid, {t.id})
                                             for s_ in true_succ):
                        ok_m = True
        ctx.ob(rid, 'Prior.add_parameter:link-target-declared', ok_m, f.where(ap),
               'a link is stored only if its target key is already declared' if ok_m else
               'a link to an undeclared key can be stored (no rejecting membership test of the '
               'target against self.keys on the link path)')
        # (2) chain resolution: a while loop re-binding var from self.dists while it is a str
        ok_c = False
        for t in cfg.nodes:
            if t.kind == 'test' and isinstance(t.ast, ast.While) and t.id in region:
                txt = unparse(t.expr)
                rebinding = [s for s in t.ast.body if isinstance(s, ast.Assign) and
                             isinstance(s.targets[0], ast.Name) and s.targets[0].id == var]
                if 'isinstance' in txt and 'str' in txt and rebinding and \
                        all('dists' in unparse(s.value) for s in rebinding) and \
                        all(s_ == t.id or cfg.must_pass(s_, nid, {t.id}) for s_ in true_succ):
                    # the loop condition inspects the entry the variable currently names
                    if unparse(rebinding[0].value) in txt:
                        ok_c = True
        ctx.ob(rid, 'Prior.add_parameter:link-chain-resolved', ok_c, f.where(ap),
               'the stored link target is the end of the link chain (never itself a link)'
               if ok_c else 'a link may be stored that points to another link (chain not '
               'resolved before the append)')
    ctx.floor(rid, 2, 'link obligations')


def rule_COMP(ctx):
    rid = 'A1c'
    ctx.rule(rid, 'unit_to_dictionary is the composition physical_to_dictionary(unit_to_physical'
             '(points)) of the two agreeing transforms')
    f = ctx.program.func('Prior.unit_to_dictionary')
    rets = [n for n in walk_no_nested(f.node) if isinstance(n, ast.Return)]
    ok = False
    if len(rets) == 1 and isinstance(rets[0].value, ast.Call):
        o = rets[0].value
        if dotted(o.func) == 'self.physical_to_dictionary' and len(o.args) == 1 and \
                isinstance(o.args[0], ast.Call) and \
                dotted(o.args[0].func) == 'self.unit_to_physical' and \
                len(o.args[0].args) == 1 and isinstance(o.args[0].args[0], ast.Name) and \
                o.args[0].args[0].id == [p for p in f.params if p != f.self_name][0]:
            ok = True
    ctx.ob(rid, 'Prior.unit_to_dictionary:composition', ok, f.where(),
           'unit_to_dictionary(points) = physical_to_dictionary(unit_to_physical(points))' if ok
           else 'unit_to_dictionary is not the plain composition of the two transforms')


def rule_PURE(ctx):
    rid = 'F1p'
    ctx.rule(rid, 'the queries of a Prior (dimensionality and the three transforms) write no '
             'attribute of the prior, except a cache that add_parameter re-initialises on every '
             'successful path')
    from ..resolve import resolver
    from ..persist import attrs_assigned
    prog = ctx.program
    res = resolver(prog)
    ap = prog.func('Prior.add_parameter')
    acfg = cfg_of(ap)
    inval = attrs_assigned(ap, ap.self_name)
    for q in ('dimensionality', 'unit_to_physical', 'physical_to_dictionary',
              'unit_to_dictionary'):
        f = prog.func('Prior.' + q)
        w = sorted({a for c, a, k in res.trans(f).writes if c == 'Prior'})
        bad = [a for a in w if not (a in inval and acfg.must_pass(
            acfg.entry.id, acfg.exit.id, inval[a]))]
        ctx.ob(rid, 'Prior.%s:no-state-write' % q, not bad, f.where(),
               'writes no prior state' if not w else (
                   'writes only caches that add_parameter invalidates: %s' % w if not bad else
                   'writes %s, which add_parameter does not reset: the answer can be stale after '
                   'a later declaration' % bad))


def run(ctx):
    rule_COMP(ctx)
    rule_PURE(ctx)
    rule_T1(ctx, 'Prior.add_parameter', {'keys', 'dists'})
    rule_T1b(ctx, 'Prior.add_parameter', {'keys', 'dists'})
    rule_T7(ctx, 'Prior.add_parameter', 'keys')
    rule_R1(ctx)
    rule_PAIR(ctx)
    rule_LINK(ctx)
    rule_DECL(ctx)
    rule_ICDF(ctx)
    rule_RANGE(ctx)
    rule_TUPLE(ctx)
    rule_GATE(ctx)
    rule_FIXED(ctx)
    rule_COMPOSE(ctx)
    rule_A1(ctx)
    ctx.floor('T1', 3, 'rejection exits')
    ctx.floor('T7', 1, 'appends to the key list')
    ctx.floor('A1', 8, 'classifier obligations')
    ctx.assumptions += ['scipy frozen distributions implement isf as the inverse survival '
                        'function (monotone inverse CDF)']
    ctx.not_decided += ['monotonicity / shape of the inverse CDF (scipy numerics)',
                        'value equality of linked parameters beyond the copy-from-target shape']

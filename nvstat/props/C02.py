"""C02 -- log_z, n_eff, eta and weights are exactly the estimators of the stored samples."""
from ..sampler_rules import (rule_L1_sampler, rule_L5, rule_L1d_transition, rule_U1,
                             rule_A8)
from ..pathrules import rule_T3, rule_T8i
from ..agree import rule_A2_A6, rule_Q3
from ..lockstep import rule_derived
from ..persist import rule_P4_sampler_subset
from ..sampler_rules import SamplerTracker, G_SHELL

LEVEL_TEXT = ('Static lockstep, dirty=>recompute, proposal-accounting and sibling-agreement '
              'rules over the per-shell bookkeeping of Sampler: every path that changes a '
              'shell\'s samples, proposal count, bound state or the discard/phase flags '
              'recomputes that shell\'s statistics; records of all shells are created and removed '
              'together; proposals are counted before filtering.'
              ' Plus exact linear-form algebra in the log domain for the estimator formulas (shell volume, evidence term, Kish sizes, per-sample weights, normalisation, f_live), marker agreement for empty shells and complete recomputation in update_shell_info.')


def rule_NANMAX(ctx, rid='A9'):
    """Empty shells carry NaN as their mean likelihood (the marker update_shell_info writes).  A
    global estimator that shifts the per-shell log weights by their maximum must take that
    maximum over the occupied shells only (np.nanmax, or after the selection): a plain
    max over all shells is NaN as soon as one shell is empty in the current view."""
    import ast
    from ..cfg import cfg_of
    from ..exprs import dotted, unparse, walk_no_nested
    ctx.rule(rid, 'NaN marker of empty shells: reductions over the per-shell log weights skip the '
             'marker (nan-aware maximum, or selection before the maximum)')
    S = ctx.program.cls('Sampler')
    n = 0
    for name in ('n_eff', 'log_z', 'eta', 'f_live'):
        f = S.methods.get(name)
        if f is None:
            continue
        cfg = cfg_of(f)
        # names bound to expressions that mention shell_log_l (the NaN carrier)
        carriers = set()
        for st in walk_no_nested(f.node):
            if isinstance(st, ast.Assign) and isinstance(st.targets[0], ast.Name) and any(
                    isinstance(x, ast.Attribute) and x.attr == 'shell_log_l'
                    for x in ast.walk(st.value)) and not any(
                    isinstance(x, ast.Subscript) for x in ast.walk(st.value)):
                carriers.add(st.targets[0].id)
        for c in walk_no_nested(f.node):
            if not (isinstance(c, ast.Call) and dotted(c.func) in (
                    'np.amax', 'np.max', 'max', 'np.amin', 'np.min') and c.args):
                continue
            a = c.args[0]
            mentions = any(isinstance(x, ast.Attribute) and x.attr == 'shell_log_l'
                           for x in ast.walk(a)) or \
                (isinstance(a, ast.Name) and a.id in carriers)
            selected = any(isinstance(x, ast.Subscript) for x in ast.walk(a))
            if not mentions or selected:
                continue
            n += 1
            ctx.ob(rid, 'Sampler.%s:max-skips-empty-shells' % name, False, f.where(c),
                   '`%s` takes the maximum over ALL shells: a shell that is empty in the current '
                   'view has the NaN marker as its mean likelihood, the maximum is NaN and so is '
                   'the estimator (use np.nanmax or select the occupied shells first)'
                   % unparse(c)[:50])
        nan_ok = [c for c in walk_no_nested(f.node) if isinstance(c, ast.Call) and
                  dotted(c.func) in ('np.nanmax', 'np.nanmin') and c.args]
        for c in nan_ok:
            n += 1
            ctx.ob(rid, 'Sampler.%s:max-skips-empty-shells' % name, True, f.where(c),
                   'the shift is the nan-aware maximum: empty shells are skipped')
    return n


def run(ctx):
    rule_NANMAX(ctx)
    from ..pathrules import rule_T2_publish
    rule_T2_publish(ctx)      # a half-finished checkpoint update is never published
    from ..estimators import rule_E_shell
    rule_L1_sampler(ctx, {'shell'})
    rule_L1d_transition(ctx)
    from ..sampler_rules import rule_G6
    k6 = rule_G6(ctx)      # the exploration boundary is a copy of the counts, not an alias
    ctx.require(k6 >= 1, 'G6 saw no snapshot assignment (floor 1: shell_n_sample_exp)')
    rule_T3(ctx)
    rule_U1(ctx)
    rule_A8(ctx)
    from ..sampler_rules import rule_A9
    k9 = rule_A9(ctx)
    ctx.require(k9 >= 2, 'A9: no marker written for empty shells found (floor 2)')
    rule_T8i(ctx)
    rule_Q3(ctx)
    rule_A2_A6(ctx)
    rule_L5(ctx)
    # ... also for a sampler resumed from any checkpoint: statistics of all shells are
    # rewritten together with the samples they summarise after every batch
    rule_P4_sampler_subset(ctx, ('points', 'log_l', 'blobs', 'shell_t', 'bound', 'pop_shell', 'add_bound', 'first-batch',
                            'update-shell', 'batch-checkpointed', 'optional-init') + ('shell_', '_discard_exploration', 'explored', 'discard_explora'),
                           'the stored rows and the per-shell statistics')
    # the formulas: exact linear-form algebra in the log domain
    rule_E_shell(ctx)
    from ..estimators import rule_neff_guard
    rule_neff_guard(ctx)      # n_eff is 0 only when NO shell has an effective sample
    from ..initrules import rule_I1
    rule_I1(ctx, {'stats'})
    from ..shape import rule_N3
    rule_N3(ctx, classes={'Sampler'}, floor=5)
    ctx.floor('L1', 10, 'member lockstep verdicts')
    ctx.floor('L1d', 2, 'transition-time records')
    ctx.floor('T3', 8, 'dirty sites')
    ctx.floor('T8', 8, 'accounting obligations')
    ctx.floor('E', 12, 'estimator-algebra obligations')
    ctx.not_decided += ['floating-point evaluation of the formulas (logsumexp stability, -inf '
                        'and nan handling of the degenerate branches) and the formula of eta', 'count <= proposals as a runtime inequality (decided: the '
                        'request is counted before filtering)']

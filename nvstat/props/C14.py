"""C14 -- equal-weight posterior is an unbiased, order-preserving resampling."""
from ..sampler_rules import rule_L5
from ..effects import purity

LEVEL_TEXT = ('Static lockstep rule on the view arrays of posterior(): the same repeat counts '
              'are applied on axis 0, in order, to points, log-likelihoods and blobs; plus '
              'purity: posterior() writes no state and its only rng draw is guarded by the '
              'equal_weight parameter.')


def run(ctx):
    rule_L5(ctx)
    ctx.rule('F1', 'purity: posterior() writes no sampler state and mutates no alias of it; its '
             'rng draw is control dependent on the equal_weight parameter')
    f = ctx.program.func('Sampler.posterior')
    pg = purity(ctx, f, 'F1')
    ctx.ob('F1', 'Sampler.posterior:draw-is-parameter-guarded',
           bool(pg) and all(g == 'equal_weight' for _, _, g in pg), f.where(),
           'the stochastic rounding draw happens only under equal_weight=True')
    ctx.floor('L5', 8, 'view obligations')
    ctx.not_decided += ['floor(r)/floor(r)+1 with expectation r; equal normalised weights '
                        '(arithmetic, not code shape)']

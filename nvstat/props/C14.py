"""C14 -- equal-weight posterior is an unbiased, order-preserving resampling."""
import ast

from ..cfg import cfg_of
from ..exprs import dotted, walk_no_nested
from ..agree import _depends
from ..sampler_rules import rule_L5
from ..effects import purity
from ..rounding import rule_Q5

LEVEL_TEXT = ('Static lockstep rule on the view arrays of posterior(): the same repeat counts '
              'are applied on axis 0, in order, to points, log-likelihoods and blobs; plus '
              'purity: posterior() writes no state and its only rng draw is guarded by the '
              'equal_weight parameter.'
              ' Plus a path-wise symbolic evaluation of the repeat counts (stochastic-rounding form, order of the gathered rows) and the normalisation of the returned weights.')


def _is_uniform_draw(e):
    """`<generator>.random(..)`: on the sampler's generator or on a local (copy of a) generator."""
    d = dotted(e.func) if isinstance(e, ast.Call) else None
    return bool(d) and (d == 'rng.random' or d.endswith('.rng.random'))


def run(ctx):
    rule_L5(ctx)
    ctx.rule('F1', 'purity: posterior() writes no sampler state and mutates no alias of it; its '
             'rng draw is control dependent on the equal_weight parameter')
    f = ctx.program.func('Sampler.posterior')
    purity(ctx, f, 'F1')
    cfg0 = cfg_of(f)
    udraws = [c for c in walk_no_nested(f.node) if _is_uniform_draw(c) and cfg0.has(c)]
    ctx.ob('F1', 'Sampler.posterior:draw-is-parameter-guarded',
           bool(udraws) and all(cfg0.has_fact(cfg0.node_of(c).id, 'equal_weight', True)
                                for c in udraws), f.where(),
           'the stochastic rounding draw happens only under equal_weight=True')
    # def-use dependencies of the repeat counts (weak: the arithmetic is not decided)
    ctx.rule('Q4', 'the repeat counts depend on the weights, on equal_weight_boost, on a floor '
             'and on one uniform draw per sample; no sample is dropped or duplicated by any '
             'other mechanism')
    cfg = cfg_of(f)
    reps = [n for n in cfg.nodes if n.kind == 'stmt' and isinstance(n.ast, ast.Assign) and
            isinstance(n.ast.value, ast.Call) and dotted(n.ast.value.func) == 'np.repeat' and
            len(n.ast.value.args) >= 2 and any(k.arg == 'axis' for k in n.ast.value.keywords)]
    if reps:
        sel = reps[0].ast.value.args[1]
        nid = reps[0].id
    else:
        # resampling written as an index / mask selection: x = x[sel] under equal_weight
        def _sel_of(v, tgt):
            if isinstance(v, ast.Subscript) and isinstance(v.value, ast.Name) and \
                    v.value.id == tgt:
                return v.slice
            if isinstance(v, ast.Call) and dotted(v.func) == 'np.take' and len(v.args) >= 2 and \
                    isinstance(v.args[0], ast.Name) and v.args[0].id == tgt:
                return v.args[1]
            return None
        sels = [n for n in cfg.nodes if n.kind == 'stmt' and isinstance(n.ast, ast.Assign) and
                isinstance(n.ast.targets[0], ast.Name) and
                _sel_of(n.ast.value, n.ast.targets[0].id) is not None and
                cfg.has_fact(n.id, 'equal_weight', True)]
        ctx.require(sels, 'Sampler.posterior: resampling of the view not found')
        reps = sels
        sel = _sel_of(sels[0].ast.value, sels[0].ast.targets[0].id)
        nid = sels[0].id
    wname = None
    for r_ in walk_no_nested(f.node):
        if isinstance(r_, ast.Return) and isinstance(r_.value, ast.Tuple) and \
                len(r_.value.elts) >= 2 and isinstance(r_.value.elts[1], ast.Name):
            wname = r_.value.elts[1].id
    deps = {
        'weights': lambda e: isinstance(e, ast.Name) and e.id == wname,
        'boost': lambda e: isinstance(e, ast.Name) and e.id == 'equal_weight_boost',
        'floor': lambda e: isinstance(e, ast.Call) and dotted(e.func) == 'np.floor',
        'uniform-draw': _is_uniform_draw,
    }
    for k, pred in deps.items():
        ok = _depends(cfg, nid, sel, pred)
        ctx.ob('Q4', 'Sampler.posterior:repeats-depend-on(%s)' % k, ok, f.where(reps[0].ast),
               'the repeat counts depend on %s' % k if ok else
               'the repeat counts do not depend on %s' % k)
    draws = [c for c in walk_no_nested(f.node) if _is_uniform_draw(c)]
    for c in draws:
        # "with expectation exactly r ... over many resampling draws": two requests made in the
        # same sampler state must not see the same uniforms, so the draw has to advance a
        # generator that outlives the call -- not a copy made inside it
        recv = dotted(c.func.value) or ''
        kept = recv.startswith('%s.' % f.self_name)
        if not kept:
            from ..effects import _private_generator
            ctx.require(_private_generator(f, f.where(c), dotted(c.func)) or
                        isinstance(c.func.value, ast.Name),
                        'Q4 not decided: generator `%s` of the rounding draw' % recv)
        ctx.ob('Q4', 'Sampler.posterior:uniform-draw-advances-kept-generator', kept, f.where(c),
               'the rounding draw advances the sampler\'s own generator: repeated requests are '
               'independent resamplings' if kept else
               'the rounding draw is made on `%s`, a generator created inside the call (a copy '
               'of the sampler\'s): every request made in the same sampler state uses the same '
               'uniforms, so over many draws a sample is always or never rounded up - its mean '
               'multiplicity is floor(r) or floor(r)+1, not r' % recv)
        dt = [k.value for k in c.keywords if k.arg == 'dtype']
        ok = not dt or dotted(dt[0]) in ('np.float64', 'float', 'np.double')
        ctx.ob('Q4', 'Sampler.posterior:uniform-draw-double-precision', ok, f.where(c),
               'the rounding draw is a double-precision uniform' if ok else
               'the rounding draw uses `dtype=%s`: on a 2^-24 grid P(u < f) is not f, so the '
               'expected multiplicity is not r' % (dotted(dt[0]) if dt else '?'))
    rule_Q5(ctx)
    from ..estimators import posterior_normalisation
    ctx.rule('E', 'the returned log weights are reduced by the logsumexp of that very vector '
             '(equal weights sum to one whatever container the points come back in)')
    kn = posterior_normalisation(ctx, 'E')
    ctx.require(kn >= 1, 'normalisation of the returned weights not found in posterior()')
    ctx.floor('L5', 8, 'view obligations')
    ctx.floor('Q5', 2, 'multiplicity obligations')
    have = {o.construct for o in ctx.obligations if o.rule == 'Q5'}
    need = ['Sampler.posterior:multiplicity(points)', 'Sampler.posterior:multiplicity(log_l)']
    if [c for c in need if c not in have]:
        ctx.floor_failures.append('rule Q5 could not decide %s' % [c for c in need
                                                                   if c not in have])
    ctx.not_decided += ['that NumPy floor / comparison / repeat compute what their names say; '
                        'equal normalised weights of the output (arithmetic)']

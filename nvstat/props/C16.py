"""C16 -- periodic phase shift is a bijection of the unit cube."""
from ..intervals import rule_M6
from ..rowfacts import rule_M1
from ..gaps import rule_M8

LEVEL_TEXT = ('Abstract interpretation of PhaseShift.transform in an interval domain with '
              'open/closed ends and the documented float-modulo transfer function, in both '
              'directions, plus a linear-form comparison of the forward and inverse shifts.'
              ' Plus exact rational algebra on PhaseShift.compute: circular gaps (wrap gap decided piecewise for distinct and coincident coordinates), centre opposite the midpoint of argmax(gaps), also for vectorised (axis-0) forms; and a store-rounding model for columns of unknown dtype.')


def run(ctx):
    n = rule_M6(ctx)
    # where the shift is applied: forward on entry to contains(), inverse exactly once on
    # exit from sample() (also for proposals produced by pool workers)
    rule_M1(ctx)
    rule_M8(ctx)      # the gaps cover the circle; the centre is opposite the largest one
    ctx.require(n >= 2, 'M6 evaluated only %d column stores (floor 2: forward and inverse)' % n)
    ctx.floor('M6', 5, 'closure obligations')
    ctx.floor('M8', 4, 'gap obligations')
    need = ['PhaseShift.compute:centre-opposite-gap-midpoint',
            'PhaseShift.compute:argmax-and-max-of-same-vector',
            'PhaseShift.compute:coordinates-sorted',
            'PhaseShift.compute:wrap-gap(distinct-coordinates)',
            'PhaseShift.compute:wrap-gap(coincident-coordinates)']
    have = {o.construct for o in ctx.obligations if o.rule == 'M8'}
    if [c for c in need if c not in have]:
        ctx.floor_failures.append('rule M8 could not decide %s' % [c for c in need
                                                                   if c not in have])
    ctx.assumptions += ['float a % 1 lies in [0,1) for a >= 0 and in [0,1] when a may be '
                        'negative (CPython/NumPy: -1e-18 % 1 == 1.0)',
                        'centers restored from a checkpoint satisfy the invariant of the writer']
    ctx.not_decided += ['that argmax/max of the gap vector pick the largest gap (NumPy)',
                        'exact undo up to rounding']

"""C16 -- periodic phase shift is a bijection of the unit cube."""
from ..intervals import rule_M6
from ..rowfacts import rule_M1
from ..gaps import rule_M8

LEVEL_TEXT = ('Abstract interpretation of PhaseShift.transform in an interval domain with '
              'open/closed ends and the documented float-modulo transfer function, in both '
              'directions, plus a linear-form comparison of the forward and inverse shifts.'
              ' Plus exact rational algebra on PhaseShift.compute: circular gaps (wrap gap decided piecewise for distinct and coincident coordinates), centre opposite the midpoint of argmax(gaps), also for vectorised (axis-0) forms; and a store-rounding model for columns of unknown dtype.')


def rule_M7(ctx, rid='M7'):
    """The periodic index set is data, not a flag: index 0 is a legal (and the most common)
    entry, so no code may decide anything by the truth value of the indices - `np.any([0])` is
    False - nor by the truth value of the array itself.  Presence is asked with `is None` or
    `len()`."""
    import ast
    from ..exprs import dotted, unparse, walk_no_nested
    ctx.rule(rid, 'the periodic index set is never tested by value truthiness (np.any / np.all / '
             'bool / `if periodic`): index 0 is a legal entry; presence is `is None` or `len()`')
    n = 0

    def is_periodic(e):
        d = dotted(e) or ''
        return d.split('.')[-1] == 'periodic'
    for q, f in sorted(ctx.program.functions.items()):
        hits = []
        for x in walk_no_nested(f.node):
            if isinstance(x, ast.Call) and dotted(x.func) in (
                    'np.any', 'np.all', 'any', 'all', 'bool', 'np.count_nonzero',
                    'np.sum', 'sum') and x.args and is_periodic(x.args[0]):
                hits.append(x)
            tests = []
            if isinstance(x, (ast.If, ast.While, ast.IfExp)):
                tests.append(x.test)
            if isinstance(x, ast.BoolOp):
                tests += list(x.values)
            if isinstance(x, ast.UnaryOp) and isinstance(x.op, ast.Not):
                tests.append(x.operand)
            hits += [t for t in tests if is_periodic(t)]
        mentions = any(isinstance(x, (ast.Name, ast.Attribute)) and is_periodic(x)
                       for x in walk_no_nested(f.node))
        if not mentions:
            continue
        n += 1
        ctx.ob(rid, '%s:periodic-not-tested-by-value' % q, not hits,
               f.where(hits[0]) if hits else f.where(),
               'the index set is only asked for presence (`is None`, `len`)' if not hits else
               '`%s` decides by the truth value of the indices: periodic=[0] (the first '
               'parameter) is falsy and is treated as "no periodic parameter" - the mode that '
               'wraps around in that coordinate is then not made contiguous'
               % unparse(hits[0])[:50])
    ctx.require(n >= 3, 'M7: only %d functions mention the periodic index set (floor 3)' % n)
    return n


def rule_M8c(ctx, rid='M8'):
    """The shift is computed from the construction points of the bound: the row selection handed
    to PhaseShift.compute is the selection the outer union is built from (after the shift) -
    the very points whose largest gap has to lie across the boundary."""
    import ast
    from ..cfg import cfg_of
    from ..exprs import dotted, unparse, walk_no_nested
    f = ctx.program.func('NautilusBound.compute')
    cfg = cfg_of(f)

    def selection(arg, nid):
        """text of the row selector of `points[<selector>]`, locals resolved one level."""
        if isinstance(arg, ast.Subscript) and isinstance(arg.value, ast.Name):
            sl = arg.slice
            if isinstance(sl, ast.Name):
                ds = cfg.defs_at(nid, sl.id)
                if len(ds) == 1 and isinstance(cfg.nodes[next(iter(ds))].ast, ast.Assign):
                    return unparse(cfg.nodes[next(iter(ds))].ast.value)
                return None      # several definitions: the selection depends on the path
            return unparse(sl)
        return None
    shifts = [c for c in walk_no_nested(f.node) if isinstance(c, ast.Call) and
              dotted(c.func) == 'PhaseShift.compute' and c.args and cfg.has(c)]
    unions = [c for c in walk_no_nested(f.node) if isinstance(c, ast.Call) and
              dotted(c.func) == 'Union.compute' and c.args and cfg.has(c)]
    ctx.require(shifts and unions, 'NautilusBound.compute: PhaseShift.compute / Union.compute '
                'calls not found')
    su = {selection(c.args[0], cfg.node_of(c).id) for c in unions}
    for c in shifts:
        ss = selection(c.args[0], cfg.node_of(c).id)
        ok = ss is not None and su == {ss}
        ctx.ob(rid, 'NautilusBound.compute:shift-from-construction-points', ok, f.where(c),
               'the phase shift is computed from the rows `%s`, the rows the unions are built '
               'from' % ss if ok else
               'the phase shift is computed from `%s` but the unions from %s: the largest gap of '
               'the construction points need not lie across the boundary (e.g. points tied at '
               'the likelihood threshold are left out when the seam is placed and then cut by it)'
               % (ss if ss is not None else 'a selection that depends on the path', sorted(
                   x for x in su if x)))


def run(ctx):
    from ..persist import rule_P17
    k17 = rule_P17(ctx, only={'PhaseShift', 'NautilusBound'})      # periodic[i] <-> centers[i] survive the round trip
    ctx.require(k17 >= 4, 'P17 saw only %d stored values (floor 4)' % k17)
    from ..effects import rule_G7
    k7 = rule_G7(ctx, {'periodic'})      # the declared periodic set reaches the phase shift
    ctx.require(k7 >= 2, 'G7 saw only %d hand-over sites for periodic (floor 2)' % k7)
    rule_M7(ctx)
    rule_M8c(ctx)
    n = rule_M6(ctx)
    # where the shift is applied: forward on entry to contains(), inverse exactly once on
    # exit from sample() (also for proposals produced by pool workers)
    rule_M1(ctx)
    rule_M8(ctx)      # the gaps cover the circle; the centre is opposite the largest one
    ctx.require(n >= 2, 'M6 evaluated only %d column stores (floor 2: forward and inverse)' % n)
    ctx.floor('M6', 5, 'closure obligations')
    ctx.floor('M8', 4, 'gap obligations')
    need = ['PhaseShift.compute:centre-opposite-gap-midpoint',
            'PhaseShift.compute:argmax-and-max-of-same-vector',
            'PhaseShift.compute:coordinates-sorted',
            'PhaseShift.compute:wrap-gap(distinct-coordinates)',
            'PhaseShift.compute:wrap-gap(coincident-coordinates)']
    have = {o.construct for o in ctx.obligations if o.rule == 'M8'}
    if [c for c in need if c not in have]:
        ctx.floor_failures.append('rule M8 could not decide %s' % [c for c in need
                                                                   if c not in have])
    ctx.assumptions += ['float a % 1 lies in [0,1) for a >= 0 and in [0,1] when a may be '
                        'negative (CPython/NumPy: -1e-18 % 1 == 1.0)',
                        'centers restored from a checkpoint satisfy the invariant of the writer']
    ctx.not_decided += ['that argmax/max of the gap vector pick the largest gap (NumPy)',
                        'exact undo up to rounding']

"""C09 -- writing and reading back any bound preserves its behaviour."""
from ..persist import (persist_classes, rule_P1_P2, rule_P3, rule_P4_bound, rule_P5,
                       rule_P7, rule_P8, rule_P9, rule_P10, rule_P11, rule_P13)

LEVEL_TEXT = ('Static agreement of the writer, updater and reader tables extracted from the '
              'HDF5 code of the 8 persistable classes, plus definite-assignment analysis of '
              'every constructor against the attributes the observation interface reads.'
              ' Plus: reader index domains evaluated for N = 0..6, probed restore loops, type tag <-> class, layer ranges, aliased replication, memo coherence, re-derivation agreement.')

# the emulator stores sklearn attributes with dynamic keys on both sides (table entry:
# `<attr>_{i}` sweep over network.__dict__ / group.attrs); only explicit keys are checked
READER_ONLY = {}


def run(ctx):
    from ..persist import rule_P17
    k17 = rule_P17(ctx)      # no value is sorted / thinned between attribute and file
    ctx.require(k17 >= 60, 'P17 saw only %d stored values (floor 60)' % k17)
    from ..persist import rule_P12k
    rule_P12k(ctx)      # ordered members are never rebuilt from the (alphabetical) group names
    prog = ctx.program
    classes = persist_classes(prog)
    ctx.require(len(classes) >= 8, 'only %d persistable classes found (floor 8)' % len(classes))
    for cls, w, r, u, obj in classes:
        rule_P1_P2(ctx, cls.name, w, r, obj)
        ctors = [cls.methods[m] for m in ('compute', 'read', 'train') if m in cls.methods]
        rule_P3(ctx, cls, ctors)
        rule_P5(ctx, cls.name, r, obj)
        rule_P7(ctx, cls, w, r)
        rule_P9(ctx, r, obj)
        from ..persist import rule_P12
        rule_P12(ctx, r, obj)
        rule_P10(ctx, cls, r, obj)
        if u is not None:
            rule_P4_bound(ctx, cls)
    rule_P8(ctx)
    from ..persist import rule_P7n
    k7 = rule_P7n(ctx)
    ctx.require(k7 >= 8, 'P7n found only %d uses of optional members (floor 8)' % k7)
    k13 = rule_P13(ctx)
    from ..effects import rule_G2
    rule_G2(ctx)      # every restored network / member is its own object
    from ..persist import rule_P2u
    k2u = rule_P2u(ctx)
    ctx.require(k2u >= 4, 'P2u saw only %d element-wise writes (floor 4)' % k2u)
    from ..persist import rule_P2s
    k2s = rule_P2s(ctx)
    ctx.require(k2s >= 30, 'P2s saw only %d written values (floor 30)' % k2s)
    from ..effects import rule_G4
    rule_G4(ctx)      # compute() and read() build ordered member lists in the same order
    from ..memo import rule_K2
    rule_K2(ctx, classes={'Union', 'NautilusBound', 'Ellipsoid', 'UnitCubeEllipsoidMixture',
                          'NeuralBound', 'UnitCube', 'NeuralNetworkEmulator', 'PhaseShift'})
    ctx.require(k13 >= 1, 'P13: layer loops of the emulator writer / reader not found')
    k11 = rule_P11(ctx)
    ctx.require(k11 >= 2, 'P11 found no class dispatch on a stored tag (floor: Union.read)')
    ctx.floor('P1', 40, 'key obligations')
    ctx.floor('P2', 25, 'key/attribute pairs')
    ctx.floor('P3', 60, 'definite-assignment obligations')
    ctx.floor('P4', 8, 'incremental-update obligations')
    ctx.floor('P5', 6, 'dispatch obligations')
    ctx.floor('P7', 4, 'optional-member obligations')
    ctx.assumptions += ['h5py round-trips floats and arrays exactly',
                        'the sklearn attribute sweep of NeuralNetworkEmulator.write/read '
                        '(dynamic keys on both sides) reconstitutes a network']
    ctx.not_decided += ['exact float/array round trip through HDF5',
                        'completeness of the sklearn attribute sweep (depends on sklearn '
                        'internals; the writer skips attributes HDF5 cannot store)']

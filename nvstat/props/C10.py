"""C10 -- likelihood calls: exact count, one batch per step, budget and support kept."""
import ast

from ..cfg import cfg_of
from ..exprs import dotted, unparse, walk_no_nested
from ..effects import rule_F6
from ..pathrules import rule_T5, rule_T8i
from ..rowfacts import rule_M1, rule_M3
from ..persist import rule_P4_sampler_subset
from ..intervals import rule_M6

LEVEL_TEXT = ('Static who-may-call / who-may-write tables, the loop contract of run() on its '
              'CFG (strict budget guard, one batch per iteration, success predicate) and the '
              'proposal accounting of sample_shell (exactly n_batch fresh points per batch).')


def rule_N1(ctx, rid='N1'):
    ctx.rule(rid, 'counter = points passed: evaluate_likelihood increments n_like exactly once '
             'on every non-raising path, by the length of a value that is an order-preserving '
             'image of its argument (or by n_batch)')
    f = ctx.program.func('Sampler.evaluate_likelihood')
    cfg = cfg_of(f)
    from ..exprs import aug_nodes
    incs = [n for n in aug_nodes(cfg) if dotted(n.ast.target) == 'self.n_like']
    if not incs:
        ctx.ob(rid, 'Sampler.evaluate_likelihood:increment-once', False, f.where(),
               'evaluate_likelihood evaluates the likelihood without incrementing n_like: the '
               'reported number of calls and the budget test fall behind')
        return
    ids = {n.id for n in incs}
    once = cfg.must_pass(cfg.entry.id, cfg.exit.id, ids) and \
        not any(cfg.can_reach(a, b) for a in ids for b in ids)
    ctx.ob(rid, 'Sampler.evaluate_likelihood:increment-once', once, f.where(incs[0].ast),
           'n_like is incremented exactly once on every returning path' if once else
           'some returning path increments n_like zero or several times')
    arg = [p for p in f.params if p != f.self_name][0]
    TNAMES.clear()
    TNAMES.update(st.targets[0].id for st in walk_no_nested(f.node)
                  if isinstance(st, ast.Assign) and isinstance(st.targets[0], ast.Name) and
                  any(isinstance(x, ast.Attribute) and x.attr == 'prior'
                      for x in ast.walk(st.value)))
    for n in incs:
        v = n.ast.value
        ok = isinstance(n.ast.op, ast.Add)
        why = ''
        if dotted(v) == 'self.n_batch':
            why = 'by n_batch (equal to the batch length by T8)'
        elif isinstance(v, ast.Call) and dotted(v.func) == 'len' and v.args and \
                isinstance(v.args[0], ast.Name):
            nm = v.args[0].id
            # nm must be derived from the argument by MAP operations only: follow defs
            ok = ok and _derived_by_map(cfg, n.id, nm, arg)
            why = 'by len(%s), which has one entry per evaluated point' % nm if ok else \
                'by len(%s), which is not an order- and length-preserving image of the ' \
                'evaluated points' % nm
        else:
            ok = False
            why = 'by `%s`, which is not the number of evaluated points' % unparse(v)
        ctx.ob(rid, 'Sampler.evaluate_likelihood:increment-amount', ok, f.where(n.ast),
               'n_like grows ' + why)
    # the likelihood is applied to every element of the transformed argument: one map over args
    calls = []
    for c in walk_no_nested(f.node):
        if isinstance(c, ast.Call):
            d = dotted(c.func) or ''
            if d == 'self.likelihood' or (d.endswith('map') and c.args and
                                          dotted(c.args[0]) == 'self.likelihood'):
                calls.append(c)
    per_path = cfg.must_pass(cfg.entry.id, cfg.exit.id, {cfg.node_of(c).id for c in calls})
    twice = any(cfg.can_reach(cfg.node_of(a).id, cfg.node_of(b).id) for a in calls for b in calls)
    ctx.ob(rid, 'Sampler.evaluate_likelihood:likelihood-applied-once', per_path and not twice,
           f.where(), 'on every path the likelihood is applied exactly once to the batch'
           if per_path and not twice else 'a path applies the likelihood to the batch zero or '
           'several times')


def _derived_by_map(cfg, nid, name, arg, depth=0, seen=None):
    """Every definition of `name` reaching nid is an elementwise / order-preserving image
    (np.array, list, map, comprehension over, zip(*)) of `arg` or of another such value."""
    seen = seen or set()
    if name == arg or name == '<likelihood>':
        return True
    if depth > 8:
        return False
    defs = cfg.defs_at(nid, name)
    if not defs:
        return False
    for d in defs:
        if (d, name) in seen:
            continue
        seen.add((d, name))
        dn = cfg.nodes[d]
        if dn.kind != 'stmt' or not isinstance(dn.ast, ast.Assign):
            return False
        v = dn.ast.value
        srcs = _map_sources(v)
        if srcs is None:
            return False
        if not srcs:
            return False
        if not all(_derived_by_map(cfg, d, s, arg, depth + 1, seen) for s in srcs):
            return False
    return True


TNAMES = set()      # locals bound to the prior transform (filled by rule_N1)


def _map_sources(v):
    """Names a value is an order/length-preserving image of; None if not a MAP."""
    if isinstance(v, ast.Name):
        return [v.id]
    if isinstance(v, ast.Call) and isinstance(v.func, ast.Attribute) and \
            v.func.attr in ('copy', 'astype', 'tolist') and \
            isinstance(v.func.value, ast.Name) and v.func.value.id not in ('np', 'numpy'):
        return [v.func.value.id]
    if isinstance(v, ast.Call):
        d = dotted(v.func) or ''
        if d in TNAMES:
            return None      # the prior may return a dict: its len is not the batch length
        if d in ('np.array', 'np.asarray', 'list', 'tuple', 'np.copy', 'np.nan_to_num',
                 'np.clip', 'np.maximum', 'np.minimum', 'np.abs', 'np.where', 'np.exp',
                 'np.log', 'np.float64', 'np.atleast_1d') and v.args:
            return _map_sources(v.args[0])
        if (d == 'map' or d.endswith('.map')) and len(v.args) == 2:
            if dotted(v.args[0]) == 'self.likelihood':
                return ['<likelihood>']
            return _map_sources(v.args[1])
        if d in ('self.likelihood',) and v.args:
            return ['<likelihood>']      # one value per evaluated row (user contract)
        if d == 'zip' and len(v.args) == 1 and isinstance(v.args[0], ast.Starred):
            return _map_sources(v.args[0].value)
        return None
    if isinstance(v, (ast.ListComp, ast.GeneratorExp)) and len(v.generators) == 1 and \
            not v.generators[0].ifs:
        return _map_sources(v.generators[0].iter)
    return None


def run(ctx):
    from ..persist import rule_P16
    rule_P16(ctx)      # the resume block does not overwrite what the caller configured
    rule_F6(ctx)
    rule_N1(ctx)
    from ..initrules import rule_I1
    rule_I1(ctx, {'counter'})
    rule_T5(ctx)
    # the success predicate reads the per-shell statistics: they are never stale
    from ..pathrules import rule_T3
    rule_T3(ctx)
    # ... and the split between exploration and sampling they are computed from (the success
    # predicate counts the rows in view per shell) is recorded after the empty shells are gone
    from ..sampler_rules import rule_L1d_transition
    rule_L1d_transition(ctx)
    rule_T8i(ctx)
    # support: every evaluated point lies in the unit hypercube
    rule_M3(ctx)
    rule_M1(ctx)
    rule_M6(ctx)
    # budget across resumes: the call counter is refreshed by every checkpoint update
    k = rule_P4_sampler_subset(ctx, ('n_like/', '=n_like', 'first-batch', 'batch-checkpointed'),
                               'the call counter n_like')
    ctx.require(k >= 4, 'only %d checkpoint obligations about n_like found (floor 4)' % k)
    ctx.floor('F6', 6, 'who-may entries')
    ctx.floor('T5', 12, 'loop-contract obligations')
    ctx.floor('L1d', 2, 'transition-time records')
    ctx.floor('T8', 8, 'accounting obligations')
    ctx.not_decided += ['wall-clock behaviour of the timeout',
                        'leaf numerics of Ellipsoid.sample (assumed)']

"""C01 -- every stored sample belongs to exactly one shell: its own."""
from ..rowfacts import rule_M1, rule_M3, rule_M4, rule_M5
from ..intervals import rule_M6
from ..sampler_rules import rule_L1_sampler, rule_L2_move, rule_L3_L4, rule_M7
from ..agree import rule_A5, rule_Q3
from ..effects import rule_F6, rule_F7
from ..pathrules import rule_T8i
from ..persist import rule_P4_sampler_subset

LEVEL_TEXT = ('Static membership-fact and lockstep rules on the three Sampler functions that '
              'create, move and store rows: fresh proposals are excluded from every later bound '
              '(index domain decided by bounded evaluation of the slice arithmetic), a new bound '
              'splits every earlier shell with one mask and its complement, transfer candidates '
              'only re-enter the newest shell replacing proposals of the same provenance, rows '
              'are stored under the shell they were drawn for, and proposals come from '
              'unit-cube-restricted bounds.')


def run(ctx):
    from ..shape import rule_N4
    rule_N4(ctx)      # per-member membership tests are reduced over the members
    from ..persist import rule_P12k
    rule_P12k(ctx)      # ordered members are never rebuilt from the (alphabetical) group names
    from ..pathrules import rule_T2_publish
    rule_T2_publish(ctx)      # a half-finished checkpoint update is never published
    rule_M4(ctx)
    rule_M5(ctx)
    rule_L2_move(ctx)
    rule_L1_sampler(ctx, {'rows', 't'})
    rule_L3_L4(ctx)
    rule_A5(ctx)
    rule_M7(ctx)
    rule_Q3(ctx)
    rule_T8i(ctx)
    rule_M3(ctx)
    rule_M1(ctx)      # a stored point lies inside the bound it was drawn from
    from ..rowfacts import rule_M2
    rule_M2(ctx, 'NeuralBound.contains')      # the shell split relies on contains(): every
    rule_M2(ctx, 'NautilusBound.contains')    # member must test the point in one frame
    from ..rowfacts import rule_A4
    rule_A4(ctx)      # ... which needs the members' samples in the columns their tests read
    # ... and not inside a member the union has dropped since: proposals cached before a
    # split / trim are discarded
    from ..loader import helper_view
    from ..lockstep import ExpandingTracker
    from .C13 import rule_T9, G_UNION
    for q in ('Union.split', 'Union.trim'):
        fq = helper_view(ctx.program, ctx.program.func(q))
        rule_T9(ctx, fq, ExpandingTracker(fq, G_UNION.members + ['log_v_all'],
                                          arrays={'block', 'log_v_all'}))
    rule_M6(ctx)
    rule_F7(ctx)      # ... and user code cannot overwrite it before it is stored
    rule_F6(ctx)
    # histories with resumes: the file pairs points_<i> with bound_<i> only if every change
    # of the shell numbering is followed by a full write
    from ..initrules import rule_I1
    rule_I1(ctx, {'rows'})
    # ... and the bounds a resumed sampler tests the stored points against are the ones they
    # were drawn from: nothing of a fitted network is lost on the way through the file
    from ..persist import rule_P8, rule_P14
    rule_P8(ctx)
    rule_P14(ctx)
    rule_P4_sampler_subset(ctx, ('points', 'bound', 'shell_t', 'pop_shell', 'add_bound',
                                 'first-batch', 'update-shell', 'batch-checkpointed'),
                           'points, bounds and the transfer set')
    ctx.floor('M4', 5, 'exclusion obligations')
    ctx.floor('M5', 7, 'split obligations')
    ctx.floor('A5', 6, 'transfer pairing obligations')
    ctx.assumptions += ['contains() of each bound class is numerically what it says (C07 leaf '
                        'assumption)']
    ctx.not_decided += ['"no region counted twice or under the wrong volume" as a numerical '
                        'statement', 'shell_association agreeing with storage for every point '
                        '(a runtime relation between a search and the stored arrays)']

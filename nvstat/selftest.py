#!/usr/bin/env python3
"""Developer self-test of the checkers (DESIGN.md section 7): every breaking variant of
the catalogue must be reported (exit 1) by its owning checks, every benign refactoring must
leave all checks silent (exit 0).  Variants are text edits of a scratch copy of
<repo>/nautilus in a fresh temporary directory (outside /repo and /verif), parsed but never
executed, and removed immediately.

usage: selftest.py [--jobs N] [--only ID[,ID]] [--props C01,C02] [--json out.json]
"""
import argparse
import json
import os
import py_compile
import shutil
import subprocess
import sys
import tempfile
from concurrent.futures import ProcessPoolExecutor

HERE = os.path.dirname(os.path.abspath(__file__))
sys.path.insert(0, os.path.dirname(HERE))
from nvstat.catalogue import MUTANTS, BENIGN, REPLACE_ALL   # noqa: E402


def run_variant(args):
    entry, repo, kind = args
    d = tempfile.mkdtemp(prefix='nvstat_var_')
    out = {'id': entry['id'], 'kind': kind, 'props': {}, 'applicable': True}
    try:
        import fcntl
        with open('/tmp/nv_repo.lock', 'w') as lk:      # seed evaluation patches /repo briefly
            fcntl.flock(lk, fcntl.LOCK_EX)
            shutil.copytree(os.path.join(repo, 'nautilus'), os.path.join(d, 'nautilus'),
                            ignore=shutil.ignore_patterns('__pycache__'))
        p = os.path.join(d, entry['file'])
        with open(p) as fh:
            s = fh.read()
        if entry['old'] not in s:
            out['applicable'] = False
            return out
        if isinstance(entry.get('fn'), tuple):
            import nvstat.catalogue as cat
            s2 = getattr(cat, entry['fn'][0])(s, *entry['fn'][1:])
        elif entry.get('fn') is not None:
            s2 = entry['fn'](s)
        elif entry['id'] in REPLACE_ALL:
            s2 = s.replace(entry['old'], entry['new'])
        else:
            s2 = s.replace(entry['old'], entry['new'], 1)
        with open(p, 'w') as fh:
            fh.write(s2)
        try:
            py_compile.compile(p, doraise=True, cfile=os.path.join(d, 'x.pyc'))
        except py_compile.PyCompileError as exc:
            out['applicable'] = False
            out['error'] = 'variant does not compile: %s' % exc
            return out
        env = dict(os.environ, NVSTAT_OUT=os.path.join(d, 'out'))
        for prop in entry['props']:
            r = subprocess.run([sys.executable, os.path.join(HERE, 'check.py'), '-p', prop,
                                '--repo', d], capture_output=True, text=True, env=env)
            findings = [l for l in r.stdout.splitlines() if l.startswith(('FINDING',
                                                                           'ANALYSIS-ERROR'))]
            out['props'][prop] = {'exit': r.returncode, 'findings': findings[:3]}
    finally:
        shutil.rmtree(d, ignore_errors=True)
    return out


def run_catalogue(repo='/repo', jobs=16, only=None, props=None):
    work = []
    for kind, lst in (('mutant', MUTANTS), ('benign', BENIGN)):
        for e in lst:
            if only and e['id'] not in only:
                continue
            e2 = dict(e)
            if props:
                e2['props'] = [p for p in e['props'] if p in props]
                if not e2['props']:
                    continue
            work.append((e2, repo, kind))
    with ProcessPoolExecutor(max_workers=jobs) as ex:
        results = list(ex.map(run_variant, work))
    return results


def summarise(results):
    mut = [r for r in results if r['kind'] == 'mutant' and r['applicable']]
    ben = [r for r in results if r['kind'] == 'benign' and r['applicable']]
    na = [r['id'] for r in results if not r['applicable']]
    missed, partial, errored = [], [], []
    for r in mut:
        exits = {p: v['exit'] for p, v in r['props'].items()}
        if all(x == 1 for x in exits.values()):
            continue
        if any(x == 2 for x in exits.values()):
            errored.append((r['id'], exits))
        if any(x == 1 for x in exits.values()):
            partial.append((r['id'], exits))
        else:
            missed.append((r['id'], exits))
    alarms = []
    for r in ben:
        bad = {p: v for p, v in r['props'].items() if v['exit'] != 0}
        if bad:
            alarms.append((r['id'], {p: (v['exit'], v['findings'][:1]) for p, v in bad.items()}))
    return {
        'mutants': len(mut), 'mutants_fully_detected': len(mut) - len(missed) - len(partial),
        'mutants_partially_detected': partial, 'mutants_missed': missed,
        'mutant_checks_errored': errored,
        'benign': len(ben), 'benign_false_alarms': alarms, 'not_applicable': na,
    }


def main():
    ap = argparse.ArgumentParser()
    ap.add_argument('--repo', default='/repo')
    ap.add_argument('--jobs', type=int, default=16)
    ap.add_argument('--only')
    ap.add_argument('--props')
    ap.add_argument('--json')
    a = ap.parse_args()
    res = run_catalogue(a.repo, a.jobs, set(a.only.split(',')) if a.only else None,
                        set(a.props.split(',')) if a.props else None)
    s = summarise(res)
    print(json.dumps(s, indent=1))
    if a.json:
        with open(a.json, 'w') as fh:
            json.dump({'summary': s, 'results': res}, fh, indent=1)
    ok = not s['mutants_missed'] and not s['mutants_partially_detected'] and \
        not s['benign_false_alarms']
    return 0 if ok else 1


if __name__ == '__main__':
    sys.exit(main())

"""Thorough tier: on top of the quick rules (which the property module already ran with the
deeper loop bound), run the sensitivity audit for this property -- every breaking and benign
variant of the catalogue that names the property -- and package-wide sweeps.  The audit is
written to the evidence and never changes the exit status: the verdict always comes from
analysing /repo's current tree (DESIGN.md section 7)."""
import ast
import os

from .catalogue import MUTANTS, BENIGN
from .exprs import walk_no_nested, root_attr


def _sweep_parallel_lists(ctx):
    """Informational: per class, attributes that are appended/popped in the same function --
    candidates for undeclared aligned groups."""
    out = {}
    for f in ctx.program.functions.values():
        if f.cls is None or not f.self_name:
            continue
        touched = set()
        for n in walk_no_nested(f.node):
            if isinstance(n, ast.Call) and isinstance(n.func, ast.Attribute) and \
                    n.func.attr in ('append', 'pop', 'insert'):
                ra = root_attr(n.func.value, f.self_name)
                if ra and not ra[1]:
                    touched.add(ra[0])
        if len(touched) >= 2:
            out[f.qualname] = sorted(touched)
    return out


def extend(ctx, mod):
    from .selftest import run_variant
    from concurrent.futures import ProcessPoolExecutor
    prop = ctx.prop
    repo = ctx.program.repo
    work = []
    for kind, lst in (('mutant', MUTANTS), ('benign', BENIGN)):
        for e in lst:
            if prop in e['props']:
                e2 = dict(e)
                e2['props'] = [prop]
                work.append((e2, repo, kind))
    jobs = min(16, os.cpu_count() or 4)
    with ProcessPoolExecutor(max_workers=jobs) as ex:
        results = list(ex.map(run_variant, work))
    mut = [r for r in results if r['kind'] == 'mutant' and r['applicable']]
    ben = [r for r in results if r['kind'] == 'benign' and r['applicable']]
    detected = [r['id'] for r in mut if r['props'][prop]['exit'] == 1]
    missed = [(r['id'], r['props'][prop]['exit']) for r in mut if r['props'][prop]['exit'] != 1]
    alarms = [(r['id'], r['props'][prop]['exit'], r['props'][prop]['findings'][:1])
              for r in ben if r['props'][prop]['exit'] != 0]
    ctx.extra['audit_variants'] = len(mut)
    ctx.extra['audit_detected'] = len(detected)
    ctx.extra['audit_missed'] = missed
    ctx.extra['audit_benign_variants'] = len(ben)
    ctx.extra['audit_benign_false_alarms'] = alarms
    ctx.extra['audit_not_applicable'] = [r['id'] for r in results if not r['applicable']]
    ctx.extra['audit_samples'] = [
        {'variant': r['id'], 'finding': (r['props'][prop]['findings'] or ['?'])[0][:200]}
        for r in mut[ctx.seed % 3::max(1, len(mut) // 6)][:6]]
    ctx.extra['sweep_parallel_list_updates'] = _sweep_parallel_lists(ctx)
    # independently seeded changes (seeded/<tag>/patch.diff) written against this property
    seeded = _seeded_audit(ctx)
    ctx.extra['audit_seeded_changes'] = seeded
    ctx.note('thorough tier: lockstep path enumeration with every loop taken up to twice; '
             'sensitivity audit of %d breaking and %d benign variants for this property '
             '(informational, does not affect the verdict)' % (len(mut), len(ben)))


def _seeded_audit(ctx):
    """Apply each kept seeded change that targets this property to a scratch copy of the
    package (never to /repo) and record whether this check reports it."""
    import glob
    import json
    import shutil
    import subprocess
    import sys
    import tempfile
    from .core import VERIF
    out = []
    here = os.path.dirname(os.path.abspath(__file__))
    for mp in sorted(glob.glob(os.path.join(VERIF, 'seeded', '*', 'meta.json'))):
        try:
            meta = json.load(open(mp))
        except Exception:
            continue
        if meta.get('breaks_property') != ctx.prop:
            continue
        d = tempfile.mkdtemp(prefix='nvstat_seed_')
        try:
            shutil.copytree(os.path.join(ctx.program.repo, 'nautilus'),
                            os.path.join(d, 'nautilus'),
                            ignore=shutil.ignore_patterns('__pycache__'))
            r = subprocess.run(['patch', '-p1', '-s', '-d', d, '-i',
                                os.path.join(os.path.dirname(mp), 'patch.diff')],
                               capture_output=True, text=True)
            if r.returncode:
                out.append({'change': meta['tag'], 'applies': False})
                continue
            env = dict(os.environ, NVSTAT_OUT=os.path.join(d, 'out'))
            r = subprocess.run([sys.executable, os.path.join(here, 'check.py'), '-p', ctx.prop,
                                '--repo', d], capture_output=True, text=True, env=env)
            f = [l for l in r.stdout.splitlines() if l.startswith('FINDING')]
            out.append({'change': meta['tag'], 'applies': True, 'exit': r.returncode,
                        'first_finding': f[0][:200] if f else None})
        finally:
            shutil.rmtree(d, ignore_errors=True)
    return out

"""K2 -- coherence of values cached on demand.

A *memo cache* is an attribute that the class only ever resets to None or fills under
`self.<attr> is None`.  The cached value is a function of other attributes; the rule demands
that every statement of the package that changes one of those attributes -- in whatever
class or function it sits -- is followed, on every path to the function's exit, by an
invalidation of the cache of the same object (or is immediately preceded by one with nothing
in between that could refill it).  Without that a cached volume / weight keeps describing an
older state, and two histories that reach the same state through different call sequences
(serial / pool, straight / resumed) observe different values.

Today's tree has no memo cache; the rule is kept alive by the fixture programs
fixtures/K2_bad and fixtures/K2_good, which must fire / stay silent on every run.
"""
import ast
import os

from .cfg import cfg_of
from .core import AnalysisError, VERIF
from .exprs import unparse, walk_no_nested
from .resolve import Resolver, resolver

MUTATING_CALLS = {'append', 'extend', 'insert', 'pop', 'remove', 'clear', 'sort', 'reverse',
                  'fill', 'resize', 'update', 'shuffle'}


def _strip_sub(e):
    while isinstance(e, ast.Subscript):
        e = e.value
    return e


def memo_caches(prog):
    """[(ClassInfo, attr)] for every on-demand cache of the program."""
    from .persist import _is_memo_cache
    out = []
    for c in prog.classes.values():
        attrs = set()
        for f in c.methods.values():
            if not f.self_name:
                continue
            for n in walk_no_nested(f.node):
                if isinstance(n, ast.Assign):
                    for t in n.targets:
                        if isinstance(t, ast.Attribute) and isinstance(t.value, ast.Name) and \
                                t.value.id == f.self_name:
                            attrs.add(t.attr)
        for a in sorted(attrs):
            if _is_memo_cache(prog, c.name, a):
                out.append((c, a))
    return out


def _fill_inputs(cls, attr):
    """Attributes of the object that the cached expression reads (through single-definition
    locals and through properties / methods of the same object, three levels deep)."""
    inputs = set()

    def reads_of(func, e, depth):
        sn = func.self_name
        cfg = cfg_of(func)
        for x in ast.walk(e):
            if isinstance(x, ast.Attribute) and isinstance(x.value, ast.Name) and \
                    x.value.id == sn and isinstance(x.ctx, ast.Load):
                m = cls.methods.get(x.attr)
                if m is not None and depth < 3:
                    for st in walk_no_nested(m.node):
                        if isinstance(st, ast.Return) and st.value is not None:
                            reads_of(m, st.value, depth + 1)
                elif x.attr != attr:
                    inputs.add(x.attr)
            elif isinstance(x, ast.Name) and isinstance(x.ctx, ast.Load) and depth < 3:
                for st in walk_no_nested(func.node):
                    if isinstance(st, ast.Assign) and any(
                            isinstance(t, ast.Name) and t.id == x.id for t in st.targets):
                        reads_of(func, st.value, depth + 1)

    fills = []
    for f in cls.methods.values():
        if not f.self_name:
            continue
        for n in walk_no_nested(f.node):
            if isinstance(n, ast.Assign) and any(
                    isinstance(t, ast.Attribute) and isinstance(t.value, ast.Name) and
                    t.value.id == f.self_name and t.attr == attr for t in n.targets) and \
                    not (isinstance(n.value, ast.Constant) and n.value.value is None):
                fills.append((f, n))
                reads_of(f, n.value, 0)
    return inputs, fills


def _always_invalidates(cls, attr):
    """Methods of the class on whose every returning path `self.<attr> = None` is executed."""
    out = set()
    for name, f in cls.methods.items():
        if not f.self_name:
            continue
        cfg = cfg_of(f)
        inv = {cfg.node_of(n).id for n in walk_no_nested(f.node)
               if isinstance(n, ast.Assign) and cfg.has(n) and
               isinstance(n.value, ast.Constant) and n.value.value is None and
               any(isinstance(t, ast.Attribute) and isinstance(t.value, ast.Name) and
                   t.value.id == f.self_name and t.attr == attr for t in n.targets)}
        if inv and cfg.must_pass(cfg.entry.id, cfg.exit.id, inv):
            out.add(name)
    return out


def _callers_invalidate(prog, res, g, cls, attr, invalidators, depth, seen):
    """A method that changes an input of the cache without invalidating it itself is fine if it
    is only ever called from places that invalidate the cache of the same object afterwards
    (on every path), directly or one more level up.  A method nobody in the package calls is
    part of the public surface: it has to invalidate itself."""
    if depth > 2 or g.qualname in seen:
        return False
    seen = seen | {g.qualname}
    sites = []
    for h in prog.functions.values():
        for node, callees, status in res.call_sites(h):
            if g in callees and isinstance(node, ast.Call):
                sites.append((h, node))
    if not sites:
        return False
    for h, call in sites:
        cfg = cfg_of(h)
        if not cfg.has(call) or not isinstance(call.func, ast.Attribute):
            return False
        recv = unparse(call.func.value)
        cid = cfg.node_of(call).id
        inv = set()
        for m in walk_no_nested(h.node):
            if not cfg.has(m):
                continue
            if isinstance(m, ast.Assign) and isinstance(m.value, ast.Constant) and \
                    m.value.value is None and any(
                        isinstance(t, ast.Attribute) and t.attr == attr and
                        unparse(t.value) == recv for t in m.targets):
                inv.add(cfg.node_of(m).id)
            if isinstance(m, ast.Call) and isinstance(m.func, ast.Attribute) and \
                    m.func.attr in invalidators and unparse(m.func.value) == recv and \
                    m is not call:
                inv.add(cfg.node_of(m).id)
        if inv and cfg.must_pass(cid, cfg.exit.id, inv - {cid}):
            continue
        if recv == h.self_name and h.cls is cls and \
                _callers_invalidate(prog, res, h, cls, attr, invalidators, depth + 1, seen):
            continue
        return False
    return True


def check_program(prog, res, report, classes=None):
    """Apply the rule to `prog`; report(construct, ok, where, what) per obligation.
    Returns the number of caches found."""
    caches = [(c, a) for c, a in memo_caches(prog) if classes is None or c.name in classes]
    for cls, attr in caches:
        inputs, fills = _fill_inputs(cls, attr)
        invalidators = _always_invalidates(cls, attr)
        for g in prog.functions.values():
            cfg = cfg_of(g)
            # the object under construction needs no invalidation (definite assignment: P3)
            ctor_obj = None
            if g.cls is cls and g.kind == 'classmethod':
                for n in walk_no_nested(g.node):
                    if isinstance(n, ast.Assign) and isinstance(n.value, ast.Call) and \
                            isinstance(n.value.func, ast.Name) and n.value.func.id == 'cls' and \
                            isinstance(n.targets[0], ast.Name):
                        ctor_obj = n.targets[0].id
            if g.cls is cls and g.name == '__init__':
                ctor_obj = g.self_name
            writes = []
            for n in walk_no_nested(g.node):
                tgts = []
                if isinstance(n, ast.Assign):
                    for t in n.targets:
                        tgts += list(t.elts) if isinstance(t, (ast.Tuple, ast.List)) else [t]
                elif isinstance(n, (ast.AugAssign, ast.AnnAssign)):
                    tgts = [n.target]
                elif isinstance(n, ast.Delete):
                    tgts = list(n.targets)
                elif isinstance(n, ast.Expr) and isinstance(n.value, ast.Call) and \
                        isinstance(n.value.func, ast.Attribute) and \
                        n.value.func.attr in MUTATING_CALLS:
                    tgts = [n.value.func.value]
                for t in tgts:
                    e = _strip_sub(t)
                    if isinstance(e, ast.Attribute) and e.attr in inputs and cfg.has(n):
                        owner = res.type_of(g, e.value) or set()
                        if cls.name in owner:
                            writes.append((n, e))
            for n, e in writes:
                recv = unparse(e.value)
                if recv == ctor_obj:
                    continue
                wid = cfg.node_of(n).id
                inv = set()
                for m in walk_no_nested(g.node):
                    if not cfg.has(m):
                        continue
                    if isinstance(m, ast.Assign) and isinstance(m.value, ast.Constant) and \
                            m.value.value is None and any(
                                isinstance(t, ast.Attribute) and t.attr == attr and
                                unparse(t.value) == recv for t in m.targets):
                        inv.add(cfg.node_of(m).id)
                    if isinstance(m, ast.Call) and isinstance(m.func, ast.Attribute) and \
                            m.func.attr in invalidators and unparse(m.func.value) == recv:
                        inv.add(cfg.node_of(m).id)
                ok = bool(inv) and (wid in inv or cfg.must_pass(wid, cfg.exit.id, inv))
                if not ok and inv:
                    # invalidated just before, with nothing in between that can refill it
                    for i in inv:
                        if not cfg.dominates(i, wid):
                            continue
                        between = (cfg.reach(i, avoid={wid}) | {i}) & \
                            {x.id for x in cfg.nodes if cfg.can_reach(x.id, wid) or x.id == wid}
                        calm = True
                        for b in between:
                            bn = cfg.nodes[b]
                            if bn.ast is None or b == i:
                                continue
                            for c in ast.walk(bn.ast) if isinstance(bn.ast, ast.AST) else ():
                                if isinstance(c, ast.Call):
                                    cal, status = res.resolve_call(g, c)
                                    if status != 'external' or any(
                                            isinstance(a, ast.Attribute) and a.attr == attr
                                            for a in ast.walk(c)):
                                        calm = False
                                if isinstance(c, ast.Attribute) and c.attr in cls.methods and \
                                        cls.methods[c.attr].kind == 'property':
                                    calm = False
                        if calm:
                            ok = True
                if not ok and recv == g.self_name and g.cls is cls:
                    ok = _callers_invalidate(prog, res, g, cls, attr, invalidators, 0, set())
                report('%s:%s.%s-after-write(%s.%s)' % (g.qualname, cls.name, attr, recv, e.attr),
                       ok, g.where(n),
                       'the write to %s.%s is followed on every path by an invalidation of the '
                       'cached %s.%s' % (recv, e.attr, recv, attr) if ok else
                       '`%s` changes %s.%s, which the cached value %s.%s (filled in %s) is '
                       'computed from, but no path-covering invalidation of %s.%s follows: the '
                       'cached value keeps describing the older state'
                       % (unparse(n)[:50], cls.name, e.attr, cls.name, attr,
                          ', '.join(sorted({f.qualname for f, _ in fills})), recv, attr))
    return len(caches)


def _fixture_program(name):
    from .loader import Program, ModuleInfo, ClassInfo, FuncInfo, normalise_function, _kind
    d = os.path.join(VERIF, 'fixtures', name)
    prog = Program(d)
    for fn in sorted(os.listdir(d)):
        if not fn.endswith('.py'):
            continue
        src = open(os.path.join(d, fn)).read()
        tree = ast.parse(src)
        mod = ModuleInfo('nautilus.' + fn[:-3], os.path.join(d, fn), 'fixtures/%s/%s' % (name, fn),
                         src, tree)
        prog.modules[mod.modname] = mod
        for node in tree.body:
            if isinstance(node, ast.ClassDef):
                ci = ClassInfo(node.name, node, mod)
                mod.classes[node.name] = ci
                prog.classes[node.name] = ci
                for sub in node.body:
                    if isinstance(sub, ast.FunctionDef):
                        kind = _kind(sub, True)
                        norm, _ = normalise_function(sub)
                        key = sub.name + ('.setter' if kind == 'setter' else '')
                        fi = FuncInfo('%s.%s' % (node.name, key), norm, mod, ci, kind)
                        ci.methods[key] = fi
                        prog.functions[fi.qualname] = fi
    return prog


def rule_K2(ctx, rid='K2', classes=None):
    ctx.rule(rid, 'memo coherence: every statement of the package that writes an attribute a '
             'cached-on-demand value is computed from is followed on every path by an '
             'invalidation of that cache on the same object (or immediately preceded by one)')
    prog = ctx.program
    res = resolver(prog)
    n = check_program(prog, res, lambda c, ok, where, what: ctx.ob(rid, c, ok, where, what),
                      classes)
    ctx.extra['memo_caches_found'] = n
    # keep the rule alive: it must fire on the bad fixture and stay silent on the good one
    fired = {}
    for name in ('K2_bad', 'K2_good'):
        fp = _fixture_program(name)
        out = []
        k = check_program(fp, Resolver(fp), lambda c, ok, where, what: out.append((c, ok)))
        fired[name] = (k, [c for c, ok in out if not ok], len(out))
    if not (fired['K2_bad'][0] >= 1 and fired['K2_bad'][1] and fired['K2_good'][0] >= 1 and
            not fired['K2_good'][1] and fired['K2_good'][2] >= 2):
        raise AnalysisError('K2 fixture self-check failed: %r' % (fired,))
    ctx.ob(rid, 'fixture:K2', True, 'fixtures/K2_bad', 'rule fires on the bad fixture (%d '
           'unprotected writes) and is silent on the good one (%d protected writes)'
           % (len(fired['K2_bad'][1]), fired['K2_good'][2]))
    return n

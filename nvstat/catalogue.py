"""Sensitivity catalogue (DESIGN.md section 7): breaking variants that the owning checks
must report with exit 1, and benign refactorings on which every check must stay silent.

Each entry edits a scratch copy of <repo>/nautilus by exact text replacement (the copy is
parsed, never executed).  An entry whose `old` text is not found on the current tree is
reported as not applicable; it never fails a check.
"""

S = 'nautilus/sampler.py'
U = 'nautilus/bounds/union.py'
N = 'nautilus/bounds/nautilus.py'
NE = 'nautilus/bounds/neural.py'
B = 'nautilus/bounds/basic.py'
PS = 'nautilus/bounds/periodic.py'
PR = 'nautilus/prior.py'
PO = 'nautilus/pool.py'
NN = 'nautilus/neural.py'


def M(id_, file, old, new, props):
    return dict(id=id_, file=file, old=old, new=new, props=props.split())


MUTANTS = [
    M('mvee-inverse-not-rescaled', B, "    A_inv *= scale\n", "", 'C07'),
    M('enlargement-shrinks', B, "        A_inv *= enlarge_per_dim**2.0", "        A_inv /= enlarge_per_dim**2.0", 'C07'),
    M('mvee-scaled-to-mean-distance', B, "    scale = np.amax(np.einsum('...i,ij,...j', points - c, A, points - c))",
      "    scale = np.mean(np.einsum('...i,ij,...j', points - c, A, points - c))", 'C07'),
    M('cholesky-of-the-wrong-matrix', B, "        bound.B = np.linalg.cholesky(A_inv)",
      "        bound.B = np.linalg.cholesky(bound.A)", 'C07'),
    M('resume-probes-blobs-but-does-not-read-them', S,
      "                        self.blobs.append(\n                            np.array(group['blobs_{}'.format(shell)]))",
      "                        pass", 'C05 C03'),
    M('resume-probes-transfer-set-only', S,
      "                    if key in group:\n                        setattr(self, key, np.array(group[key]))",
      "                    if key in group:\n                        pass", 'C05 C03'),
    M('nautilus-cache-not-consumed', N, "            self.points = self.points[n_points:]\n", "", 'C08 C03'),
    M('union-cache-not-consumed', U, "        self.points = self.points[n_points:]\n", "", 'C08 C03'),
    M('worker-not-reset', N, "        bound.reset(rng=rng)\n        bound.sample(n_points=n_points, return_points=False)",
      "        bound.sample(n_points=n_points, return_points=False)", 'C08'),
    M('union-proposals-not-shuffled', U, "            self.rng.shuffle(points)\n", "", 'C08'),
    M('double-modulo-in-one-store', PS, '        for i, dim in enumerate(self.periodic):\n            points_t[:, dim] = (points_t[:, dim] + (-1 if inverse else +1) *\n                                (-self.centers[i] + 0.5)) % 1\n            # The modulo of a tiny negative number rounds to exactly 1.\n            points_t[:, dim] = points_t[:, dim] % 1\n',
      "        sign = -1 if inverse else +1\n"
      "        for i, dim in enumerate(self.periodic):\n"
      "            shift = sign * (0.5 - self.centers[i])\n"
      "            points_t[:, dim] = (points_t[:, dim] + shift) % 1 % 1\n", 'C16'),
    M('gap-index-overridden', PS, "            bound.centers[i] = (\n                x[np.argmax(dx)] + np.amax(dx) / 2.0 + 0.5) % 1",
      "            k = np.argmax(dx)\n            if 2 * dx[-1] > dx[k]:\n                k = len(dx) - 1\n"
      "            bound.centers[i] = (x[k] + dx[k] / 2.0 + 0.5) % 1", 'C16'),
    M('networks-aliased-on-read', NN, "        emulator.neural_networks = []\n",
      "        emulator.neural_networks = []\n        spare = [MLPRegressor()] * 2\n", 'C09'),
    M('free-branch-on-ppf', PR, "            if hasattr(dist, 'isf'):\n                phys_points[..., i] = dist.isf(1 - points[..., i])",
      "            if hasattr(dist, 'ppf'):\n                phys_points[..., i] = dist.ppf(points[..., i])", 'C15'),
    M('setter-does-not-store', S, "        self._discard_exploration = discard_exploration\n",
      "        pass\n", 'C12'),
    M('proposals-not-counted', S, "        self.shell_n_sample[shell] += n_bound\n", "", 'C02'),
    M('calls-not-counted', S, "        self.n_like += len(log_l)\n", "", 'C10'),
    M('shell-count-not-refreshed', S, "        self.shell_n[index] = shell_n\n", "", 'C02'),
    M('empty-shell-statistics-stale', S, "            self.shell_log_v[index] = -np.inf\n"
      "            self.shell_log_l[index] = np.nan\n            self.shell_n_eff[index] = 0",
      "            pass", 'C02'),
    M('mean-likelihood-never-computed', S,
      "            self.shell_log_l[index] = logsumexp(log_l) - np.log(shell_n)\n", "", 'C02'),
    M('first-blobs-not-stored', S, "            if self.blobs is None:\n                self.blobs = [blobs]\n            else:",
      "            if self.blobs is None:\n                pass\n            else:", 'C03'),
    M('update-without-resize', S,
      "        group['points_{}'.format(shell)].resize(self.points[shell].shape)\n", "", 'C05 C06'),
    M('resume-does-not-restore-points', S, "                    self.points.append(\n"
      "                        np.array(group['points_{}'.format(shell)]))\n", "", 'C05 C03'),
    M('resume-does-not-restore-generator', S, "                self.rng.bit_generator.state = dict(",
      "                state_ = dict(", 'C05'),
    M('mvee-of-a-subsample', B, "            bound.c, bound.A, A_inv = minimum_volume_enclosing_ellipsoid(\n                points)",
      "            bound.c, bound.A, A_inv = minimum_volume_enclosing_ellipsoid(\n                points[::2])", 'C07'),
    M('mixture-contains-demands-unit-cube', B,
      "        in_bound = np.ones(points.shape[:-1], dtype=bool)\n        if self.cube is not None:",
      "        in_bound = np.all((points >= 0) & (points < 1), axis=-1)\n        if self.cube is not None:",
      'C07'),
    M('empty-shell-marked-minus-inf', S, "            self.shell_log_l[index] = np.nan",
      "            self.shell_log_l[index] = -np.inf", 'C02'),
    M('reader-one-layer-short', NN,
      "                np.array(group['intercepts_{}_{}'.format(k, i)]) for k in\n"
      "                range(network.n_layers_ - 1)]",
      "                np.array(group['intercepts_{}_{}'.format(k, i)]) for k in\n"
      "                range(network.n_layers_ - 2)]", 'C09'),
    M('phase-shift-directions-swapped', PS,
      "points_t[:, dim] = (points_t[:, dim] + (-1 if inverse else +1) *",
      "points_t[:, dim] = (points_t[:, dim] - (-1 if inverse else +1) *", 'C16'),
    M('prior-survival-of-u', PR, "dist.isf(1 - points[..., i])", "dist.isf(points[..., i])", 'C15'),
    M('prior-neighbour-coordinate', PR, "dist.isf(1 - points[..., i])",
      "dist.isf(1 - points[..., i - 1])", 'C15'),
    M('uniform-scale-is-upper-bound', PR, "dist = uniform(loc=dist[0], scale=dist[1] - dist[0])",
      "dist = uniform(loc=dist[0], scale=dist[1])", 'C15'),
    M('fixed-value-added-to-ones', PR, "np.ones(phys_points.shape[:-1]) * dist",
      "np.ones(phys_points.shape[:-1]) + dist", 'C15'),
    M('resume-reads-blobs-where-absent', S, "                    if 'blobs_{}'.format(shell) in group:",
      "                    if 'blobs_{}'.format(shell) not in group:", 'C05 C03'),
    M('resume-reads-transfer-set-where-absent', S,
      "                    if key in group:\n                        setattr(self, key, np.array(group[key]))",
      "                    if key not in group:\n                        setattr(self, key, np.array(group[key]))",
      'C05 C03'),
    M('transform-directions-swapped', B, "        if not inverse:\n            return np.einsum('ij, ...j', self.B_inv, points - self.c)",
      "        if inverse:\n            return np.einsum('ij, ...j', self.B_inv, points - self.c)", 'C08 C07'),
    M('volume-n-over-log-two', B, "self.n_dim * np.log(2.) +", "self.n_dim / np.log(2.) +", 'C08'),
    M('contains-sums-over-points', B, "return np.sum(self.transform(points)**2, axis=-1) < 1",
      "return np.sum(self.transform(points)**2, axis=0) < 1", 'C08 C07'),
    M('inverse-transform-subtracts-centre', B,
      "            return np.einsum('ij, ...j', self.B, points) + self.c",
      "            return np.einsum('ij, ...j', self.B, points) - self.c", 'C08 C07'),
    M('probed-restore-inverted', N, "'neural_bound_{}'.format(i) in group",
      "'neural_bound_{}'.format(i) not in group", 'C09'),
    M('probed-restore-step-two', N, "                rng=bound.rng))\n            i += 1",
      "                rng=bound.rng))\n            i += 2", 'C09'),
    M('reader-skips-first-member', U, "            group['bound_{}'.format(i)], rng=bound.rng)\n"
      "            for i in range(len(bound.log_v_all))]",
      "            group['bound_{}'.format(i)], rng=bound.rng)\n"
      "            for i in range(1, len(bound.log_v_all))]", 'C09'),
    M('resume-skips-first-bound', S, "                for i in range(len(self.shell_n)):\n"
      "                    if fstream['bound_{}'.format(i)].attrs['type'] == 'UnitCube':",
      "                for i in range(1, len(self.shell_n)):\n"
      "                    if fstream['bound_{}'.format(i)].attrs['type'] == 'UnitCube':", 'C05'),
    M('resume-first-bound-by-position', S, "                for i in range(len(self.shell_n)):\n                    if fstream['bound_{}'.format(i)].attrs['type'] == 'UnitCube':\n                        self.bounds.append(UnitCube.read(\n                            fstream['bound_{}'.format(i)], rng=self.rng))\n                    else:\n                        self.bounds.append(NautilusBound.read(\n                            fstream['bound_{}'.format(i)], rng=self.rng))\n",
      "                self.bounds = [\n"
      "                    UnitCube.read(fstream['bound_0'], rng=self.rng), ]\n"
      "                for i in range(1, len(self.shell_n)):\n"
      "                    self.bounds.append(NautilusBound.read(\n"
      "                        fstream['bound_{}'.format(i)], rng=self.rng))\n", 'C05 C01'),
    M('reader-class-dispatch-inverted', U, "        if group.attrs['bound_class'] == 'Ellipsoid':",
      "        if group.attrs['bound_class'] != 'Ellipsoid':", 'C09 C05'),
    M('acceptance-one-plus-inverse', U, "            p = 1 - 1.0 / n_bound", "            p = 1 + 1.0 / n_bound", 'C08'),
    M('acceptance-inverse-square', U, "            p = 1 - 1.0 / n_bound\n"
      "            points = points[self.rng.random(size=len(points)) > p]",
      "            points = points[self.rng.random(size=len(points)) < 1 / n_bound**2]", 'C08'),
    M('volume-without-first-draw', U, "        if self.n_sample == 0:\n            self.sample()",
      "        if self.n_sample != 0:\n            self.sample()", 'C08'),
    M('reset-leaves-a-rejection', U, "        self.n_sample = 0\n        self.n_reject = 0",
      "        self.n_sample = 0\n        self.n_reject = 1", 'C08'),
    M('neff-product-instead-of-quotient', S, "        return np.sum(sum_w)**2 / np.sum(sum_w_sq)",
      "        return np.sum(sum_w)**2 * np.sum(sum_w_sq)", 'C02'),
    M('neff-numerator-not-squared', S, "        return np.sum(sum_w)**2 / np.sum(sum_w_sq)",
      "        return np.sum(sum_w) / np.sum(sum_w_sq)", 'C02'),
    M('f-live-sum-of-logs', S, "            return np.exp(logsumexp(log_w_live) - logsumexp(log_w))",
      "            return np.exp(logsumexp(log_w_live) + logsumexp(log_w))", 'C02'),
    M('new-shell-proposal-count-one', S, "self.shell_n_sample = np.append(self.shell_n_sample, 0)",
      "self.shell_n_sample = np.append(self.shell_n_sample, 1)", 'C02'),
    M('new-shell-phantom-row', S, "            self.log_l.append(np.zeros(0))",
      "            self.log_l.append(np.zeros(1))", 'C03 C01'),
    M('call-counter-starts-at-one', S, "        self.n_like = 0\n        self.explored = False",
      "        self.n_like = 1\n        self.explored = False", 'C10'),
    M('phantom-shell-record', S, "        self.shell_n_sample = np.zeros(0, dtype=int)",
      "        self.shell_n_sample = np.zeros(1, dtype=int)", 'C02'),
    M('split-index-from-linear-volumes', U,
      "index = np.argmax(np.where(~self.block, self.log_v_all, -np.inf))",
      "index = np.argmax(np.exp(self.log_v_all) * ~self.block)", 'C13 C08'),
    M('weights-unshifted-exponential', S, "sum_w = np.exp(self.shell_log_l + self.shell_log_v -\n"
      "                       np.nanmax(self.shell_log_l + self.shell_log_v))[select]",
      "sum_w = np.exp(self.shell_log_l + self.shell_log_v)[select]", 'C02'),
    M('mixture-transform-writes-argument', B, "        points_t = np.copy(points)\n",
      "        points_t = np.asarray(points, dtype=float)\n", 'C13 C07 C11'),
    M('split-volume-test-inverted', U, "        if (logsumexp([new_bounds[0].log_v, new_bounds[1].log_v]) >\n                self.bounds[index].log_v):",
      "        if (logsumexp([new_bounds[0].log_v, new_bounds[1].log_v]) <\n"
      "                self.bounds[index].log_v):", 'C13'),
    M('split-volume-test-max-child', U, "        if (logsumexp([new_bounds[0].log_v, new_bounds[1].log_v]) >\n                self.bounds[index].log_v):",
      "        if (max(new_bounds[0].log_v, new_bounds[1].log_v) >\n"
      "                self.bounds[index].log_v):", 'C13'),
    M('top-up-one-short', U, "[:self.n_points_min]] = label", "[:self.n_points_min - 1]] = label",
      'C13'),
    M('top-up-threshold-one-short', U, "n_labels >= self.n_points_min):",
      "n_labels >= self.n_points_min - 1):", 'C13'),
    M('top-up-without-relabelling', U, "            labels[:] = 1 - label\n", "", 'C13'),
    M('kwargs-default-mutated', NN,
      "        default_neural_network_kwargs.update(neural_network_kwargs)\n"
      "        neural_network_kwargs = default_neural_network_kwargs\n",
      "        for key, value in default_neural_network_kwargs.items():\n"
      "            neural_network_kwargs.setdefault(key, value)\n", 'C11'),
    M('class-level-cache', PS, "class PhaseShift():\n", "class PhaseShift():\n    _memo = {}\n",
      'C11'),
    M('scalar-shortcut-in-prior', PR,
      "        phys_points = np.zeros_like(points, dtype=float)\n",
      "        if np.ndim(points) == 1:\n"
      "            return self.unit_to_physical(np.atleast_2d(points))[0] + 0.0\n"
      "        phys_points = np.zeros_like(points, dtype=float)\n", 'C11'),
    M('fixed-zero-becomes-free', PR, "        if isinstance(dist, tuple):\n            if len(dist) != 2:",
      "        dist = dist or (0, 1)\n        if isinstance(dist, tuple):\n            if len(dist) != 2:",
      'C15'),
    M('bulk-deletion-ascending-pops', S, "                        for shell in np.flatnonzero(self.shell_n == 0)[::-1]:\n                            self.bounds.pop(shell)\n                            self.points.pop(shell)\n                            self.log_l.pop(shell)\n                            if self.blobs is not None:\n                                self.blobs.pop(shell)\n                            for key in ['shell_n', 'shell_n_sample',\n                                        'shell_n_eff', 'shell_log_l_min',\n                                        'shell_log_l', 'shell_log_v']:\n                                setattr(self, key, np.delete(\n                                    getattr(self, key), shell))\n", "                        empty = np.flatnonzero(self.shell_n == 0)\n                        for shell in empty:\n                            self.bounds.pop(shell)\n                            self.points.pop(shell)\n                            self.log_l.pop(shell)\n                            if self.blobs is not None:\n                                self.blobs.pop(shell)\n                        for key in ['shell_n', 'shell_n_sample',\n                                    'shell_n_eff', 'shell_log_l_min',\n                                    'shell_log_l', 'shell_log_v']:\n                            setattr(self, key, np.delete(\n                                getattr(self, key), empty))\n", 'C12 C02'),
    # ---------------- vectorised rewrites of the phase shift
    M('compute-vectorised-global-max', PS, '        bound.centers = np.zeros(len(periodic))\n\n        for i, dim in enumerate(periodic):\n            x = np.sort(points[:, dim])\n            dx = np.append(np.diff(x), x[0] - (x[-1] - 1))\n            bound.centers[i] = (\n                x[np.argmax(dx)] + np.amax(dx) / 2.0 + 0.5) % 1\n', '        x = np.sort(points[:, periodic], axis=0)\n        dx = np.append(np.diff(x, axis=0), x[:1] - (x[-1:] - 1), axis=0)\n        i_max = np.argmax(dx, axis=0)[np.newaxis]\n        bound.centers = (\n            np.take_along_axis(x, i_max, axis=0)[0] + np.amax(dx) / 2.0 +\n            0.5) % 1\n', 'C16'),
    M('compute-vectorised-sort-rows', PS, '        bound.centers = np.zeros(len(periodic))\n\n        for i, dim in enumerate(periodic):\n            x = np.sort(points[:, dim])\n            dx = np.append(np.diff(x), x[0] - (x[-1] - 1))\n            bound.centers[i] = (\n                x[np.argmax(dx)] + np.amax(dx) / 2.0 + 0.5) % 1\n', '        x = np.sort(points[:, periodic])\n        dx = np.append(np.diff(x, axis=0), x[:1] - (x[-1:] - 1), axis=0)\n        i_max = np.argmax(dx, axis=0)[np.newaxis]\n        bound.centers = (\n            np.take_along_axis(x, i_max, axis=0)[0] + np.amax(dx, axis=0) / 2.0 +\n            0.5) % 1\n', 'C16'),
    M('transform-vectorised-single-mod', PS, '        for i, dim in enumerate(self.periodic):\n            points_t[:, dim] = (points_t[:, dim] + (-1 if inverse else +1) *\n                                (-self.centers[i] + 0.5)) % 1\n            # The modulo of a tiny negative number rounds to exactly 1.\n            points_t[:, dim] = points_t[:, dim] % 1\n', '        points_t[:, self.periodic] = (\n            points_t[:, self.periodic] + (-1 if inverse else +1) *\n            (-self.centers + 0.5)) % 1\n', 'C16'),
    M('transform-whole-array-mod', PS, '        for i, dim in enumerate(self.periodic):\n            points_t[:, dim] = (points_t[:, dim] + (-1 if inverse else +1) *\n                                (-self.centers[i] + 0.5)) % 1\n            # The modulo of a tiny negative number rounds to exactly 1.\n            points_t[:, dim] = points_t[:, dim] % 1\n', '        shift = np.zeros(points_t.shape[-1])\n        shift[self.periodic] = (-1 if inverse else +1) * (-self.centers + 0.5)\n        points_t = (points_t + shift) % 1\n        points_t = points_t % 1\n', 'C16 C07'),
    # ---------------- volume algebra (rule V2)
    M('volume-det-of-inverse', B, "np.linalg.slogdet(self.B)[1]", "np.linalg.slogdet(self.B_inv)[1]",
      'C08 C07'),
    M('volume-half-log-two', B, "self.n_dim * np.log(2.) +", "self.n_dim * np.log(2.) / 2 +",
      'C08'),
    M('volume-gamma-argument', B, "gammaln(self.n_dim / 2.0 + 1))", "gammaln(self.n_dim / 2.0))",
      'C08'),
    M('radius-exponent-off', B, "            1.0 / self.n_dim)", "            1.0 / (self.n_dim + 1))",
      'C08 C07'),
    M('forward-matrix-not-inverse', B, "bound.B_inv = np.linalg.inv(bound.B)",
      "bound.B_inv = np.linalg.inv(bound.A)", 'C08 C07'),
    M('union-fraction-off-by-one', U, "            1.0 - self.n_reject / self.n_sample)",
      "            1.0 - self.n_reject / (self.n_sample + 1))", 'C08'),
    M('nautilus-volume-rejected-fraction', N,
      "        return self.outer_bound.log_v + np.log(\n            1.0 - self.n_reject / self.n_sample)",
      "        return self.outer_bound.log_v + np.log(\n            self.n_reject / self.n_sample)",
      'C08'),
    # ---------------- estimator algebra (rule E)
    M('mean-likelihood-over-proposals', S,
      "self.shell_log_l[index] = logsumexp(log_l) - np.log(shell_n)",
      "self.shell_log_l[index] = logsumexp(log_l) - np.log(shell_n_sample)", 'C02'),
    M('kish-without-square', S, "self.shell_n_eff[index] = np.exp(2 * logsumexp(log_l) -",
      "self.shell_n_eff[index] = np.exp(logsumexp(log_l) -", 'C02'),
    M('evidence-volume-squared', S,
      "        return logsumexp(self.shell_log_l[select] + self.shell_log_v[select])",
      "        return logsumexp(self.shell_log_l[select] + 2 * self.shell_log_v[select])", 'C02'),
    M('neff-divides-by-count', S, "        sum_w_sq = sum_w**2 / self.shell_n_eff[select]",
      "        sum_w_sq = sum_w**2 / self.shell_n[select]", 'C02'),
    M('live-weights-unshared-volume', S,
      "                self.shell_log_v - np.log(np.maximum(self.shell_n, 1)),\n"
      "                self.shell_n)\n            log_l = np.concatenate(self.log_l)\n"
      "            log_w",
      "                self.shell_log_v,\n"
      "                self.shell_n)\n            log_l = np.concatenate(self.log_l)\n"
      "            log_w", 'C02'),
    M('weights-normalised-by-max', S, "        log_w = log_w - logsumexp(log_w)",
      "        log_w = log_w - np.amax(log_w)", 'C02'),
    M('kept-fraction-inverted', S, "np.log(shell_n / shell_n_sample))",
      "np.log(shell_n_sample / shell_n))", 'C02'),
    # ---------------- round-3 additions
    M('bernoulli-of-r-not-frac', S, "self.rng.random(len(repeats)) < repeats - np.floor(repeats)",
      "self.rng.random(len(repeats)) < repeats", 'C14'),
    M('centre-without-half-turn', PS, "np.amax(dx) / 2.0 + 0.5) % 1", "np.amax(dx) / 2.0) % 1",
      'C16'),
    M('centre-third-of-gap', PS, "np.amax(dx) / 2.0 + 0.5) % 1", "np.amax(dx) / 3.0 + 0.5) % 1",
      'C16'),
    M('gaps-of-unsorted', PS, "x = np.sort(points[:, dim])", "x = points[:, dim]", 'C16'),
    M('wrap-gap-without-period', PS, "x[0] - (x[-1] - 1))", "x[0] - x[-1])", 'C16'),
    M('wrap-gap-from-one', PS, "x[0] - (x[-1] - 1))", "1 - x[-1])", 'C16'),
    M('wrap-gap-modulo', PS, "dx = np.append(np.diff(x), x[0] - (x[-1] - 1))",
      "dx = np.diff(x, append=x[0]) % 1", 'C16'),
    M('argmax-of-other-vector', PS, "x[np.argmax(dx)] + np.amax(dx)",
      "x[np.argmax(np.diff(x))] + np.amax(dx)", 'C16'),
    M('thinning-mask-stale-count', U,
      "            points = points[self.rng.random(size=len(points)) > p]\n"
      "            self.points = np.vstack([self.points, points])",
      "            keep = self.rng.random(size=len(points)) > p\n"
      "            self.points = np.vstack([self.points, points[keep]])", 'C08'),
    M('rejections-from-overlap-only', U,
      "            points = points[self.rng.random(size=len(points)) > p]\n"
      "            self.points = np.vstack([self.points, points])\n\n"
      "            self.n_sample += n_sample\n"
      "            self.n_reject += n_sample - len(points)",
      "            overlap = self.rng.random(size=len(points)) <= p\n"
      "            self.points = np.vstack([self.points, points[~overlap]])\n\n"
      "            self.n_sample += n_sample\n"
      "            self.n_reject += np.sum(overlap)", 'C08'),
    M('cube-dropped-for-high-dim', U, "        if not unit:\n            bound.cube = None",
      "        if not unit or bound.n_dim > 20:\n            bound.cube = None", 'C07 C01 C10'),
    M('binv-recomputed-differently-on-read', B,
      "        for key in ['n_dim', 'c', 'A', 'B', 'B_inv']:\n"
      "            setattr(bound, key, group.attrs[key])\n",
      "        for key in ['n_dim', 'c', 'A', 'B']:\n"
      "            setattr(bound, key, group.attrs[key])\n"
      "        bound.B_inv = np.linalg.pinv(bound.B)\n", 'C09'),
    # ---------------- alignment of points / log_l / blobs
    M('rows-filter-polarity', S, "self.log_l[shell] = self.log_l[shell][~in_bound]",
      "self.log_l[shell] = self.log_l[shell][in_bound]", 'C03 C01'),
    M('rows-filter-dropped', S,
      "                self.log_l[shell] = self.log_l[shell][~in_bound]\n", "", 'C03 C01'),
    M('blobs-filter-dropped', S,
      "                    self.blobs[shell] = self.blobs[shell][~in_bound]\n",
      "                    pass\n", 'C03'),
    M('transfer-prepend', S, "self.log_l[-1], self.log_l_t[idx_t]))",
      "self.log_l_t[idx_t], self.log_l[-1]))", 'C03 C12'),
    M('transfer-other-index', S, "self.log_l[-1], self.log_l_t[idx_t]))",
      "self.log_l[-1], self.log_l_t[idx_t[::-1]]))", 'C03'),
    M('transfer-crossed-arrays', S, "self.points[-1], self.points_t[idx_t]))",
      "self.points[-1], self.points[0][idx_t]))", 'C03'),
    M('fresh-rows-crossed', S,
      "self.log_l[shell] = np.append(self.log_l[shell], log_l, axis=0)",
      "self.log_l[shell] = np.append(self.log_l[shell], np.sort(log_l), axis=0)", 'C03'),
    M('view-start-blobs', S,
      "blobs = np.concatenate([b[s:] for b, s in zip(self.blobs, start)])",
      "blobs = np.concatenate([b[s:] for b, s in zip(self.blobs, 0 * start)])", 'C03 C02'),
    M('view-sort-one', S, "log_l = np.repeat(log_l, repeats, axis=0)",
      "log_l = np.sort(np.repeat(log_l, repeats, axis=0))", 'C03 C14'),
    M('view-repeat-no-axis', S, "points = np.repeat(points, repeats, axis=0)",
      "points = np.repeat(points, repeats)", 'C03 C14'),
    M('view-repeat-other-counts', S, "blobs = np.repeat(blobs, repeats, axis=0)",
      "blobs = np.repeat(blobs, np.maximum(repeats, 1), axis=0)", 'C03 C14'),
    M('prior-no-copy', S, "args = list(map(transform, np.copy(points)))",
      "args = list(map(transform, points))", 'C03'),
    M('prior-no-copy-vectorized', S, "args = transform(np.copy(points))",
      "args = transform(points)", 'C03'),
    M('pool-unordered', PO, "return list(self.pool.map(func, iterable))",
      "return list(self.pool.imap_unordered(func, iterable))", 'C03 C11'),
    M('result-sorted', S, "result = list(map(self.likelihood, args))",
      "result = sorted(map(self.likelihood, args))", 'C03 C11'),
    M('squeeze-batch-axis', S,
      "blobs = np.squeeze(blobs, axis=tuple(\n                i for i in range(1, blobs.ndim) "
      "if blobs.shape[i] == 1))", "blobs = np.squeeze(blobs)", 'C03'),
    # ---------------- likelihood call accounting / loop contract
    M('budget-nonstrict', S, "while ((self.n_like < n_like_max) and",
      "while ((self.n_like <= n_like_max) and", 'C10'),
    M('budget-dropped', S, "while ((self.n_like < n_like_max) and (time() - t_start < timeout) "
      "and\n               not success):",
      "while ((time() - t_start < timeout) and\n               not success):", 'C10'),
    M('two-batches-per-iteration', S,
      "                self.add_samples(shell, verbose=verbose)\n"
      "                if self.filepath is not None:\n"
      "                    self.write_shell_update(self.filepath, shell)\n\n"
      "            success",
      "                self.add_samples(shell, verbose=verbose)\n"
      "                self.add_samples(shell, verbose=verbose)\n"
      "                if self.filepath is not None:\n"
      "                    self.write_shell_update(self.filepath, shell)\n\n"
      "            success", 'C10'),
    M('batch-outside-loop', S, "        if verbose:\n            if success:\n",
      "        if not success:\n            self.add_samples(-1)\n"
      "        if verbose:\n            if success:\n", 'C10'),
    M('count-one-per-call', S, "self.n_like += len(log_l)", "self.n_like += 1", 'C10'),
    M('success-ignores-n-eff', S,
      "            success = (self.explored and np.all(self.shell_n >= n_shell) and\n"
      "                       self.n_eff >= n_eff)\n\n        if verbose:",
      "            success = (self.explored and np.all(self.shell_n >= n_shell))\n\n"
      "        if verbose:", 'C10'),
    M('count-kept-rows', S, "self.shell_n_sample[shell] += n_bound",
      "self.shell_n_sample[shell] += len(points)", 'C02 C01'),
    M('proposals-not-counted', S,
      "                n_bound += self.n_batch - n_sample\n\n", "\n", 'C02 C10'),
    M('over-request', S, "                    self.n_batch - n_sample, pool=self.pool_s)",
      "                    self.n_batch, pool=self.pool_s)", 'C10 C02'),
    M('likelihood-elsewhere', S, "        log_l = self.log_l[index][start:]\n",
      "        log_l = self.log_l[index][start:]\n        self.likelihood(self.points[index][0])\n",
      'C10'),
    # ---------------- stale statistics / bookkeeping
    M('no-recompute-after-transfer', S,
      "                self.shell_n[shell] -= np.sum(in_bound)\n"
      "                self.update_shell_info(shell)\n",
      "                self.shell_n[shell] -= np.sum(in_bound)\n", 'C02 C12'),
    M('no-recompute-after-batch', S,
      "                self.blobs[shell] = np.append(self.blobs[shell], blobs, axis=0)\n"
      "        self.update_shell_info(shell)\n",
      "                self.blobs[shell] = np.append(self.blobs[shell], blobs, axis=0)\n",
      'C02'),
    M('setter-no-recompute', S,
      "        self._discard_exploration = discard_exploration\n"
      "        for index in range(len(self.log_l)):\n"
      "            self.update_shell_info(index)\n",
      "        self._discard_exploration = discard_exploration\n", 'C02 C12'),
    M('statistic-accumulates', S, "self.shell_n[index] = shell_n\n",
      "self.shell_n[index] += shell_n\n", 'C02'),
    M('removal-misses-log_l', S, "                            self.log_l.pop(shell)\n", "",
      'C02 C12'),
    M('removal-misses-stat', S, "'shell_log_l', 'shell_log_v']:\n                                "
      "setattr", "'shell_log_l']:\n                                setattr", 'C02 C12'),
    M('boundary-before-removal', S,
      "                    if np.any(self.shell_n == 0):\n"
      "                        for shell in np.flatnonzero(self.shell_n == 0)[::-1]:",
      "                    self.shell_n_sample_exp = np.copy(self.shell_n_sample)\n"
      "                    if np.any(self.shell_n == 0):\n"
      "                        for shell in np.flatnonzero(self.shell_n == 0)[::-1]:", 'C02'),
    M('discard-keeps-exploration-proposals', S,
      "            shell_n_sample -= self.shell_n_sample_exp[index]\n", "", 'C02 C12'),
    M('posterior-other-predicate', S,
      "        if self._discard_exploration and self.explored:\n"
      "            start = self.shell_end_exp\n",
      "        if self._discard_exploration:\n            start = self.shell_end_exp\n",
      'C02 C12'),
    M('new-shell-misses-record', S,
      "            self.shell_n_eff = np.append(self.shell_n_eff, 0)\n", "", 'C02'),
    # ---------------- persistence
    M('update-misses-iter-counter', S, "'shell_log_l', 'shell_log_v', 'n_update_iter',\n"
      "                    'n_like_iter']:\n            group.attrs[key] = getattr(self, key)\n\n"
      "        group['points_{}'", "'shell_log_l', 'shell_log_v',\n"
      "                    'n_like_iter']:\n            group.attrs[key] = getattr(self, key)\n\n"
      "        group['points_{}'", 'C05'),
    M('update-misses-discard-flag', S, "for key in ['n_like', '_discard_exploration', 'shell_n',",
      "for key in ['n_like', 'shell_n',", 'C05 C12'),
    M('update-misses-rng', S,
      "        fstream.close()\n        os.replace(filepath_tmp, filepath)\n",
      "        fstream.close()\n        os.replace(filepath_tmp, filepath)\n", ''),
    M('update-misses-bound', S,
      "        if isinstance(self.bounds[shell], NautilusBound):\n"
      "            self.bounds[shell].update(fstream['bound_{}'.format(shell)])\n", "", 'C05'),
    M('update-misses-log_l', S,
      "        group['log_l_{}'.format(shell)].resize(self.log_l[shell].shape)\n"
      "        group['log_l_{}'.format(shell)][...] = self.log_l[shell]\n", "", 'C05'),
    M('update-wrong-shell-data', S,
      "group['log_l_{}'.format(shell)][...] = self.log_l[shell]",
      "group['log_l_{}'.format(shell)][...] = self.log_l[-1]", 'C05'),
    M('bound-update-misses-outer', N,
      "        self.outer_bound.update(group['outer_bound'])\n", "", 'C05 C09 C08'),
    M('union-update-misses-counter', U,
      "        group.attrs['n_reject'] = self.n_reject\n        group['points'].resize",
      "        group['points'].resize", 'C09 C05 C08'),
    M('no-full-write-after-bound', S,
      "                    self.n_like_iter = 0\n"
      "                    if self.filepath is not None:\n"
      "                        self.write(self.filepath, overwrite=True)\n",
      "                    self.n_like_iter = 0\n", 'C05'),
    M('no-first-batch-write', S,
      "                    if self.n_like == self.n_batch:\n"
      "                        self.write(self.filepath, overwrite=True)\n", "", 'C05'),
    M('no-write-after-transition', S,
      "                    self.discard_exploration = discard_exploration\n"
      "                    if self.filepath is not None:\n"
      "                        self.write(self.filepath, overwrite=True)\n",
      "                    self.discard_exploration = discard_exploration\n", 'C05'),
    M('update-other-shell', S,
      "                self.add_samples(shell, verbose=verbose)\n"
      "                if self.filepath is not None:\n"
      "                    self.write_shell_update(self.filepath, shell)\n\n"
      "            # The effective sample size",
      "                self.add_samples(shell, verbose=verbose)\n"
      "                if self.filepath is not None:\n"
      "                    self.write_shell_update(self.filepath, -1)\n\n"
      "            # The effective sample size", 'C05'),
    M('crossed-keys', N, "bound.n_sample = group.attrs['n_sample']",
      "bound.n_sample = group.attrs['n_reject']", 'C09'),
    M('reader-skips-cube', U, "        else:\n            bound.cube = None\n\n"
      "        if group.attrs['bound_class']", "\n        if group.attrs['bound_class']", 'C09'),
    M('reader-skips-shift', N, "            bound.shift = PhaseShift.read(group['shift'])\n"
      "        else:\n            bound.shift = None\n",
      "            bound.shift = PhaseShift.read(group['shift'])\n", 'C09'),
    M('writer-drops-key', U, "'n_sample', 'n_reject']:\n            group.attrs[key] = "
      "getattr(self, key)", "'n_sample']:\n            group.attrs[key] = getattr(self, key)",
      'C09'),
    M('reader-unguarded-optional', NE,
      "        if 'emulator' in group:\n"
      "            bound.emulator = NeuralNetworkEmulator.read(group['emulator'])\n"
      "        else:\n            bound.emulator = None\n",
      "        bound.emulator = NeuralNetworkEmulator.read(group['emulator'])\n", 'C09'),
    M('new-attribute-not-restored', U, "        bound.n_reject = 0\n",
      "        bound.n_reject = 0\n        bound.n_accept = 0\n", ''),
    # ---------------- atomic checkpoint
    M('open-live', S, "fstream = h5py.File(filepath_tmp, 'w')",
      "fstream = h5py.File(filepath, 'w')", 'C06'),
    M('replace-before-close', S,
      "        fstream.close()\n        os.replace(filepath_tmp, filepath)\n\n"
      "    def write_shell_update",
      "        os.replace(filepath_tmp, filepath)\n        fstream.close()\n\n"
      "    def write_shell_update", 'C06'),
    M('update-without-copy', S, "        shutil.copyfile(filepath, filepath_tmp)\n", "", 'C06'),
    M('update-in-place', S, "        fstream = h5py.File(filepath_tmp, 'r+')",
      "        fstream = h5py.File(filepath, 'r+')", 'C06'),
    M('unlink-live', S, "        filepath.parent.mkdir(parents=True, exist_ok=True)\n",
      "        filepath.parent.mkdir(parents=True, exist_ok=True)\n"
      "        if filepath.exists():\n            filepath.unlink()\n", 'C06'),
    M('non-atomic-move', S,
      "        fstream.close()\n        os.replace(filepath_tmp, filepath)\n\n"
      "    def write_shell_update",
      "        fstream.close()\n        shutil.copyfile(filepath_tmp, filepath)\n\n"
      "    def write_shell_update", 'C06'),
    M('no-publish', S,
      "        fstream.close()\n        os.replace(filepath_tmp, filepath)\n\n"
      "    def write_shell_update",
      "        fstream.close()\n\n    def write_shell_update", 'C06'),
    # ---------------- phases
    M('bound-after-exploration', S,
      "                shell = np.flatnonzero(self.shell_n < n_shell)[0]\n",
      "                shell = np.flatnonzero(self.shell_n < n_shell)[0]\n"
      "                self.add_bound()\n", 'C12'),
    M('explored-reset', S, "        self._discard_exploration = discard_exploration\n"
      "        for index", "        self._discard_exploration = discard_exploration\n"
      "        self.explored = self.explored and not discard_exploration\n        for index",
      'C12 C10'),
    M('removal-without-transition', S, "                    self.explored = True\n", "", 'C12'),
    # ---------------- determinism
    M('accessor-recomputes', S,
      "        select = ~np.isnan(self.shell_log_l)\n        return logsumexp(",
      "        self.update_shell_info(len(self.bounds) - 1)\n"
      "        select = ~np.isnan(self.shell_log_l)\n        return logsumexp(", 'C11'),
    M('verbose-samples', S,
      "        if verbose:\n            self.print_status('Sampling', end='\\r')\n",
      "        if verbose:\n            self.print_status('Sampling', end='\\r')\n"
      "            self.bounds[-1].sample(10)\n", 'C11'),
    M('verbose-changes-data', S, "bound.sample(1000, return_points=False, pool=self.pool_s)",
      "bound.sample(2000 if verbose else 1000, return_points=False, pool=self.pool_s)", 'C11'),
    M('filepath-branch-mutates', S,
      "                elif self.filepath is not None:\n"
      "                    # Write the complete file if this is the first batch.\n",
      "                elif self.filepath is not None:\n"
      "                    self.n_like_iter += 1\n"
      "                    # Write the complete file if this is the first batch.\n", 'C11'),
    M('unseeded-generator', NE,
      "        if rng is None:\n            rng = np.random.default_rng()\n\n"
      "        # Determine the outer bound.",
      "        rng = np.random.default_rng()\n\n        # Determine the outer bound.", 'C11 C05'),
    M('reader-without-rng', N, "            group['outer_bound'], rng=rng)",
      "            group['outer_bound'])", 'C11 C05'),
    M('reset-not-forwarded', U,
      "            for bound in self.bounds:\n                bound.reset(rng)\n",
      "            pass\n", 'C11 C05'),
    M('mixture-unseeded', U, "            n_components=2, n_init=10,\n"
      "            random_state=self.rng.integers(2**32 - 1)).fit(points)",
      "            n_components=2, n_init=10).fit(points)", 'C11 C05'),
    M('legacy-rng', B, "points = self.rng.normal(size=(n_points, self.n_dim))",
      "points = np.random.normal(size=(n_points, self.n_dim))", 'C11 C05'),
    M('posterior-sorts-state', S, "        log_w = log_v + log_l\n        if return_blobs:",
      "        self.log_l[-1].sort()\n        log_w = log_v + log_l\n        if return_blobs:",
      'C11 C14'),
    M('posterior-always-draws', S,
      "        if equal_weight:\n            repeats = np.exp(log_w - np.amax(log_w)) * "
      "equal_weight_boost",
      "        u = self.rng.random(len(log_w))\n        if equal_weight:\n"
      "            repeats = np.exp(log_w - np.amax(log_w)) * equal_weight_boost", 'C11 C14'),
    # ---------------- shells partition the samples
    M('later-bounds-skip-one', S, "for bound in self.bounds[index:][1:]:",
      "for bound in self.bounds[index:][2:]:", 'C01'),
    M('later-bounds-minus-one', S, "for bound in self.bounds[index:][1:]:",
      "for bound in self.bounds[index + 1:]:", 'C01'),
    M('later-bounds-or', S, "in_shell = in_shell & ~bound.contains(points)",
      "in_shell = in_shell | ~bound.contains(points)", 'C01'),
    M('later-bounds-polarity', S, "in_shell = in_shell & ~bound.contains(points)",
      "in_shell = in_shell & bound.contains(points)", 'C01'),
    M('later-bounds-break', S, "                    if np.all(~in_shell):\n"
      "                        continue\n", "                    break\n", 'C01'),
    M('later-bounds-not-applied', S, "                points = points[in_shell]\n", "", 'C01'),
    M('split-misses-last-shell', S,
      "            for shell in range(len(self.bounds) - 1):\n\n                in_bound",
      "            for shell in range(len(self.bounds) - 2):\n\n                in_bound", 'C01'),
    M('split-against-older-bound', S,
      "in_bound = self.bounds[-1].contains(self.points[shell])",
      "in_bound = self.bounds[-2].contains(self.points[shell])", 'C01'),
    M('split-other-shell-points', S,
      "in_bound = self.bounds[-1].contains(self.points[shell])",
      "in_bound = self.bounds[-1].contains(self.points[0])", 'C01'),
    M('transfer-not-marked', S, "                            shell_t[idx_t] = -1\n", "", 'C01 C03'),
    M('transfer-with-replacement', S, "idx_1, size=n, replace=False))",
      "idx_1, size=n, replace=True))", 'C01 C03'),
    M('replaced-kept', S, "                points = points[~replace]\n\n", "\n", 'C01 C03'),
    M('transfer-any-shell', S,
      "        if shell_t is not None and index not in [-1, len(self.bounds) - 1]:\n"
      "            raise ValueError(\"'shell_t' must be empty list if not sampling \" +\n"
      "                             \"from the last bound/shell.\")\n", "", 'C01'),
    M('stale-transfer-set', S, "            self.points_t = []\n", "", 'C01 C03'),
    # ---------------- bounds
    M('union-no-cube-filter', U,
      "            if self.cube is not None:\n"
      "                points = points[self.cube.contains(points)]\n"
      "            self.rng.shuffle(points)", "            self.rng.shuffle(points)", 'C07'),
    M('nautilus-contains-or', N, "            in_bound = in_bound & np.any(",
      "            in_bound = in_bound | np.any(", 'C07'),
    M('neural-overwrites-mask', NE,
      "            in_bound[in_bound] = (self.emulator.predict(points_t[in_bound]) >",
      "            in_bound[:] = (self.emulator.predict(points_t) >", 'C07'),
    M('no-inverse-shift', N, "            if self.shift is not None:\n"
      "                points = self.shift.transform(points, inverse=True)\n"
      "            return points", "            return points", 'C07'),
    M('contains-unshifted', N, "        if self.shift is not None:\n"
      "            points = self.shift.transform(points)\n        in_bound = ",
      "        in_bound = ", 'C07'),
    M('no-neural-filter', N, "                    points = points[in_bound]\n", "", 'C07'),
    M('mixture-columns-swapped', B,
      "            idx = np.arange(self.n_dim)[self.dim_cube]\n"
      "            points[:, idx] = self.cube.sample(n_points)",
      "            idx = np.arange(self.n_dim)[~self.dim_cube]\n"
      "            points[:, idx] = self.cube.sample(n_points)", 'C07'),
    M('outer-bound-not-unit', N, "n_points_min=n_points_min, bound_class="
      "UnitCubeEllipsoidMixture,\n            rng=rng)",
      "n_points_min=n_points_min, bound_class=UnitCubeEllipsoidMixture,\n"
      "            unit=False, rng=rng)", 'C07 C01'),
    M('single-modulo', PS, "            points_t[:, dim] = points_t[:, dim] % 1\n", "",
      'C16 C07 C01'),
    M('inverse-same-sign', PS, "(-1 if inverse else +1)", "(+1 if inverse else +1)", 'C16'),
    M('shift-in-place', PS, "points_t = np.copy(points)", "points_t = points", 'C16 C07'),
    M('shift-all-columns', PS, "            points_t[:, dim] = points_t[:, dim] % 1\n",
      "            points_t[:, :] = points_t[:, :] % 1\n", 'C16'),
    M('trim-keeps-flag', U, "            self.block = np.delete(self.block, index)\n", "",
      'C13 C07'),
    M('split-records-swapped', U,
      "        self.points_bounds.append(points[labels == 0])\n"
      "        self.points_bounds.append(points[labels == 1])\n",
      "        self.points_bounds.append(points[labels == 1])\n"
      "        self.points_bounds.append(points[labels == 0])\n", 'C13 C07'),
    M('split-no-reset', U, "        # Reset the sampling.\n        self.reset()\n", "",
      'C13 C07'),
    M('split-mutates-before-refusal', U,
      "        if not allow_overlap and ellipsoids_overlap(\n"
      "                self.bounds[:index] + self.bounds[index+1:] + new_bounds):\n"
      "            return False\n",
      "        old = self.bounds.pop(index)\n"
      "        if not allow_overlap and ellipsoids_overlap(\n"
      "                self.bounds + new_bounds):\n"
      "            return False\n        self.bounds.insert(index, old)\n", 'C13'),
    M('split-stale-volumes', U,
      "        self.bounds = self.bounds + new_bounds\n"
      "        self.log_v_all = np.array([bound.log_v for bound in self.bounds])\n",
      "        self.bounds = self.bounds + new_bounds\n", 'C13'),
    M('split-one-flag', U,
      "             [len(self.points_bounds[-2]) < 2 * self.n_points_min,\n"
      "              len(self.points_bounds[-1]) < 2 * self.n_points_min]))",
      "             [len(self.points_bounds[-1]) < 2 * self.n_points_min]))", 'C13'),
    M('pool-merge-misses-counter', N,
      "                    self.outer_bound.n_reject += bound.outer_bound.n_reject\n", "", 'C08'),
    M('pool-merge-crossed', N, "self.n_reject += bound.n_reject",
      "self.n_reject += bound.n_sample", 'C08'),
    M('rejections-before-thinning', U,
      "            points = points[self.rng.random(size=len(points)) > p]\n"
      "            self.points = np.vstack([self.points, points])\n\n"
      "            self.n_sample += n_sample\n"
      "            self.n_reject += n_sample - len(points)\n",
      "            self.n_sample += n_sample\n"
      "            self.n_reject += n_sample - len(points)\n"
      "            points = points[self.rng.random(size=len(points)) > p]\n"
      "            self.points = np.vstack([self.points, points])\n", 'C08'),
    M('no-overlap-correction', U,
      "            points = points[self.rng.random(size=len(points)) > p]\n", "", 'C08'),
    M('multiplicity-of-subset', U,
      "n_bound = np.sum([bound.contains(points) for bound in self.bounds],",
      "n_bound = np.sum([bound.contains(points) for bound in self.bounds[:1]],", 'C08'),
    M('uniform-allocation', U,
      "p = np.exp(np.array(self.log_v_all) - logsumexp(self.log_v_all))",
      "p = np.ones(len(self.bounds)) / len(self.bounds)", 'C08'),
    # ---------------- prior
    M('append-before-validate', PR,
      "        if key in self.keys:\n"
      "            raise ValueError(\"Key '{}' already in key list.\".format(key))\n",
      "        if key in self.keys:\n"
      "            raise ValueError(\"Key '{}' already in key list.\".format(key))\n"
      "        self.keys.append(key)\n", 'C15'),
    M('auto-key-unchecked', PR, "        if key in self.keys:\n            raise ValueError(\"Key",
      "        elif key in self.keys:\n            raise ValueError(\"Key", 'C15'),
    M('raises-keyerror', PR, "raise ValueError('Key {} not defined previously.'.format(dist))",
      "raise KeyError('Key {} not defined previously.'.format(dist))", 'C15'),
    M('dimensionality-counts-fixed', PR,
      "return sum(not isinstance(dist, (numbers.Number, str)) for dist in",
      "return sum(not isinstance(dist, str) for dist in", 'C15'),
    M('link-chain-unresolved', PR,
      "            while isinstance(self.dists[self.keys.index(dist)], str):\n"
      "                dist = self.dists[self.keys.index(dist)]\n", "", 'C15'),
    M('link-target-unchecked', PR,
      "            if dist not in self.keys:\n"
      "                raise ValueError('Key {} not defined previously.'.format(dist))\n", "",
      'C15'),
    M('reversed-declaration-order', PR, "        for dist in self.dists:\n            if "
      "hasattr(dist, 'isf'):\n                phys_points",
      "        for dist in reversed(self.dists):\n            if hasattr(dist, 'isf'):\n"
      "                phys_points", 'C15'),
    M('fixed-consumes-coordinate', PR,
      "                param_dict[key] = np.ones(phys_points.shape[:-1]) * dist\n",
      "                param_dict[key] = np.ones(phys_points.shape[:-1]) * dist\n"
      "                i = i + 1\n", 'C15'),
    M('dists-not-appended-for-link', PR,
      "        self.keys.append(key)\n        self.dists.append(dist)\n",
      "        self.keys.append(key)\n        if not isinstance(dist, str):\n"
      "            self.dists.append(dist)\n", 'C15'),
    # ---------------- rules added after the seeded rounds
    M('fallible-after-append', PR, "        self.keys.append(key)\n        self.dists.append(dist)\n",
      "        self.keys.append(key)\n        self.dists.append(dist if not isinstance(dist, tuple)"
      " else uniform(loc=dist[0], scale=dist[1]))\n", 'C15'),
    M('memoised-dimensionality', PR,
      "        return sum(not isinstance(dist, (numbers.Number, str)) for dist in\n"
      "                   self.dists)",
      "        if not hasattr(self, '_n'):\n"
      "            self._n = sum(not isinstance(dist, (numbers.Number, str)) for dist in\n"
      "                          self.dists)\n        return self._n", 'C15'),
    M('presence-predicate-differs', B, "        if np.any(bound.dim_cube):\n"
      "            bound.cube = UnitCube.read(group['cube'], rng=rng)",
      "        if np.all(bound.dim_cube):\n"
      "            bound.cube = UnitCube.read(group['cube'], rng=rng)", 'C09'),
    M('sweep-filters-attributes', NN, "                if key in ['coefs_', 'intercepts_']:",
      "                if key.startswith('_') or key in ['coefs_', 'intercepts_']:", 'C09'),
    M('update-conditional', U, "        group.attrs['n_sample'] = self.n_sample\n"
      "        group.attrs['n_reject'] = self.n_reject\n        group['points'].resize",
      "        group.attrs['n_sample'] = self.n_sample\n"
      "        group.attrs['n_reject'] = self.n_reject\n        if len(self.points) == 0:\n"
      "            return\n        group['points'].resize", 'C09 C05'),
    M('restore-by-group-iteration', S,
      "                for i in range(len(self.shell_n)):\n                    if fstream['bound_{}'.format(i)].attrs['type'] == 'UnitCube':\n                        self.bounds.append(UnitCube.read(\n                            fstream['bound_{}'.format(i)], rng=self.rng))\n                    else:\n                        self.bounds.append(NautilusBound.read(\n                            fstream['bound_{}'.format(i)], rng=self.rng))\n",
      "                for key in fstream:\n"
      "                    if key.startswith('bound_'):\n"
      "                        self.bounds.append(NautilusBound.read(\n"
      "                            fstream[key], rng=self.rng))\n", 'C05'),
    M('log-of-determinant', B, "np.linalg.slogdet(self.B)[1]", "np.log(np.linalg.det(self.B))",
      'C08'),
    M('log_l-clipped', S, "        self.n_like += len(log_l)\n",
      "        log_l = np.maximum(log_l, -1e300)\n        self.n_like += len(log_l)\n", 'C03'),
    M('statistics-of-other-slot', S, "self.shell_log_v[index] = (self.bounds[index].log_v +",
      "self.shell_log_v[index] = (self.bounds[-1].log_v +", 'C02'),
    M('association-first-bound', S,
      "for i, bound in reversed(list(enumerate(self.bounds[:n_max]))):",
      "for i, bound in enumerate(self.bounds[:n_max]):", 'C01'),
    M('rounding-from-copied-generator', S,
      "                self.rng.random(len(repeats)) < repeats - np.floor(repeats)",
      "                np.random.default_rng(0).random(len(repeats)) < repeats - "
      "np.floor(repeats)", 'C14'),
    M('run-overrides-setter', S, "        t_start = time()\n",
      "        t_start = time()\n        if self.explored:\n"
      "            self.discard_exploration = discard_exploration\n", 'C12'),
    M('generator-rebound-after-read', S,
      "                        self.bounds.append(NautilusBound.read(\n"
      "                            fstream['bound_{}'.format(i)], rng=self.rng))\n",
      "                        self.bounds.append(NautilusBound.read(\n"
      "                            fstream['bound_{}'.format(i)], rng=self.rng))\n"
      "                self.rng = np.random.default_rng(seed)\n", 'C11 C05'),
    M('setter-skips-unchanged', S,
      "        self._discard_exploration = discard_exploration\n        for index",
      "        if discard_exploration == self._discard_exploration:\n            return\n"
      "        self._discard_exploration = discard_exploration\n        for index", 'C02 C12'),
    M('all-underfilled-shells-at-once', S,
      "                shell = np.flatnonzero(self.shell_n < n_shell)[0]\n"
      "                self.add_samples(shell, verbose=verbose)\n"
      "                if self.filepath is not None:\n"
      "                    self.write_shell_update(self.filepath, shell)\n",
      "                for shell in np.flatnonzero(self.shell_n < n_shell):\n"
      "                    self.add_samples(shell, verbose=verbose)\n"
      "                    if self.filepath is not None:\n"
      "                        self.write_shell_update(self.filepath, shell)\n", 'C10'),
    M('split-loop-stops-early', S,
      "                in_bound = self.bounds[-1].contains(self.points[shell])\n",
      "                in_bound = self.bounds[-1].contains(self.points[shell])\n"
      "                if not np.any(in_bound):\n                    break\n", 'C01'),
    M('mixture-cube-unseeded', B,
      "bound.cube = UnitCube.compute(np.sum(bound.dim_cube), rng=rng)",
      "bound.cube = UnitCube.compute(np.sum(bound.dim_cube))", 'C11 C05'),
    M('neural-returns-score-test', NE,
      "        return in_bound\n\n    def write",
      "        return in_bound | (np.zeros(len(points)) > self.score_predict_min)\n\n"
      "    def write", 'C07'),
    M('deterministic-allocation', U, "n_per_bound = self.rng.multinomial(n_sample, p)",
      "n_per_bound = np.rint(n_sample * p).astype(int)", 'C08'),
    # ---------------- round 5 (bug hunt): regression mutants of the repaired defects D10-D16
    M('stub-installed-for-vectorized', S,
      "            elif (i == 0 and isinstance(pool[i], int) and\n                  not self.vectorized):",
      "            elif i == 0 and isinstance(pool[i], int):", 'C11'),
    M('stub-called-in-parent-scalar-path', S,
      "            elif (i == 0 and isinstance(pool[i], int) and\n                  not self.vectorized):",
      "            elif (i == 0 and isinstance(pool[i], int) and\n                  self.vectorized):", 'C11'),
    M('range-length-unchecked', PR,
      "            if len(dist) != 2:\n                raise ValueError(\"If 'dist' is a tuple, it must have two \" +\n"
      "                                 \"elements, the lower and the upper bound.\")\n", "", 'C15'),
    M('range-order-unchecked', PR,
      "            if not dist[0] < dist[1]:\n                raise ValueError(\"The upper bound of the range must be \" +\n"
      "                                 \"larger than the lower bound.\")\n", "", 'C15'),
    M('range-checked-after-conversion', PR,
      "            if len(dist) != 2:\n                raise ValueError(\"If 'dist' is a tuple, it must have two \" +\n"
      "                                 \"elements, the lower and the upper bound.\")\n"
      "            if not dist[0] < dist[1]:\n                raise ValueError(\"The upper bound of the range must be \" +\n"
      "                                 \"larger than the lower bound.\")\n"
      "            dist = uniform(loc=dist[0], scale=dist[1] - dist[0])\n",
      "            low, high = dist[0], dist[1]\n"
      "            dist = uniform(loc=dist[0], scale=dist[1] - dist[0])\n"
      "            if not low < high:\n                raise ValueError(\"The upper bound of the range must be \" +\n"
      "                                 \"larger than the lower bound.\")\n", 'C15'),
    M('physical-points-inherit-dtype', PR, "phys_points = np.zeros_like(points, dtype=float)",
      "phys_points = np.zeros_like(points)", 'C15'),
    M('physical-points-copy-of-input', PR, "phys_points = np.zeros_like(points, dtype=float)",
      "phys_points = np.copy(points)", 'C15'),
    M('sweep-oserror-not-tolerated', NN, "                except (TypeError, ValueError, OSError):",
      "                except (TypeError, ValueError):", 'C09 C05'),
    M('sweep-only-typeerror', NN, "                except (TypeError, ValueError, OSError):",
      "                except TypeError:", 'C09 C05'),
    M('resumed-flag-not-a-bool', S,
      "                self._discard_exploration = bool(self._discard_exploration)\n", "", 'C12'),
    M('resumed-flag-as-numpy-bool', S,
      "                self._discard_exploration = bool(self._discard_exploration)\n",
      "                self._discard_exploration = np.bool_(self._discard_exploration)\n", 'C12'),
    M('union-block-not-written', U, "        group.attrs['block'] = self.block\n", "", 'C09'),
    M('union-block-not-read', U,
      "        if 'block' in group.attrs:\n            bound.block = np.array(group.attrs['block'], dtype=bool)\n        else:\n",
      "        if False:\n            pass\n        else:\n", 'C09'),
    M('union-block-never-restored', U,
      "        if 'block' in group.attrs:\n            bound.block = np.array(group.attrs['block'], dtype=bool)\n"
      "        else:\n            # Files written by earlier versions do not have this information.\n"
      "            bound.block = np.array([\n                len(points) < 2 * bound.n_points_min for points in\n"
      "                bound.points_bounds])\n", "", 'C13 C09'),
    M('job-works-on-the-caller', N,
      "        bound = copy.deepcopy(self)\n        bound.reset(rng=rng)\n"
      "        bound.sample(n_points=n_points, return_points=False)\n        return bound\n",
      "        self.reset(rng=rng)\n"
      "        self.sample(n_points=n_points, return_points=False)\n        return self\n", 'C08 C03'),
    M('job-shallow-copy', N, "        bound = copy.deepcopy(self)\n", "        bound = copy.copy(self)\n", 'C08 C03'),
    M('rounding-draw-from-generator-copy', S,
      "            repeats = np.floor(repeats).astype(int) + (\n                self.rng.random(len(repeats))",
      "            rng = np.random.default_rng(self.rng.bit_generator.random_raw())\n"
      "            rng = np.random.default_rng(0)\n"
      "            repeats = np.floor(repeats).astype(int) + (\n                rng.random(len(repeats))", 'C14'),
    M('dispatch-relies-on-trichotomy', S, "            elif not self.n_eff >= n_eff:", "            elif self.n_eff < n_eff:", 'C10'),
    M('run-argument-not-validated', S,
      "        if not isinstance(discard_exploration, bool):\n            raise ValueError(\"'discard_exploration' must be a bool.\")\n\n        t_start = time()",
      "        t_start = time()", 'C12'),
    M('log-v-live-pairs-all-rows', S,
      "            log_l = np.concatenate(\n                [ll[s:] for ll, s in zip(self.log_l, start)])\n            log_v = np.repeat(\n                self.shell_log_v - np.log(np.maximum(self.shell_n, 1)),\n                self.shell_n)\n            log_v_live",
      "            log_l = np.concatenate(self.log_l)\n            log_v = np.repeat(\n                self.shell_log_v - np.log(np.maximum(self.shell_n, 1)),\n                self.shell_n)\n            log_v_live", 'C02 C12'),
    M('fixed-value-sized-from-first-column', PR, "np.ones(phys_points.shape[:-1]) * dist",
      "np.ones(phys_points[..., 0].shape) * dist", 'C15'),
    M('range-length-test-inverted', PR, "            if len(dist) != 2:", "            if len(dist) == 2:", 'C15'),
    M('range-order-admits-equal', PR, "            if not dist[0] < dist[1]:", "            if not dist[0] <= dist[1]:", 'C15'),
    M('range-order-test-inverted', PR, "            if not dist[0] < dist[1]:", "            if dist[0] < dist[1]:", 'C15'),
    M('optional-cube-written-unguarded', U,
      "        if self.cube is not None:\n            self.cube.write(group.create_group('cube'))",
      "        self.cube.write(group.create_group('cube'))", 'C09'),
    M('optional-shift-inverted-unguarded', N,
      "            if self.shift is not None:\n                points = self.shift.transform(points, inverse=True)",
      "            points = self.shift.transform(points, inverse=True)", 'C09'),
    M('legacy-block-rule-differs', U, "                len(points) < 2 * bound.n_points_min for points in",
      "                len(points) < bound.n_points_min for points in", 'C13'),
    M('emulator-count-not-written', NN, "        group.attrs['n_networks'] = len(self.neural_networks)\n", "", 'C09'),
    M('checkpoint-before-end-of-exploration', S,
      "                self.n_like_iter += self.n_batch\n\n                if self.f_live <= f_live:\n",
      "                self.n_like_iter += self.n_batch\n"
      "                if self.filepath is not None:\n"
      "                    if self.n_like == self.n_batch:\n"
      "                        self.write(self.filepath, overwrite=True)\n"
      "                    self.write_shell_update(self.filepath, -1)\n\n"
      "                if self.f_live <= f_live:\n", 'C05'),
    M('range-order-nan-passes', PR, "            if not dist[0] < dist[1]:", "            if dist[0] >= dist[1]:", 'C15'),
    M('range-order-nan-passes-unpacked', PR,
      "            if not dist[0] < dist[1]:\n                raise ValueError(\"The upper bound of the range must be \" +\n"
      "                                 \"larger than the lower bound.\")\n"
      "            dist = uniform(loc=dist[0], scale=dist[1] - dist[0])\n",
      "            lower, upper = dist\n"
      "            if lower >= upper:\n                raise ValueError(\"The upper bound of the range must be \" +\n"
      "                                 \"larger than the lower bound.\")\n"
      "            dist = uniform(loc=lower, scale=upper - lower)\n", 'C15'),
    # ---------------- seeding round 5: regression mutants for the rules it led to
    M('update-published-in-finally', S,
      "        fstream.close()\n        os.replace(filepath_tmp, filepath)\n\n    def write_shell_update",
      "        try:\n            pass\n        finally:\n            fstream.close()\n            os.replace(filepath_tmp, filepath)\n\n    def write_shell_update", 'C06 C05 C03 C02'),
    M('temp-file-exclusive-create', S, "        fstream = h5py.File(filepath_tmp, 'w')", "        fstream = h5py.File(filepath_tmp, 'x')", 'C06'),
    M('job-generators-spawned', N,
      "                rngs = [np.random.default_rng(seed) for seed in\n                        np.random.SeedSequence(self.rng.integers(\n                            2**32 - 1)).spawn(n_jobs)]\n",
      "                rngs = self.rng.spawn(n_jobs)\n", 'C05 C11 C03'),
    M('union-members-by-group-names', U,
      "        bound.bounds = [bound_class.read(\n            group['bound_{}'.format(i)], rng=bound.rng)\n            for i in range(len(bound.log_v_all))]\n",
      "        bound.bounds = [bound_class.read(group[key], rng=bound.rng)\n                        for key in group if key.startswith('bound_')]\n", 'C09 C07'),
    M('mixture-reset-early-return', B,
      "        if rng is not None:\n            if self.ellipsoid is not None:\n                self.ellipsoid.reset(rng)\n            if self.cube is not None:\n                self.cube.reset(rng)\n",
      "        if rng is None or self.ellipsoid is None:\n            return\n\n        self.ellipsoid.reset(rng)\n        if self.cube is not None:\n            self.cube.reset(rng)\n", 'C08 C11'),
    M('cache-prefix-written', N,
      "        group.create_dataset('points', data=self.points,\n",
      "        group.create_dataset('points', data=self.points[:10000],\n", 'C09'),
    M('flag-set-after-transition-write', S,
      "                    self.discard_exploration = discard_exploration\n                    if self.filepath is not None:\n                        self.write(self.filepath, overwrite=True)\n",
      "                    if self.filepath is not None:\n                        self.write(self.filepath, overwrite=True)\n                    self.discard_exploration = discard_exploration\n", 'C05 C12'),
    M('dictionary-clips-unit-points', PR,
      "        return self.physical_to_dictionary(self.unit_to_physical(points))",
      "        points = np.clip(points, 1e-16, 1 - 1e-16)\n        return self.physical_to_dictionary(self.unit_to_physical(points))", 'C15'),
    M('periodic-dropped-when-falsy', S, "        self.periodic = periodic\n",
      "        self.periodic = periodic if np.any(periodic) else None\n", 'C16'),
    M('shift-from-strictly-higher-points', N,
      "            bound.shift = PhaseShift.compute(points[log_l >= log_l_min],\n                                             periodic)\n",
      "            bound.shift = PhaseShift.compute(points[log_l > log_l_min],\n                                             periodic)\n", 'C16'),
    M('batch-size-restored-from-file', S,
      "                            'n_update_iter', 'n_like_iter']:\n                    setattr(self, key, group.attrs[key])",
      "                            'n_update_iter', 'n_like_iter', 'n_batch']:\n                    setattr(self, key, group.attrs[key])", 'C10 C05'),
    M('split-option-rebound-before-retry', U,
      "        if not allow_overlap and ellipsoids_overlap(\n                self.bounds[:index] + self.bounds[index+1:] + new_bounds):\n            return False\n",
      "        allow_overlap = allow_overlap or not ellipsoids_overlap(\n            self.bounds[:index] + self.bounds[index+1:] + new_bounds)\n        if not allow_overlap:\n            return False\n", 'C13'),
    M('top-up-by-value-threshold', U,
      "            labels[:] = 1 - label\n            labels[np.argsort(-p[:, label])[:self.n_points_min]] = label\n",
      "            p_min = np.partition(p[:, label], -self.n_points_min)[\n                -self.n_points_min]\n            labels = np.where(p[:, label] >= p_min, label, 1 - label)\n", 'C13'),
    # ---------------- seeding round 6
    M('kish-guard-all-finite', S, "            if not np.all(log_l == -np.inf):", "            if np.all(log_l > -np.inf):", 'C02'),
    M('n-eff-plain-max', S,
      "        sum_w = np.exp(self.shell_log_l + self.shell_log_v -\n                       np.nanmax(self.shell_log_l + self.shell_log_v))[select]",
      "        shell_log_z = self.shell_log_l + self.shell_log_v\n        sum_w = np.exp(shell_log_z - np.amax(shell_log_z))[select]", 'C02'),
    M('neural-bounds-see-unshifted-points', N,
      "        if self.shift is not None:\n            points = self.shift.transform(points)\n        in_bound = self.outer_bound.contains(points)\n",
      "        if self.shift is not None:\n            points_t = self.shift.transform(points)\n        else:\n            points_t = points\n        in_bound = self.outer_bound.contains(points_t)\n", 'C07 C08 C01'),
    M('emulator-restores-fitted-attributes-only', NN,
      "                if key.rsplit('_', 1)[1] == '{}'.format(i):\n                    setattr(network, key.rsplit('_', 1)[0], group.attrs[key])",
      "                name, index = key.rsplit('_', 1)\n                if index == '{}'.format(i) and name.endswith('_'):\n                    setattr(network, name, group.attrs[key])", 'C09 C07 C08'),
    M('union-points-written-for-unblocked-only', U,
      "        for i, points in enumerate(self.points_bounds):\n            group.create_dataset('points_bound_{}'.format(i), data=points)",
      "        for i, points in enumerate(self.points_bounds):\n            if not self.block[i]:\n                group.create_dataset('points_bound_{}'.format(i), data=points)", 'C09'),
    M('refused-split-not-blocked', U, "            self.block[index] = True\n            return self.split(allow_overlap=allow_overlap)",
      "            return self.split(allow_overlap=allow_overlap)", 'C13'),
    M('overlap-refusal-inverted', U, "        if not allow_overlap and ellipsoids_overlap(", "        if allow_overlap and ellipsoids_overlap(", 'C13'),
    M('job-returns-the-caller', N,
      "        bound.sample(n_points=n_points, return_points=False)\n        return bound\n",
      "        bound.sample(n_points=n_points, return_points=False)\n        return self\n", 'C08 C03'),
]
MUTANTS = [m for m in MUTANTS if m['props']]

ALL = 'C01 C02 C03 C05 C06 C07 C08 C09 C10 C11 C12 C13 C14 C15 C16'

BENIGN = [
    # ---------------- round 5: equivalent forms of the repaired code
    M('vectorized-test-first', S,
      "            elif (i == 0 and isinstance(pool[i], int) and\n                  not self.vectorized):",
      "            elif (not self.vectorized and i == 0 and\n                  isinstance(pool[i], int)):", ALL),
    M('range-checks-merged', PR,
      "            if len(dist) != 2:\n                raise ValueError(\"If 'dist' is a tuple, it must have two \" +\n"
      "                                 \"elements, the lower and the upper bound.\")\n"
      "            if not dist[0] < dist[1]:\n",
      "            if len(dist) != 2:\n                raise ValueError('A range has two elements.')\n"
      "            if not dist[0] < dist[1]:\n", ALL),
    M('physical-points-float64', PR, "phys_points = np.zeros_like(points, dtype=float)",
      "phys_points = np.zeros_like(points, dtype=np.float64)", ALL),
    M('physical-points-zeros-shape', PR, "phys_points = np.zeros_like(points, dtype=float)",
      "phys_points = np.zeros(points.shape)", ALL),
    M('physical-points-result-type', PR, "phys_points = np.zeros_like(points, dtype=float)",
      "phys_points = np.zeros_like(points, dtype=np.result_type(points, np.float64))", ALL),
    M('sweep-tolerates-everything', NN, "                except (TypeError, ValueError, OSError):",
      "                except Exception:", ALL),
    M('resumed-flag-compare', S,
      "                self._discard_exploration = bool(self._discard_exploration)\n",
      "                self._discard_exploration = bool(\n                    group.attrs['_discard_exploration'])\n", ALL),
    M('union-block-read-asarray', U,
      "            bound.block = np.array(group.attrs['block'], dtype=bool)\n",
      "            bound.block = np.asarray(group.attrs['block']).astype(bool)\n", ALL),
    M('dispatch-strict-greater', S, "            elif not self.n_eff >= n_eff:", "            elif not self.n_eff > n_eff:", ALL),
    M('dispatch-else', S, "            elif not self.n_eff >= n_eff:", "            else:", ALL),
    M('dispatch-not-parenthesised', S, "            elif not self.n_eff >= n_eff:", "            elif not (self.n_eff >= n_eff):", ALL),
    M('run-argument-typeerror', S,
      "        if not isinstance(discard_exploration, bool):\n            raise ValueError(\"'discard_exploration' must be a bool.\")\n\n        t_start = time()",
      "        if not isinstance(discard_exploration, bool):\n            raise TypeError(\"'discard_exploration' must be a bool.\")\n\n        t_start = time()", ALL),
    M('fixed-value-np-full', PR, "np.ones(phys_points.shape[:-1]) * dist",
      "np.full(phys_points.shape[:-1], dist, dtype=float)", ALL),
    M('range-order-swapped-operands', PR, "            if not dist[0] < dist[1]:", "            if not dist[1] > dist[0]:", ALL),
    M('range-length-positive-form', PR,
      "            if len(dist) != 2:\n                raise ValueError(",
      "            if not len(dist) == 2:\n                raise ValueError(", ALL),
    M('range-unpacked', PR,
      "            if not dist[0] < dist[1]:\n                raise ValueError(\"The upper bound of the range must be \" +\n"
      "                                 \"larger than the lower bound.\")\n"
      "            dist = uniform(loc=dist[0], scale=dist[1] - dist[0])\n",
      "            lower, upper = dist\n"
      "            if not lower < upper:\n                raise ValueError(\"The upper bound of the range must be \" +\n"
      "                                 \"larger than the lower bound.\")\n"
      "            dist = uniform(loc=lower, scale=upper - lower)\n", ALL),
    M('dictionary-asarray-first', PR,
      "        return self.physical_to_dictionary(self.unit_to_physical(points))",
      "        points = np.asarray(points)\n        return self.physical_to_dictionary(self.unit_to_physical(points))", ALL),
    M('update-closes-in-finally', S,
      "        fstream.close()\n        os.replace(filepath_tmp, filepath)\n\n    def write_shell_update",
      "        try:\n            pass\n        finally:\n            fstream.close()\n        os.replace(filepath_tmp, filepath)\n\n    def write_shell_update", ALL),
    M('periodic-presence-by-len', N, "        if periodic is not None:\n            bound.shift = PhaseShift.compute(",
      "        if periodic is not None and len(periodic) >= 0:\n            bound.shift = PhaseShift.compute(", ALL),
    M('kish-guard-any-finite', S, "            if not np.all(log_l == -np.inf):", "            if np.any(log_l > -np.inf):", ALL),
    M('emulator-restore-unpacked', NN,
      "                if key.rsplit('_', 1)[1] == '{}'.format(i):\n                    setattr(network, key.rsplit('_', 1)[0], group.attrs[key])",
      "                name, index = key.rsplit('_', 1)\n                if index == '{}'.format(i):\n                    setattr(network, name, group.attrs[key])", ALL),
    M('overlap-refusal-operands-swapped', U,
      "        if not allow_overlap and ellipsoids_overlap(\n                self.bounds[:index] + self.bounds[index+1:] + new_bounds):",
      "        if ellipsoids_overlap(\n                self.bounds[:index] + self.bounds[index+1:] + new_bounds) and not allow_overlap:", ALL),
    M('job-copy-renamed', N,
      "        bound = copy.deepcopy(self)\n        bound.reset(rng=rng)\n"
      "        bound.sample(n_points=n_points, return_points=False)\n        return bound\n",
      "        worker = copy.deepcopy(self)\n        worker.reset(rng=rng)\n"
      "        worker.sample(n_points=n_points, return_points=False)\n        return worker\n", ALL),
    M('rename-mask', S, "in_bound", "inside_new", ALL),          # every occurrence (see runner)
    M('append-to-concatenate', S,
      "self.points[shell] = np.append(self.points[shell], points, axis=0)",
      "self.points[shell] = np.concatenate((self.points[shell], points))", ALL),
    M('vstack-to-concatenate', U, "self.points = np.vstack([self.points, points])",
      "self.points = np.concatenate([self.points, points])", ALL),
    M('fstring-keys', S, "'points_{}'.format(shell)", "f'points_{shell}'", ALL),
    M('rename-temp-path', S, "filepath_tmp", "tmp_path", ALL),
    M('temp-path-via-str', S, "filepath_tmp = filepath.with_name(filepath.name + '.tmp')",
      "filepath_tmp = Path(str(filepath) + '.tmp')", ALL),
    M('later-bounds-equivalent-slice', S, "for bound in self.bounds[index:][1:]:",
      "for bound in self.bounds[index % len(self.bounds) + 1:]:", ALL),
    M('reorder-independent-appends', S,
      "            self.shell_n = np.append(self.shell_n, 0)\n"
      "            self.shell_n_sample = np.append(self.shell_n_sample, 0)\n",
      "            self.shell_n_sample = np.append(self.shell_n_sample, 0)\n"
      "            self.shell_n = np.append(self.shell_n, 0)\n", ALL),
    M('explicit-keys', B,
      "        for key in ['n_dim', 'c', 'A', 'B', 'B_inv']:\n"
      "            group.attrs[key] = getattr(self, key)\n",
      "        group.attrs['n_dim'] = self.n_dim\n        group.attrs['c'] = self.c\n"
      "        group.attrs['A'] = self.A\n        group.attrs['B'] = self.B\n"
      "        group.attrs['B_inv'] = self.B_inv\n", ALL),
    M('where-instead-of-modulo', PS, "            points_t[:, dim] = points_t[:, dim] % 1\n",
      "            points_t[:, dim] = np.where(points_t[:, dim] >= 1, 0.0, points_t[:, dim])\n",
      ALL),
    M('rename-flag', S, "success = True\n        else:\n            if verbose:",
      "success = True\n        else:\n            if verbose:", ALL),
    M('request-local', S,
      "                points = self.bounds[index].sample(\n"
      "                    self.n_batch - n_sample, pool=self.pool_s)\n"
      "                n_bound += self.n_batch - n_sample\n",
      "                n_request = self.n_batch - n_sample\n"
      "                points = self.bounds[index].sample(n_request, pool=self.pool_s)\n"
      "                n_bound += n_request\n", ALL),
    M('copy-method', S, "args = list(map(transform, np.copy(points)))",
      "args = list(map(transform, points.copy()))", ALL),
    M('flag-delete-before-volumes', U,
      "            self.log_v_all = np.array([bound.log_v for bound in self.bounds])\n"
      "            self.block = np.delete(self.block, index)\n",
      "            self.block = np.delete(self.block, index)\n"
      "            self.log_v_all = np.array([bound.log_v for bound in self.bounds])\n", ALL),
    M('augmented-and', N, "            in_bound = in_bound & np.any(",
      "            in_bound &= np.any(", ALL),
    M('count-by-batch-size', S, "self.n_like += len(log_l)", "self.n_like += self.n_batch", ALL),
    M('rename-shell-loop-var', S,
      "        for shell in range(len(self.bounds)):\n            group.create_dataset(\n"
      "                'points_{}'.format(shell), data=self.points[shell],",
      "        for shell in range(len(self.bounds)):\n            group.create_dataset(\n"
      "                'points_{}'.format(shell), data=self.points[shell],", ALL),
    M('docstring-and-comment', S, "        # Check which points points from previous shells "
      "could be transferred\n        # to the new bound.\n",
      "        # Move the points of earlier shells that the new bound contains into the\n"
      "        # transfer set.\n\n", ALL),
    M('split-long-line', S,
      "            success = (self.explored and np.all(self.shell_n >= n_shell) and\n"
      "                       self.n_eff >= n_eff)\n\n        if verbose:",
      "            success = (self.explored and\n"
      "                       np.all(self.shell_n >= n_shell) and\n"
      "                       self.n_eff >= n_eff)\n\n        if verbose:", ALL),
    M('os-rename', S,
      "        fstream.close()\n        os.replace(filepath_tmp, filepath)\n\n"
      "    def write_shell_update",
      "        fstream.close()\n        filepath_tmp.replace(filepath)\n\n"
      "    def write_shell_update", ALL),
    M('prior-not-in-order', PR, "            if dist not in self.keys:",
      "            if not (dist in self.keys):", ALL),
    M('min-of-shell-n', S, "np.all(self.shell_n >= n_shell)", "np.amin(self.shell_n) >= n_shell",
      ALL),
    M('success-first-also', S,
      "        success = (self.explored and np.all(self.shell_n >= n_shell) and\n"
      "                   self.n_eff >= n_eff)\n\n        while",
      "        success = (self.explored and np.all(self.shell_n >= n_shell) and\n"
      "                   self.n_eff >= n_eff)\n\n        while", ALL),
    M('multiplicity-renamed', U, "n_bound", "multiplicity", ALL),
    M('n-ell-generator', N, "return np.sum([np.any(~bound.dim_cube) for bound in",
      "return sum([bool(np.any(~bound.dim_cube)) for bound in", ALL),
]


def _with_statement(src):
    """Rewrite Sampler.write: `fstream = h5py.File(tmp, 'w')` ... `fstream.close()` becomes a
    with-block (the rename stays after it)."""
    a = src.index("        fstream = h5py.File(filepath_tmp, 'w')\n")
    b = src.index("        fstream.close()\n        os.replace(filepath_tmp, filepath)\n", a)
    body = src[a:b].split('\n')
    head = "        with h5py.File(filepath_tmp, 'w') as fstream:\n"
    new = head + '\n'.join(('    ' + l if l.strip() else l) for l in body[1:])
    return src[:a] + new + src[b + len("        fstream.close()\n"):]


def _early_return_style(src):
    """Union.trim: `if cond: ...; return True  else: return False` -> guard clause."""
    old = ("        if log_r[index] - np.median(np.delete(log_r, index)) < -np.log(\n"
           "                threshold):\n")
    a = src.index(old)
    b = src.index("        else:\n            return False\n", a)
    body = src[a + len(old):b]
    dedent = '\n'.join(l[4:] if l.startswith('            ') else l for l in body.split('\n'))
    new = ("        if not (log_r[index] - np.median(np.delete(log_r, index)) < -np.log(\n"
           "                threshold)):\n            return False\n") + dedent
    return src[:a] + new + src[b + len("        else:\n            return False\n"):]


def rename_locals(src, qualname):
    """Source transformer: rename every local variable (not parameters, not attributes) of
    one function/method by appending `_r`; the function is re-emitted with ast.unparse."""
    import ast
    import textwrap

    if True:
        tree = ast.parse(src)
        cls_name, _, meth = qualname.rpartition('.')
        target = None
        for n in ast.walk(tree):
            if isinstance(n, ast.ClassDef) and n.name == cls_name:
                for m in n.body:
                    if isinstance(m, ast.FunctionDef) and m.name == meth and not any(
                            isinstance(d, ast.Attribute) and d.attr == 'setter'
                            for d in m.decorator_list):
                        target = m
        if target is None:
            raise ValueError('function not found')
        params = {a.arg for a in target.args.args + target.args.kwonlyargs +
                  target.args.posonlyargs}
        if target.args.vararg:
            params.add(target.args.vararg.arg)
        if target.args.kwarg:
            params.add(target.args.kwarg.arg)
        assigned = set()
        for n in ast.walk(target):
            if isinstance(n, ast.Name) and isinstance(n.ctx, ast.Store):
                assigned.add(n.id)
        assigned -= params
        lines = src.split('\n')
        start = target.lineno - 1 - len(target.decorator_list)
        end = target.end_lineno
        indent = len(lines[target.lineno - 1]) - len(lines[target.lineno - 1].lstrip())

        class R(ast.NodeTransformer):
            def visit_Name(self, n):
                if n.id in assigned:
                    return ast.copy_location(ast.Name(id=n.id + '_r', ctx=n.ctx), n)
                return n
        new = R().visit(target)
        ast.fix_missing_locations(new)
        text = textwrap.indent(ast.unparse(new), ' ' * indent)
        return '\n'.join(lines[:start] + [text] + lines[end:])


def whole_file(src, kind):
    """Behaviour-preserving whole-file AST rewrites (the file is re-emitted by ast.unparse):
    'swap-and'      a & b -> b & a (boolean masks commute)
    'swap-branches' if c: A else: B -> if not c: B else: A
    'expand-aug'    x += y -> x = x + y  (names, attributes and subscripts)
    """
    import ast
    import copy
    tree = ast.parse(src)

    class SwapAnd(ast.NodeTransformer):
        def visit_BinOp(self, n):
            self.generic_visit(n)
            if isinstance(n.op, ast.BitAnd):
                n.left, n.right = n.right, n.left
            return n

    class SwapBranches(ast.NodeTransformer):
        def visit_If(self, n):
            self.generic_visit(n)
            if n.orelse and not (len(n.orelse) == 1 and isinstance(n.orelse[0], ast.If)):
                t = n.test
                if isinstance(t, ast.UnaryOp) and isinstance(t.op, ast.Not):
                    nt = t.operand
                else:
                    nt = ast.UnaryOp(op=ast.Not(), operand=t)
                return ast.copy_location(ast.If(test=nt, body=n.orelse, orelse=n.body), n)
            return n

    class ExpandAug(ast.NodeTransformer):
        def visit_AugAssign(self, n):
            self.generic_visit(n)
            load = copy.deepcopy(n.target)
            for sub in ast.walk(load):
                if hasattr(sub, 'ctx'):
                    sub.ctx = ast.Load()
            return ast.copy_location(ast.Assign(
                targets=[n.target], value=ast.BinOp(left=load, op=n.op, right=n.value)), n)

    class ConcatStyle(ast.NodeTransformer):
        def visit_Call(self, n):
            self.generic_visit(n)
            d = ast.unparse(n.func)
            if d == 'np.append' and len(n.args) == 2 and any(
                    k.arg == 'axis' and isinstance(k.value, ast.Constant) and k.value.value == 0
                    for k in n.keywords):
                return ast.copy_location(ast.Call(
                    func=n.func.__class__(value=n.func.value, attr='concatenate', ctx=ast.Load()),
                    args=[ast.Tuple(elts=list(n.args), ctx=ast.Load())], keywords=[]), n)
            if d == 'np.vstack' and len(n.args) == 1 and not n.keywords:
                n.func.attr = 'concatenate'
            return n

    class FStrings(ast.NodeTransformer):
        def visit_Call(self, n):
            self.generic_visit(n)
            if isinstance(n.func, ast.Attribute) and n.func.attr == 'format' and \
                    isinstance(n.func.value, ast.Constant) and \
                    isinstance(n.func.value.value, str) and not n.keywords and \
                    n.func.value.value.count('{}') == len(n.args) and \
                    '{' not in n.func.value.value.replace('{}', ''):
                parts = n.func.value.value.split('{}')
                vals = []
                for i, p_ in enumerate(parts):
                    if p_:
                        vals.append(ast.Constant(value=p_))
                    if i < len(n.args):
                        vals.append(ast.FormattedValue(value=n.args[i], conversion=-1))
                return ast.copy_location(ast.JoinedStr(values=vals), n)
            return n

    class Identity(ast.NodeTransformer):
        pass

    T = {'swap-and': SwapAnd, 'swap-branches': SwapBranches, 'expand-aug': ExpandAug,
         'concat-style': ConcatStyle, 'fstrings': FStrings, 'reformat': Identity}[kind]
    tree = T().visit(tree)
    ast.fix_missing_locations(tree)
    return ast.unparse(tree) + '\n'


_WHOLE = [(f_, k) for f_ in (S, U, N, B, PS, PR, NE) for k in ('swap-and', 'swap-branches',
                                                              'expand-aug')]
_WHOLE += [(f_, k) for f_ in (S, U, N, NN) for k in ('concat-style', 'fstrings')]
_WHOLE += [(f_, 'reformat') for f_ in (S, U, N, B, PS, PR, NE, NN, PO)]

_RENAME_TARGETS = [
    (S, 'Sampler.add_bound'), (S, 'Sampler.add_samples'), (S, 'Sampler.sample_shell'),
    (S, 'Sampler.run'), (S, 'Sampler.posterior'), (S, 'Sampler.evaluate_likelihood'),
    (S, 'Sampler.update_shell_info'), (S, 'Sampler.write'), (S, 'Sampler.write_shell_update'),
    (S, 'Sampler.shell_association'), (U, 'Union.split'), (U, 'Union.trim'),
    (U, 'Union.sample'), (U, 'Union.read'), (N, 'NautilusBound.sample'),
    (N, 'NautilusBound.contains'), (N, 'NautilusBound.compute'), (PS, 'PhaseShift.transform'),
    (PR, 'Prior.add_parameter'), (PR, 'Prior.physical_to_dictionary'),
    (NE, 'NeuralBound.contains'), (B, 'UnitCubeEllipsoidMixture.sample'),
    (N, 'NautilusBound._reset_and_sample'), (PR, 'Prior.unit_to_physical'),
    (S, 'Sampler.log_v_live'), (NN, 'NeuralNetworkEmulator.write'), (U, 'Union.write'),
]

BENIGN += [dict(id='%s:%s' % (k, f_.split('/')[-1]), file=f_, old='import', new=None,
                fn=('whole_file', k), props=ALL.split()) for f_, k in _WHOLE]

BENIGN += [dict(id='rename-locals:' + q, file=f_, old='def ' + q.split('.')[1], new=None,
                fn=('rename_locals', q), props=ALL.split()) for f_, q in _RENAME_TARGETS]

def _extract_removal_helper(src):
    """Sampler.run: the block that removes empty shells becomes a helper method."""
    a = src.index("                    if np.any(self.shell_n == 0):\n")
    b = src.index("                    self.shell_n_sample_exp = np.copy(self.shell_n_sample)")
    block = src[a:b]
    import textwrap
    body = textwrap.indent(textwrap.dedent(block), ' ' * 8)
    helper = ("    def _remove_empty_shells(self):\n"
              "        \"\"\"Remove shells without any points.\"\"\"\n" + body + "\n")
    src2 = src[:a] + "                    self._remove_empty_shells()\n\n" + src[b:]
    k = src2.index("    @property\n    def discard_exploration(self):")
    return src2[:k] + helper + src2[k:]


def _extract_checkpoint_helper(src):
    """Sampler.run: `if self.filepath is not None: self.write_shell_update(...)` in the two
    sampling-phase branches becomes a helper `_checkpoint(shell)`."""
    old = ("                self.add_samples(shell, verbose=verbose)\n"
           "                if self.filepath is not None:\n"
           "                    self.write_shell_update(self.filepath, shell)\n")
    new = ("                self.add_samples(shell, verbose=verbose)\n"
           "                self._checkpoint(shell)\n")
    assert src.count(old) == 2
    src2 = src.replace(old, new)
    helper = ("    def _checkpoint(self, shell):\n"
              "        \"\"\"Write the incremental update for one shell, if requested.\"\"\"\n"
              "        if self.filepath is not None:\n"
              "            self.write_shell_update(self.filepath, shell)\n\n")
    k = src2.index("    @property\n    def discard_exploration(self):")
    return src2[:k] + helper + src2[k:]


def _extract_ctor_helper(src):
    """Union: the set-up shared by compute() and read() moves into a private method that both
    constructors call on the object they are building."""
    blk = ("        bound.points = np.zeros((0, points.shape[1]))\n"
           "        bound.n_sample = 0\n"
           "        bound.n_reject = 0\n\n"
           "        if rng is None:\n"
           "            bound.rng = np.random.default_rng()\n"
           "        else:\n"
           "            bound.rng = rng\n")
    rblk = ("        bound = cls()\n\n"
            "        if rng is None:\n"
            "            bound.rng = np.random.default_rng()\n"
            "        else:\n"
            "            bound.rng = rng\n\n"
            "        for key in ['n_dim', 'log_v_all',")
    if blk not in src or rblk not in src or "    def reset(self, rng=None):" not in src:
        return src
    src = src.replace(blk, "        bound._start(points.shape[1], rng)\n", 1)
    src = src.replace(rblk, "        bound = cls()\n"
                      "        bound._start(group.attrs['n_dim'], rng)\n\n"
                      "        for key in ['n_dim', 'log_v_all',", 1)
    helper = ("    def _start(self, n_dim, rng):\n"
              "        self.points = np.zeros((0, n_dim))\n"
              "        self.n_sample = 0\n"
              "        self.n_reject = 0\n"
              "        if rng is None:\n"
              "            self.rng = np.random.default_rng()\n"
              "        else:\n"
              "            self.rng = rng\n\n")
    return src.replace("    def reset(self, rng=None):", helper + "    def reset(self, rng=None):", 1)


def _shared_key_list(src):
    """The per-shell statistic keys move into a module-level list that the incremental
    checkpoint update unpacks into its own key list."""
    old = ("        for key in ['n_like', '_discard_exploration', 'shell_n',\n"
           "                    'shell_n_sample', 'shell_n_eff', 'shell_log_l_min',\n"
           "                    'shell_log_l', 'shell_log_v', 'n_update_iter',\n"
           "                    'n_like_iter']:")
    if old not in src or "\nclass Sampler" not in src:
        return src
    src = src.replace(old, "        for key in ['n_like', '_discard_exploration', 'n_update_iter',\n"
                           "                    'n_like_iter', *SHELL_KEYS]:", 1)
    const = ("SHELL_KEYS = ['shell_n', 'shell_n_sample', 'shell_n_eff', 'shell_log_l_min',\n"
             "              'shell_log_l', 'shell_log_v']\n\n\n")
    return src.replace("\nclass Sampler", "\n" + const + "class Sampler", 1)


def _union_replace_helper(src):
    """Union: the record bookkeeping shared by split() and trim() moves into a private helper
    `_replace(index, bounds, points_bounds)`; both callers still reset the sampling."""
    a = ("        self.points_bounds.pop(index)\n"
         "        self.points_bounds.append(points[labels == 0])\n"
         "        self.points_bounds.append(points[labels == 1])\n"
         "        self.bounds.pop(index)\n"
         "        self.bounds = self.bounds + new_bounds\n"
         "        self.log_v_all = np.array([bound.log_v for bound in self.bounds])\n"
         "        self.block = np.concatenate(\n"
         "            (np.delete(self.block, index),\n"
         "             [len(self.points_bounds[-2]) < 2 * self.n_points_min,\n"
         "              len(self.points_bounds[-1]) < 2 * self.n_points_min]))\n")
    b = ("            self.points_bounds.pop(index)\n"
         "            self.bounds.pop(index)\n"
         "            self.log_v_all = np.array([bound.log_v for bound in self.bounds])\n"
         "            self.block = np.delete(self.block, index)\n")
    if a not in src or b not in src or "    def trim(self, threshold=1e3):" not in src:
        return src
    src = src.replace(a, "        self._replace(index, new_bounds,\n"
                         "                      [points[labels == 0], points[labels == 1]])\n", 1)
    src = src.replace(b, "            self._replace(index, [], [])\n", 1)
    helper = ("    def _replace(self, index, bounds, points_bounds):\n"
              "        self.points_bounds.pop(index)\n"
              "        self.points_bounds.extend(points_bounds)\n"
              "        self.bounds.pop(index)\n"
              "        self.bounds.extend(bounds)\n"
              "        self.log_v_all = np.array([bound.log_v for bound in self.bounds])\n"
              "        self.block = np.concatenate(\n"
              "            (np.delete(self.block, index),\n"
              "             np.array([len(points) < 2 * self.n_points_min for points in\n"
              "                       points_bounds], dtype=bool)))\n\n")
    return src.replace("    def trim(self, threshold=1e3):", helper + "    def trim(self, threshold=1e3):", 1)


def _union_replace_helper_no_reset(src):
    out = _union_replace_helper(src)
    return out.replace("            self._replace(index, [], [])\n            self.reset()\n",
                       "            self._replace(index, [], [])\n", 1)


def _union_split_in_place(src, typed=True):
    """Union.split: the first child takes the slot of the split member, the second is appended;
    log_v_all and block are patched instead of rebuilt.  With `typed` the array of log-volumes
    is created as float (benign); without, a union whose first member reports the int 0 gets an
    integer array and the patched volume is truncated (breaking)."""
    a = ("        self.points_bounds.pop(index)\n"
         "        self.points_bounds.append(points[labels == 0])\n"
         "        self.points_bounds.append(points[labels == 1])\n"
         "        self.bounds.pop(index)\n"
         "        self.bounds = self.bounds + new_bounds\n"
         "        self.log_v_all = np.array([bound.log_v for bound in self.bounds])\n"
         "        self.block = np.concatenate(\n"
         "            (np.delete(self.block, index),\n"
         "             [len(self.points_bounds[-2]) < 2 * self.n_points_min,\n"
         "              len(self.points_bounds[-1]) < 2 * self.n_points_min]))\n")
    c = "        bound.log_v_all = np.array([bound.bounds[0].log_v])\n"
    if a not in src or c not in src:
        return src
    b = ("        self.points_bounds[index] = points[labels == 0]\n"
         "        self.points_bounds.append(points[labels == 1])\n"
         "        self.bounds[index] = new_bounds[0]\n"
         "        self.bounds.append(new_bounds[1])\n"
         "        self.log_v_all[index] = new_bounds[0].log_v\n"
         "        self.log_v_all = np.append(self.log_v_all, new_bounds[1].log_v)\n"
         "        self.block[index] = np.sum(labels == 0) < 2 * self.n_points_min\n"
         "        self.block = np.append(\n"
         "            self.block, np.sum(labels == 1) < 2 * self.n_points_min)\n")
    src = src.replace(a, b, 1)
    if typed:
        src = src.replace(c, "        bound.log_v_all = np.array([bound.bounds[0].log_v], "
                             "dtype=float)\n", 1)
        src = src.replace("np.array([bound.log_v for bound in self.bounds])",
                          "np.array([bound.log_v for bound in self.bounds], dtype=float)")
    return src


BENIGN += [
    dict(id='extract-removal-helper', file=S, old="if np.any(self.shell_n == 0):", new=None,
         fn=_extract_removal_helper, props=ALL.split()),
    dict(id='extract-checkpoint-helper', file=S, old="self.write_shell_update(self.filepath, shell)",
         new=None, fn=_extract_checkpoint_helper, props=ALL.split()),
    dict(id='extract-ctor-helper', file=U, old="        bound.points = np.zeros((0, points.shape[1]))",
         new=None, fn=_extract_ctor_helper, props=ALL.split()),
    dict(id='thinning-by-named-mask', file=U,
         old="            points = points[self.rng.random(size=len(points)) > p]\n"
             "            self.points = np.vstack([self.points, points])\n\n"
             "            self.n_sample += n_sample\n"
             "            self.n_reject += n_sample - len(points)",
         new="            keep = self.rng.random(size=len(points)) > p\n"
             "            self.points = np.vstack([self.points, points[keep]])\n\n"
             "            self.n_sample += n_sample\n"
             "            self.n_reject += n_sample - np.sum(keep)", props=ALL.split()),
    dict(id='binv-recomputed-as-constructed', file=B,
         old="        for key in ['n_dim', 'c', 'A', 'B', 'B_inv']:\n"
             "            setattr(bound, key, group.attrs[key])\n",
         new="        for key in ['n_dim', 'c', 'A', 'B']:\n"
             "            setattr(bound, key, group.attrs[key])\n"
             "        bound.B_inv = np.linalg.inv(bound.B)\n", props=ALL.split()),
    dict(id='gaps-diff-of-extended', file=PS, old="dx = np.append(np.diff(x), x[0] - (x[-1] - 1))",
         new="dx = np.diff(np.append(x, x[0] + 1))", props=ALL.split()),
    dict(id='gaps-diff-append-kw', file=PS, old="dx = np.append(np.diff(x), x[0] - (x[-1] - 1))",
         new="dx = np.diff(x, append=x[0] + 1)", props=ALL.split()),
    dict(id='centre-reordered', file=PS, old="x[np.argmax(dx)] + np.amax(dx) / 2.0 + 0.5) % 1",
         new="0.5 + np.amax(dx) * 0.5 + x[np.argmax(dx)]) % 1", props=ALL.split()),
    dict(id='centre-minus-half', file=PS, old="x[np.argmax(dx)] + np.amax(dx) / 2.0 + 0.5) % 1",
         new="x[np.argmax(dx)] + dx[np.argmax(dx)] / 2 - 0.5) % 1", props=ALL.split()),
    dict(id='rounding-floor-of-sum', file=S,
         old="            repeats = np.floor(repeats).astype(int) + (\n"
             "                self.rng.random(len(repeats)) < repeats - np.floor(repeats)\n"
             "            ).astype(int)",
         new="            repeats = np.floor(repeats + self.rng.random(len(repeats))).astype(int)",
         props=ALL.split()),
    dict(id='rounding-frac-by-modulo', file=S,
         old="self.rng.random(len(repeats)) < repeats - np.floor(repeats)",
         new="repeats % 1 > self.rng.random(len(repeats))", props=ALL.split()),
    dict(id='mask-when-boost-at-most-one', file=S,
         old=("            points = np.repeat(points, repeats, axis=0)\n"
      "            log_w = np.zeros(np.sum(repeats))\n"
      "            log_l = np.repeat(log_l, repeats, axis=0)\n"
      "            if return_blobs:\n"
      "                blobs = np.repeat(blobs, repeats, axis=0)\n"),
         new=("            if equal_weight_boost > 1:\n"
      "                select = np.repeat(np.arange(len(repeats)), repeats)\n"
      "            else:\n"
      "                select = repeats > 0\n"
      "            points = points[select]\n"
      "            log_w = np.zeros(len(points))\n"
      "            log_l = log_l[select]\n"
      "            if return_blobs:\n"
      "                blobs = blobs[select]\n"), props=ALL.split()),
    dict(id='kept-fraction-as-difference', file=S, old="np.log(shell_n / shell_n_sample))",
         new="np.log(shell_n) - np.log(shell_n_sample))", props=ALL.split()),
    dict(id='mean-likelihood-inside-lse', file=S,
         old="self.shell_log_l[index] = logsumexp(log_l) - np.log(shell_n)",
         new="self.shell_log_l[index] = logsumexp(log_l - np.log(shell_n))", props=ALL.split()),
    dict(id='neff-inlined-denominator', file=S,
         old="        return np.sum(sum_w)**2 / np.sum(sum_w_sq)",
         new="        return np.sum(sum_w) ** 2 / np.sum(sum_w ** 2 / self.shell_n_eff[select])",
         props=ALL.split()),
    dict(id='weights-normalised-in-place', file=S, old="        log_w = log_w - logsumexp(log_w)",
         new="        log_w -= logsumexp(log_w)", props=ALL.split()),
    dict(id='volume-half-n-log-pi', file=B,
         old="self.n_dim * np.log(2.) +\n                self.n_dim * gammaln(1.5)",
         new="self.n_dim / 2 * np.log(np.pi)", props=ALL.split()),
    dict(id='union-fraction-as-quotient', file=U,
         old="            1.0 - self.n_reject / self.n_sample)",
         new="            (self.n_sample - self.n_reject) / self.n_sample)", props=ALL.split()),
    dict(id='direction-by-linalg-norm', file=B,
         old="points = points / np.sqrt(np.sum(points**2, axis=1))[:, np.newaxis]",
         new="points /= np.linalg.norm(points, axis=1)[:, np.newaxis]", props=ALL.split()),
    dict(id='compute-vectorised', file=PS, old='        bound.centers = np.zeros(len(periodic))\n\n        for i, dim in enumerate(periodic):\n            x = np.sort(points[:, dim])\n            dx = np.append(np.diff(x), x[0] - (x[-1] - 1))\n            bound.centers[i] = (\n                x[np.argmax(dx)] + np.amax(dx) / 2.0 + 0.5) % 1\n', new='        x = np.sort(points[:, periodic], axis=0)\n        dx = np.append(np.diff(x, axis=0), x[:1] - (x[-1:] - 1), axis=0)\n        i_max = np.argmax(dx, axis=0)[np.newaxis]\n        bound.centers = (\n            np.take_along_axis(x, i_max, axis=0)[0] + np.amax(dx, axis=0) / 2.0 +\n            0.5) % 1\n', props=ALL.split()),
    dict(id='transform-vectorised', file=PS, old='        for i, dim in enumerate(self.periodic):\n            points_t[:, dim] = (points_t[:, dim] + (-1 if inverse else +1) *\n                                (-self.centers[i] + 0.5)) % 1\n            # The modulo of a tiny negative number rounds to exactly 1.\n            points_t[:, dim] = points_t[:, dim] % 1\n', new='        points_t[:, self.periodic] = (\n            points_t[:, self.periodic] + (-1 if inverse else +1) *\n            (-self.centers + 0.5)) % 1\n        points_t[:, self.periodic] = points_t[:, self.periodic] % 1\n', props=ALL.split()),
    dict(id='shared-key-list', file=S, old="for key in ['n_like', '_discard_exploration', 'shell_n',",
         new=None, fn=_shared_key_list, props=ALL.split()),
    dict(id='bulk-deletion-of-statistics', file=S, old="                        for shell in np.flatnonzero(self.shell_n == 0)[::-1]:\n                            self.bounds.pop(shell)\n                            self.points.pop(shell)\n                            self.log_l.pop(shell)\n                            if self.blobs is not None:\n                                self.blobs.pop(shell)\n                            for key in ['shell_n', 'shell_n_sample',\n                                        'shell_n_eff', 'shell_log_l_min',\n                                        'shell_log_l', 'shell_log_v']:\n                                setattr(self, key, np.delete(\n                                    getattr(self, key), shell))\n",
         new="                        empty = np.flatnonzero(self.shell_n == 0)\n                        for shell in empty[::-1]:\n                            self.bounds.pop(shell)\n                            self.points.pop(shell)\n                            self.log_l.pop(shell)\n                            if self.blobs is not None:\n                                self.blobs.pop(shell)\n                        for key in ['shell_n', 'shell_n_sample',\n                                    'shell_n_eff', 'shell_log_l_min',\n                                    'shell_log_l', 'shell_log_v']:\n                            setattr(self, key, np.delete(\n                                getattr(self, key), empty))\n", props=ALL.split()),
    dict(id='split-volume-test-mirrored', file=U, old="        if (logsumexp([new_bounds[0].log_v, new_bounds[1].log_v]) >\n                self.bounds[index].log_v):",
         new="        if (self.bounds[index].log_v < logsumexp([b.log_v for b in new_bounds])):",
         props=ALL.split()),
    dict(id='top-up-threshold-strict-form', file=U, old="n_labels >= self.n_points_min):",
         new="n_labels > self.n_points_min - 1):", props=ALL.split()),
    dict(id='mixture-transform-copy-by-array', file=B, old="        points_t = np.copy(points)\n",
         new="        points_t = np.array(points, dtype=float)\n", props=ALL.split()),
    dict(id='new-shell-rows-empty-call', file=S, old="            self.log_l.append(np.zeros(0))",
         new="            self.log_l.append(np.empty(0))", props=ALL.split()),
    dict(id='new-shell-count-as-list', file=S,
         old="self.shell_n_sample = np.append(self.shell_n_sample, 0)",
         new="self.shell_n_sample = np.append(self.shell_n_sample, [0])", props=ALL.split()),
    dict(id='neff-square-by-product', file=S, old="        return np.sum(sum_w)**2 / np.sum(sum_w_sq)",
         new="        s1 = np.sum(sum_w)\n        return s1 * s1 / np.sum(sum_w_sq)",
         props=ALL.split()),
    dict(id='acceptance-direct-form', file=U, old="            p = 1 - 1.0 / n_bound\n"
         "            points = points[self.rng.random(size=len(points)) > p]",
         new="            points = points[self.rng.random(size=len(points)) < 1 / n_bound]",
         props=ALL.split()),
    dict(id='reader-range-explicit-zero', file=U,
         old="            for i in range(len(bound.log_v_all))]",
         new="            for i in range(0, len(bound.log_v_all))]", props=ALL.split()),
    dict(id='prior-ppf-form', file=PR, old="dist.isf(1 - points[..., i])",
         new="dist.ppf(points[..., i])", props=ALL.split()),
    dict(id='uniform-positional', file=PR, old="dist = uniform(loc=dist[0], scale=dist[1] - dist[0])",
         new="dist = uniform(dist[0], dist[1] - dist[0])", props=ALL.split()),
    dict(id='union-replace-helper', file=U, old="            self.block = np.delete(self.block, index)",
         new=None, fn=_union_replace_helper, props=ALL.split()),
    dict(id='union-split-in-place', file=U, old="        self.bounds = self.bounds + new_bounds",
         new=None, fn=('_union_split_in_place', True), props=ALL.split()),
    dict(id='hoisted-sign-two-stores', file=PS, old='        for i, dim in enumerate(self.periodic):\n            points_t[:, dim] = (points_t[:, dim] + (-1 if inverse else +1) *\n                                (-self.centers[i] + 0.5)) % 1\n            # The modulo of a tiny negative number rounds to exactly 1.\n            points_t[:, dim] = points_t[:, dim] % 1\n',
         new="        sign = -1 if inverse else +1\n"
             "        for i, dim in enumerate(self.periodic):\n"
             "            shift = sign * (0.5 - self.centers[i])\n"
             "            points_t[:, dim] = (points_t[:, dim] + shift) % 1\n"
             "            points_t[:, dim] = points_t[:, dim] % 1\n", props=ALL.split()),
    dict(id='gap-index-in-a-local', file=PS, old="            bound.centers[i] = (\n                x[np.argmax(dx)] + np.amax(dx) / 2.0 + 0.5) % 1",
         new="            k = np.argmax(dx)\n            bound.centers[i] = (x[k] + dx[k] / 2.0 + 0.5) % 1",
         props=ALL.split()),
    dict(id='with-statement', file=S, old="fstream = h5py.File(filepath_tmp, 'w')", new=None,
         fn=_with_statement, props=ALL.split()),
    dict(id='guard-clause-trim', file=U, old="            return False\n\n    def contains",
         new=None, fn=_early_return_style, props=ALL.split()),
]

# ---- round 7 (data-level faults): DESIGN 10.18 -------------------------------------------------
_EQW_OLD = ("            repeats = np.exp(log_w - np.amax(log_w)) * equal_weight_boost\n"
            "            repeats = np.floor(repeats).astype(int) + (\n"
            "                self.rng.random(len(repeats)) < repeats - np.floor(repeats)\n"
            "            ).astype(int)\n"
            "            points = np.repeat(points, repeats, axis=0)\n"
            "            log_w = np.zeros(np.sum(repeats))\n"
            "            log_l = np.repeat(log_l, repeats, axis=0)\n"
            "            if return_blobs:\n"
            "                blobs = np.repeat(blobs, repeats, axis=0)\n")


def _eqw_new(base):
    return ("            select = np.flatnonzero(log_w > -np.inf)\n"
            "            repeats = (np.exp(log_w[select] - np.amax(log_w)) *\n"
            "                       equal_weight_boost)\n"
            "            repeats = np.floor(repeats).astype(int) + (\n"
            "                self.rng.random(len(repeats)) < repeats - np.floor(repeats)\n"
            "            ).astype(int)\n"
            "            index = np.repeat(%s, repeats)\n"
            "            points = points[index]\n"
            "            log_w = np.zeros(len(index))\n"
            "            log_l = log_l[index]\n"
            "            if return_blobs:\n"
            "                blobs = blobs[index]\n" % base)


MUTANTS += [
    M('counters-reset-after-the-new-bound-write', S,
      "                    self.n_update_iter = 0\n                    self.n_like_iter = 0\n"
      "                    if self.filepath is not None:\n"
      "                        self.write(self.filepath, overwrite=True)\n",
      "                    if self.filepath is not None:\n"
      "                        self.write(self.filepath, overwrite=True)\n"
      "                    self.n_update_iter = 0\n                    self.n_like_iter = 0\n",
      'C05'),
    M('phase-shift-written-sorted', PS, "        group.attrs['periodic'] = self.periodic\n",
      "        group.attrs['periodic'] = np.sort(self.periodic)\n", 'C09 C16 C05'),
    M('phase-shift-read-unique', PS, "        bound.periodic = group.attrs['periodic']\n",
      "        bound.periodic = np.unique(group.attrs['periodic']).astype(int)\n", 'C09 C16 C05'),
    M('equal-weight-index-into-the-selection', S, _EQW_OLD, _eqw_new('np.arange(len(select))'),
      'C14'),
    M('fixed-value-cast-to-input-dtype', PR,
      "                param_dict[key] = np.ones(phys_points.shape[:-1]) * dist\n",
      "                param_dict[key] = np.full(phys_points.shape[:-1], dist,\n"
      "                                          dtype=phys_points.dtype)\n", 'C15'),
    M('type-gate-isscalar', PR,
      "        elif isinstance(dist, numbers.Number) or hasattr(dist, 'isf'):\n",
      "        elif np.isscalar(dist) or hasattr(dist, 'isf'):\n", 'C15'),
    M('trim-median-includes-the-candidate', U,
      "        if log_r[index] - np.median(np.delete(log_r, index)) < -np.log(\n"
      "                threshold):\n",
      "        if log_r[index] - np.median(log_r) < -np.log(threshold):\n", 'C13'),
    M('exploration-counts-aliased', S,
      "                    self.shell_n_sample_exp = np.copy(self.shell_n_sample)\n",
      "                    self.shell_n_sample_exp = self.shell_n_sample\n", 'C12 C02'),
    M('exploration-counts-asarray', S,
      "                    self.shell_n_sample_exp = np.copy(self.shell_n_sample)\n",
      "                    self.shell_n_sample_exp = np.asarray(self.shell_n_sample)\n",
      'C12 C02'),
    M('configured-minimum-not-handed-on', S, "                        n_points_min=self.n_points_min,\n", "", 'C13'),
    M('periodic-set-not-handed-on', S, "                        periodic=self.periodic,\n", "", 'C16'),
    M('n-eff-zero-when-some-shell-is-empty', S, "        if np.all(self.shell_n_eff == 0):\n            return 0\n",
      "        if np.any(self.shell_n_eff == 0):\n            return 0\n", 'C02'),
    M('split-candidate-argmin', U, "        index = np.argmax(np.where(~self.block, self.log_v_all, -np.inf))",
      "        index = np.argmin(np.where(~self.block, self.log_v_all, -np.inf))", 'C13'),
    M('top-up-only-when-both-small', U, "        if not np.all(n_labels >= self.n_points_min):",
      "        if not np.any(n_labels >= self.n_points_min):", 'C13'),
    M('top-up-fills-the-larger-cluster', U, "            label = np.argmin(n_labels)\n",
      "            label = np.argmax(n_labels)\n", 'C13'),
    M('trim-candidate-argmax', U, "        index = np.argmin(log_r)\n", "        index = np.argmax(log_r)\n", 'C13'),
    M('neural-members-reduced-over-points', N,
      "                [bound.contains(points) for bound in self.neural_bounds],\n                axis=0)",
      "                [bound.contains(points) for bound in self.neural_bounds],\n                axis=1)", 'C07 C08 C01'),
    M('one-seed-for-all-jobs', N, "2**32 - 1)).spawn(n_jobs)]", "2**32 - 1)).spawn(1) * n_jobs]", 'C08'),
    M('construction-points-written-as-float32', U,
      "            group.create_dataset('points_bound_{}'.format(i), data=points)",
      "            group.create_dataset('points_bound_{}'.format(i), data=points,\n                                 dtype=np.float32)", 'C07 C09 C05'),
    M('prune-guard-all-empty', S, "                    if np.any(self.shell_n == 0):\n",
      "                    if np.all(self.shell_n == 0):\n", 'C12'),
]

BENIGN += [
    dict(id='phase-shift-written-asarray', file=PS,
         old="        group.attrs['periodic'] = self.periodic\n",
         new="        group.attrs['periodic'] = np.asarray(self.periodic)\n", props=ALL.split()),
    dict(id='equal-weight-selected-rows', file=S, old=_EQW_OLD, new=_eqw_new('select'),
         props=ALL.split()),
    dict(id='fixed-value-full-float', file=PR,
         old="                param_dict[key] = np.ones(phys_points.shape[:-1]) * dist\n",
         new="                param_dict[key] = np.full(phys_points.shape[:-1], dist,\n"
             "                                          dtype=float)\n", props=ALL.split()),
    dict(id='trim-reference-by-mask', file=U,
         old="        if log_r[index] - np.median(np.delete(log_r, index)) < -np.log(\n"
             "                threshold):\n",
         new="        others = log_r[np.arange(len(log_r)) != index]\n"
             "        if log_r[index] - np.median(others) < -np.log(threshold):\n",
         props=ALL.split()),
    dict(id='exploration-counts-copy-method', file=S,
         old="                    self.shell_n_sample_exp = np.copy(self.shell_n_sample)\n",
         new="                    self.shell_n_sample_exp = self.shell_n_sample.copy()\n",
         props=ALL.split()),
    dict(id='n-eff-zero-guard-not-any-positive', file=S,
         old="        if np.all(self.shell_n_eff == 0):\n            return 0\n",
         new="        if not np.any(self.shell_n_eff > 0):\n            return 0\n", props=ALL.split()),
    dict(id='split-candidate-argmin-of-negated', file=U,
         old="        index = np.argmax(np.where(~self.block, self.log_v_all, -np.inf))",
         new="        index = np.argmin(np.where(~self.block, -self.log_v_all, np.inf))",
         props=ALL.split()),
    dict(id='top-up-trigger-any-below', file=U,
         old="        if not np.all(n_labels >= self.n_points_min):",
         new="        if np.any(n_labels < self.n_points_min):", props=ALL.split()),
    dict(id='prune-guard-any-method', file=S,
         old="                    if np.any(self.shell_n == 0):\n",
         new="                    if (self.shell_n == 0).any():\n", props=ALL.split()),
]

MUTANTS.append(dict(id='union-replace-helper-trim-without-reset', file=U,
                    old="            self.block = np.delete(self.block, index)", new=None,
                    fn=_union_replace_helper_no_reset, props='C01 C07 C08 C13'.split()))

MUTANTS.append(dict(id='union-split-in-place-integer-volumes', file=U,
                    old="        self.bounds = self.bounds + new_bounds", new=None,
                    fn=('_union_split_in_place', False), props='C08'.split()))

# entries that replace every occurrence of `old`
REPLACE_ALL = {'rename-mask', 'fstring-keys', 'rename-temp-path', 'multiplicity-renamed',
               'min-of-shell-n'}
BENIGN = [b for b in BENIGN if b['old'] != b['new']]

"""Receiver typing, call resolution and effect summaries (DESIGN.md 2.2, E3).

Types are inferred from the constructors of the package itself
(`bound = cls()`, `bound.attr = Class.compute(...)`, list appends) -- there is no type
checker in this sandbox.  A call on an untyped receiver is resolved by method name to
every class defining it (class-hierarchy style over-approximation).
"""
import ast

from .core import AnalysisError
from .exprs import dotted, walk_no_nested, root_attr, call_name

MUTATORS = {'append', 'pop', 'extend', 'insert', 'remove', 'clear', 'sort', 'reverse',
            'resize', 'fill', 'update', 'setdefault', 'popitem', 'put', 'itemset', 'partition',
            'shuffle'}
# methods of a numpy Generator that consume random numbers
DRAWS = {'random', 'normal', 'uniform', 'integers', 'choice', 'multinomial', 'shuffle',
         'permutation', 'permuted', 'standard_normal', 'exponential', 'beta', 'gamma',
         'binomial', 'poisson', 'bytes', 'multivariate_normal', 'dirichlet', 'triangular',
         'spawn', 'standard_exponential', 'standard_gamma', 'standard_cauchy', 'standard_t',
         'laplace', 'logistic', 'lognormal', 'rayleigh', 'weibull', 'geometric',
         'hypergeometric', 'negative_binomial', 'chisquare', 'f', 'vonmises', 'wald', 'zipf',
         'pareto', 'power', 'gumbel', 'logseries', 'noncentral_chisquare', 'noncentral_f',
         'multivariate_hypergeometric'}

EXTERNAL_ROOTS = {'np', 'numpy', 'h5py', 'os', 'shutil', 'warnings', 'itertools', 'ast',
                  'scipy', 'sklearn', 'math', 'time', 'numbers', 'tempfile', 'sys', 'json'}

# Frozen floor of the attribute-type table (DESIGN.md 2.2, confirmed by reading).
TYPE_FLOOR = {
    ('Sampler', 'bounds'): {'UnitCube', 'NautilusBound'},
    ('NautilusBound', 'outer_bound'): {'Union'},
    ('NautilusBound', 'neural_bounds'): {'NeuralBound'},
    ('NautilusBound', 'shift'): {'PhaseShift'},
    ('NeuralBound', 'outer_bound'): {'Ellipsoid'},
    ('NeuralBound', 'emulator'): {'NeuralNetworkEmulator'},
    ('Union', 'bounds'): {'Ellipsoid', 'UnitCubeEllipsoidMixture'},
    ('Union', 'cube'): {'UnitCube'},
    ('UnitCubeEllipsoidMixture', 'cube'): {'UnitCube'},
    ('UnitCubeEllipsoidMixture', 'ellipsoid'): {'Ellipsoid'},
    ('Sampler', 'pool_l'): {'NautilusPool'},
    ('Sampler', 'pool_s'): {'NautilusPool'},
}

# (function qualname, parameter) -> classes, for parameters whose class cannot be
# inferred from a constructor (confirmed by reading the call sites).
PARAM_TYPES = {
    ('NautilusBound.compute', 'pool'): {'NautilusPool'},
    ('NautilusBound.sample', 'pool'): {'NautilusPool'},
    ('NeuralBound.compute', 'pool'): {'NautilusPool'},
    ('NeuralNetworkEmulator.train', 'pool'): {'NautilusPool'},
    ('UnitCube.sample', 'pool'): {'NautilusPool'},
}


class Summary:
    def __init__(self):
        self.writes = set()     # (cls, attr, kind)  kind: assign elem aug mutcall del
        self.reads = set()      # (cls, attr)
        self.draws = []         # (where, text, FuncInfo)
        self.calls = []         # (call/attr node, [FuncInfo], status)
        self.unresolved = []    # call nodes
        self.prints = 0

    def wattrs(self, cls=None):
        return {(c, a) for c, a, k in self.writes if cls is None or c == cls}


class Resolver:
    def __init__(self, prog):
        self.prog = prog
        self.attr_types = {}
        self.local_types = {}       # (qualname) -> {name: set(classes)}
        self._direct = {}
        self._trans = {}
        self.stats = {'typed': 0, 'byname': 0, 'external': 0, 'unknown': 0}
        self._method_names = {}
        self._prop_names = {}
        for f in prog.functions.values():
            if f.cls is None:
                continue
            if f.kind == 'property':
                self._prop_names.setdefault(f.name, []).append(f)
            elif f.kind != 'setter':
                self._method_names.setdefault(f.name, []).append(f)
        self._infer_attr_types()

    # ------------------------------------------------------------------ typing
    def _ctor_class(self, func, call):
        """Class produced by a constructor-like call, or None."""
        fn = call.func
        if isinstance(fn, ast.Name):
            if fn.id == 'cls' and func.cls is not None and func.kind == 'classmethod':
                return {func.cls.name}
            if fn.id in self.prog.classes:
                return {fn.id}
            return None
        if isinstance(fn, ast.Attribute) and fn.attr in ('compute', 'read', 'train'):
            recv = fn.value
            if isinstance(recv, ast.Name):
                if recv.id in self.prog.classes:
                    return {recv.id}
                if recv.id == 'cls' and func.cls is not None:
                    return {func.cls.name}
                # a variable holding a class object
                classes = self._class_objects(func, recv)
                if classes:
                    return classes
            if isinstance(recv, ast.Call) and isinstance(recv.func, ast.Name) and \
                    recv.func.id == 'type' and len(recv.args) == 1:
                t = self.type_of(func, recv.args[0])
                if t:
                    return set(t)
        return None

    def _class_objects(self, func, name):
        """Classes a Name holding a class object may denote (bound_class idiom)."""
        key = (func.qualname, name.id)
        cache = self.__dict__.setdefault('_co_cache', {})
        if key not in cache:
            cache[key] = self._class_objects_uncached(func, name)
        return set(cache[key])

    def _kw_class_sites(self):
        """(method name, keyword) -> classes passed by name at any call site."""
        idx = self.__dict__.get('_kw_idx')
        if idx is None:
            idx = {}
            for g in self.prog.functions.values():
                for c in walk_no_nested(g.node):
                    if isinstance(c, ast.Call) and isinstance(c.func, ast.Attribute):
                        for k in c.keywords:
                            if k.arg and isinstance(k.value, ast.Name) and \
                                    k.value.id in self.prog.classes:
                                idx.setdefault((c.func.attr, k.arg), set()).add(k.value.id)
            self.__dict__['_kw_idx'] = idx
        return idx

    def _class_objects_uncached(self, func, name):
        out = set()
        # parameter default + assignments in the function
        a = func.node.args
        allp = a.posonlyargs + a.args
        defaults = [None] * (len(allp) - len(a.defaults)) + list(a.defaults)
        for p, d in zip(allp, defaults):
            if p.arg == name.id and isinstance(d, ast.Name) and d.id in self.prog.classes:
                out.add(d.id)
        for p, d in zip(a.kwonlyargs, a.kw_defaults):
            if p.arg == name.id and isinstance(d, ast.Name) and d.id in self.prog.classes:
                out.add(d.id)
        for n in walk_no_nested(func.node):
            if isinstance(n, ast.Assign) and len(n.targets) == 1 and \
                    isinstance(n.targets[0], ast.Name) and n.targets[0].id == name.id and \
                    isinstance(n.value, ast.Name) and n.value.id in self.prog.classes:
                out.add(n.value.id)
        # keyword arguments at call sites anywhere in the package
        if name.id in func.params:
            out |= self._kw_class_sites().get((func.name, name.id), set())
        return out

    def _locals(self, func):
        """name -> set(classes) for locals bound to package objects (flow-insensitive)."""
        key = func.qualname
        if key in self.local_types:
            return self.local_types[key]
        env = {}
        self.local_types[key] = env
        if func.self_name:
            env[func.self_name] = {func.cls.name}
        for p in func.params:
            t = PARAM_TYPES.get((func.qualname, p))
            if t:
                env[p] = set(t)
        for _ in range(3):   # small fixed point: locals defined from other locals
            for n in walk_no_nested(func.node):
                if isinstance(n, ast.Assign) and len(n.targets) == 1 and \
                        isinstance(n.targets[0], ast.Name):
                    t = self._type_expr(func, n.value, env)
                    if t:
                        env.setdefault(n.targets[0].id, set()).update(t)
                elif isinstance(n, (ast.For, ast.comprehension)):
                    self._bind_iter(func, n.target, n.iter, env)
        return env

    def _bind_iter(self, func, target, it, env):
        # for x in <list of T>; for i, x in enumerate(<list>); for a, b in zip(<list>, ..)
        def elem(e):
            if isinstance(e, ast.Call) and isinstance(e.func, ast.Name) and \
                    e.func.id in ('reversed', 'list', 'sorted', 'tuple') and e.args:
                return elem(e.args[0])
            return self._type_expr(func, e, env, want_elem=True)
        if isinstance(it, ast.Call) and isinstance(it.func, ast.Name) and \
                it.func.id in ('reversed', 'list') and it.args:
            return self._bind_iter(func, target, it.args[0], env)
        if isinstance(it, ast.Call) and isinstance(it.func, ast.Name) and \
                it.func.id == 'enumerate' and it.args and isinstance(target, ast.Tuple) and \
                len(target.elts) == 2:
            return self._bind_iter(func, target.elts[1], it.args[0], env)
        if isinstance(it, ast.Call) and isinstance(it.func, ast.Name) and it.func.id == 'zip' \
                and isinstance(target, ast.Tuple) and len(target.elts) == len(it.args):
            for t, a in zip(target.elts, it.args):
                self._bind_iter(func, t, a, env)
            return
        if isinstance(target, ast.Name):
            t = elem(it)
            if t:
                env.setdefault(target.id, set()).update(t)

    def _type_expr(self, func, e, env, want_elem=False):
        """Set of class names for an expression denoting a package object (or, with
        want_elem, for the elements of a list expression)."""
        if isinstance(e, ast.Name):
            if want_elem:
                return env.get('[]' + e.id)
            return env.get(e.id)
        if isinstance(e, ast.Call):
            if not want_elem:
                t = self._ctor_class(func, e)
                if t:
                    return t
                # pool.map(func, ...) over a bound method returning self
                return None
            return None
        if isinstance(e, ast.Attribute):
            base = self._type_expr(func, e.value, env)
            if base:
                out = set()
                for c in base:
                    out |= self.attr_types.get((c, e.attr), set())
                return out or None
            return None
        if isinstance(e, ast.Subscript):
            # indexing or slicing a list-typed attribute keeps the element classes
            return self._type_expr(func, e.value, env, want_elem=False) if not want_elem \
                else self._type_expr(func, e.value, env, want_elem=True)
        if isinstance(e, (ast.List, ast.Tuple)):
            out = set()
            for x in e.elts:
                t = self._type_expr(func, x, env)
                if t:
                    out |= t
            return out or None
        if isinstance(e, ast.ListComp):
            env2 = dict(env)
            for g in e.generators:
                self._bind_iter(func, g.target, g.iter, env2)
            return self._type_expr(func, e.elt, env2)
        if isinstance(e, ast.BinOp) and isinstance(e.op, ast.Add):
            a = self._type_expr(func, e.left, env, want_elem)
            b = self._type_expr(func, e.right, env, want_elem)
            if a or b:
                return (a or set()) | (b or set())
        if isinstance(e, ast.IfExp):
            a = self._type_expr(func, e.body, env)
            b = self._type_expr(func, e.orelse, env)
            if a or b:
                return (a or set()) | (b or set())
        return None

    def type_of(self, func, e):
        """Classes of the object denoted by `e` in `func` (elements for list attrs:
        attribute types do not distinguish a list from its elements)."""
        return self._type_expr(func, e, self._locals(func))

    def _infer_attr_types(self):
        """(class, attr) -> classes, from assignments and appends in every method."""
        for _ in range(4):
            before = {k: set(v) for k, v in self.attr_types.items()}
            self.local_types = {}
            for f in self.prog.functions.values():
                env = self._locals(f)
                for n in walk_no_nested(f.node):
                    tgt = val = None
                    if isinstance(n, ast.Assign) and len(n.targets) == 1:
                        tgt, val = n.targets[0], n.value
                    elif isinstance(n, ast.Call) and isinstance(n.func, ast.Attribute) and \
                            n.func.attr in ('append', 'extend', 'insert') and n.args:
                        tgt, val = n.func.value, n.args[-1]
                    if tgt is None or not isinstance(tgt, ast.Attribute):
                        continue
                    owner = self._type_expr(f, tgt.value, env)
                    if not owner:
                        continue
                    t = self._type_expr(f, val, env)
                    if not t:
                        continue
                    for c in owner:
                        self.attr_types.setdefault((c, tgt.attr), set()).update(t)
            if before == self.attr_types:
                break
        self.local_types = {}
        for k, v in TYPE_FLOOR.items():
            if k[0] not in self.prog.classes:
                continue        # fixture programs; vanished anchors fail closed in the rules
            got = self.attr_types.get(k, set())
            if not v <= got:
                # the floor is what the rest of the analysis relies on; add it and
                # remember that inference alone did not establish it
                self.attr_types.setdefault(k, set()).update(v)
        # sanity: every class named exists
        for k, v in self.attr_types.items():
            for c in v:
                if c not in self.prog.classes:
                    raise AnalysisError('type table names unknown class %s' % c)

    # ---------------------------------------------------------- call resolution
    def resolve_call(self, func, call):
        """-> (list of FuncInfo, status)."""
        fn = call.func
        prog = self.prog
        if isinstance(fn, ast.Name):
            name = fn.id
            if name == 'cls' and func.cls is not None:
                init = func.cls.methods.get('__init__')
                return ([init] if init else []), 'typed'
            if name in prog.classes:
                init = prog.classes[name].methods.get('__init__')
                return ([init] if init else []), 'typed'
            tgt = func.module.functions.get(name)
            if tgt is not None:
                return [tgt], 'typed'
            origin = func.module.imports.get(name)
            if origin and origin.startswith('.'):
                for f in prog.functions.values():
                    if f.cls is None and f.name == name:
                        return [f], 'typed'
            return [], 'external'
        if isinstance(fn, ast.Attribute):
            m = fn.attr
            recv = fn.value
            root = recv
            while isinstance(root, (ast.Attribute, ast.Subscript, ast.Call)):
                root = root.value if not isinstance(root, ast.Call) else root.func
            if isinstance(root, ast.Name) and root.id in EXTERNAL_ROOTS and \
                    root.id not in self._locals(func):
                return [], 'external'
            # ClassName.method / cls.method / class-object variables
            classes = None
            if isinstance(recv, ast.Name) and recv.id in prog.classes:
                classes = {recv.id}
            elif isinstance(recv, ast.Name) and recv.id == 'cls' and func.cls is not None:
                classes = {func.cls.name}
            elif isinstance(recv, ast.Name) and self._class_objects(func, recv):
                classes = self._class_objects(func, recv)
            elif isinstance(recv, ast.Call) and isinstance(recv.func, ast.Name) and \
                    recv.func.id == 'type' and len(recv.args) == 1:
                classes = self.type_of(func, recv.args[0])
            else:
                classes = self.type_of(func, recv)
            if classes:
                out = []
                for c in sorted(classes):
                    f = prog.classes[c].methods.get(m)
                    if f is not None:
                        out.append(f)
                if out:
                    return out, 'typed'
                return [], 'external'     # typed receiver without such a method
            if self._is_external_value(func, recv):
                return [], 'external'
            cands = self._method_names.get(m)
            if cands:
                return list(cands), 'byname'
            return [], 'external'
        return [], 'unknown'

    def _is_external_value(self, func, e):
        """Receiver known not to be a package object: literals, numpy results,
        the rng, h5py groups, strings."""
        if isinstance(e, (ast.Constant, ast.Dict, ast.List, ast.Tuple, ast.ListComp, ast.Set,
                          ast.JoinedStr, ast.BinOp, ast.Compare)):
            return True
        d = dotted(e)
        if d:
            last = d.split('.')[-1]
            if last in ('rng', 'attrs', 'group', 'fstream', 'shape', 'pool', 'points', 'log_l',
                        'bit_generator', 'dim_cube', 'block', 'keys', 'dists', 'prior',
                        'neural_network_kwargs'):
                return True
            if d.split('.')[0] in ('group', 'fstream', 'rng'):
                return True
        if isinstance(e, ast.Subscript):
            return self._is_external_value(func, e.value)
        if isinstance(e, ast.Call):
            cn = dotted(e.func)
            if cn and cn.split('.')[0] in EXTERNAL_ROOTS:
                return True
            if cn in ('dict', 'list', 'str', 'set', 'tuple', 'Path', 'zip', 'map', 'range'):
                return True
        if isinstance(e, ast.Name):
            # a local assigned only from external constructors
            vals = []
            for n in walk_no_nested(func.node):
                if isinstance(n, ast.Assign):
                    for t in n.targets:
                        if isinstance(t, ast.Name) and t.id == e.id:
                            vals.append(n.value)
            if vals and all(self._is_external_value(func, v) for v in vals if
                            not (isinstance(v, ast.Name) and v.id == e.id)):
                return True
        return False

    # ---------------------------------------------------------------- effects
    def _owner_classes(self, func, e):
        """Classes of the object whose attribute is accessed (`e` is the receiver)."""
        return self.type_of(func, e)

    def direct(self, func):
        s = self._direct.get(func.qualname)
        if s is not None:
            return s
        s = Summary()
        self._direct[func.qualname] = s
        env = self._locals(func)

        def record_write(target, kind):
            # target: expression being stored to / mutated
            e = target
            k = kind
            while isinstance(e, ast.Subscript):
                e = e.value
                k = 'elem' if kind in ('assign', 'elem') else kind
            if isinstance(e, ast.Attribute) and e.attr == 'attrs':
                return      # h5py attribute manager of a group/file: not package state
            if isinstance(e, ast.Attribute):
                owner = self._owner_classes(func, e.value)
                if owner:
                    for c in owner:
                        setter = self.prog.classes[c].methods.get(e.attr + '.setter')
                        if setter is not None and k == 'assign':
                            s.calls.append((e, [setter], 'typed'))
                        else:
                            s.writes.add((c, e.attr, k))
                elif not self._is_external_value(func, e.value):
                    s.writes.add(('?', e.attr, k))
                # nested receiver: writing self.a.b[...] also "touches" a's object only
            elif isinstance(e, ast.Name):
                # mutation of a local that aliases a parameter or state: recorded by name
                if k != 'assign':
                    s.writes.add(('<local>', e.id, k))

        for n in walk_no_nested(func.node):
            if isinstance(n, ast.Assign):
                from .exprs import as_aug
                inc = as_aug(n) is not None      # t = t op v is an increment as well
                for t in n.targets:
                    for tt in (t.elts if isinstance(t, (ast.Tuple, ast.List)) else [t]):
                        if not isinstance(tt, ast.Name):
                            record_write(tt, 'aug' if inc else 'assign')
            elif isinstance(n, ast.AugAssign):
                if not isinstance(n.target, ast.Name):
                    record_write(n.target, 'aug')
                else:
                    s.writes.add(('<local>', n.target.id, 'aug'))
            elif isinstance(n, ast.AnnAssign) and n.value is not None:
                if not isinstance(n.target, ast.Name):
                    record_write(n.target, 'assign')
            elif isinstance(n, ast.Delete):
                for t in n.targets:
                    if not isinstance(t, ast.Name):
                        record_write(t, 'del')
            elif isinstance(n, ast.Call):
                cn = call_name(n) or ''
                if isinstance(n.func, ast.Name) and n.func.id == 'print':
                    s.prints += 1
                if isinstance(n.func, ast.Attribute):
                    m = n.func.attr
                    recv = n.func.value
                    # rng draws
                    d = dotted(recv)
                    if m in DRAWS and d and (d.split('.')[-1] == 'rng' or d == 'np.random'
                                             or d == 'numpy.random' or d == 'random'):
                        s.draws.append((func.where(n), cn, func))
                    if m in MUTATORS and not (d and d.split('.')[0] in EXTERNAL_ROOTS):
                        if m == 'shuffle' and d and d.split('.')[-1] == 'rng':
                            # rng.shuffle(x) mutates its argument in place
                            if n.args:
                                record_write(n.args[0], 'mutcall')
                        elif m == 'update' and self.resolve_call(func, n)[1] == 'typed':
                            pass
                        else:
                            record_write(recv, 'mutcall')
                    if m == 'state' and False:
                        pass
                if isinstance(n.func, ast.Name) and n.func.id == 'setattr' and len(n.args) == 3:
                    owner = self._owner_classes(func, n.args[0])
                    for c in owner or ['?']:
                        s.writes.add((c, '*', 'assign'))
                callees, status = self.resolve_call(func, n)
                self.stats[status] = self.stats.get(status, 0) + 1
                if callees:
                    s.calls.append((n, callees, status))
                elif status == 'unknown':
                    s.unresolved.append(n)
                # higher-order: partial(f, ...), map(f, xs), pool.map(f, xs)
                for a in list(n.args) + [k.value for k in n.keywords]:
                    tgt = self._func_value(func, a)
                    if tgt:
                        s.calls.append((a, tgt, 'typed'))
            elif isinstance(n, ast.Attribute) and isinstance(n.ctx, ast.Load):
                owner = self._owner_classes(func, n.value)
                if owner:
                    for c in owner:
                        getter = self.prog.classes[c].methods.get(n.attr)
                        if getter is not None and getter.kind == 'property':
                            s.calls.append((n, [getter], 'typed'))
                        elif getter is not None:
                            pass      # a bound method, not state
                        else:
                            s.reads.add((c, n.attr))
                else:
                    props = self._prop_names.get(n.attr)
                    if props and not self._is_external_value(func, n.value):
                        s.calls.append((n, list(props), 'byname'))
        return s

    def _func_value(self, func, e):
        """FuncInfo list when an argument expression denotes a package function."""
        if isinstance(e, ast.Attribute) and isinstance(e.value, ast.Name):
            t = self.type_of(func, e.value)
            if t:
                out = [self.prog.classes[c].methods[e.attr] for c in t
                       if e.attr in self.prog.classes[c].methods and
                       self.prog.classes[c].methods[e.attr].kind in ('method', 'classmethod',
                                                                       'staticmethod')]
                return out or None
        if isinstance(e, ast.Name):
            tgt = func.module.functions.get(e.id)
            if tgt is not None and e.id not in func.params:
                return [tgt]
            origin = func.module.imports.get(e.id)
            if origin and origin.startswith('.') and e.id not in func.params:
                for f in self.prog.functions.values():
                    if f.cls is None and f.name == e.id:
                        return [f]
        return None

    def trans(self, func, skip=()):
        """Transitive summary over the call graph (callees in `skip` are not entered)."""
        key = (func.qualname, tuple(sorted(skip)))
        if key in self._trans:
            return self._trans[key]
        seen = {}
        order = []
        work = [func]
        while work:
            f = work.pop()
            if f.qualname in seen:
                continue
            seen[f.qualname] = f
            order.append(f)
            for _, callees, _ in self.direct(f).calls:
                for c in callees:
                    if c.qualname not in seen and c.qualname not in skip:
                        work.append(c)
        out = Summary()
        for f in order:
            d = self.direct(f)
            out.writes |= d.writes
            out.reads |= d.reads
            out.draws += d.draws
            out.prints += d.prints
        out.reached = [f.qualname for f in order]
        self._trans[key] = out
        return out

    def reachable_funcs(self, func, skip=()):
        self.trans(func, skip)
        return self._trans[(func.qualname, tuple(sorted(skip)))].reached

    def call_sites(self, func):
        return self.direct(func).calls


def helper_closure(prog, cls, allowed):
    """`allowed` (qualnames) plus every method of `cls` that is called only from functions
    already in the set: a private helper inherits the permissions of its callers."""
    res = resolver(prog)
    allowed = set(allowed)
    callers = {}
    for f in prog.functions.values():
        for node, callees, status in res.direct(f).calls:
            for c in callees:
                if c.cls is cls and status == 'typed' and c is not f:
                    callers.setdefault(c.qualname, set()).add(f.qualname)
    changed = True
    while changed:
        changed = False
        for name, m in cls.methods.items():
            q = m.qualname
            if q in allowed or m.kind != 'method':
                continue
            cs = callers.get(q, set())
            if cs and cs <= allowed:
                allowed.add(q)
                changed = True
    return allowed, callers


_RES = {}


def resolver(prog):
    r = _RES.get(id(prog))
    if r is None or r.prog is not prog:
        r = Resolver(prog)
        _RES[id(prog)] = r
    return r

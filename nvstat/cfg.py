"""Statement-level control-flow graph with dominators, post-dominators, control
dependence, flag-sensitive reachability and reaching definitions (DESIGN.md 2.4).

Implicit exceptions (an exception escaping from an arbitrary call) are not modelled
as paths, except inside a `try` body, where every statement has an edge to each
handler.
"""
import ast
from collections import deque

from .core import AnalysisError


def _norm_atom(e, truth):
    """Normalise an atomic condition: `X is not None` -> (`X is None`, not truth),
    `a not in b` -> (`a in b`, not truth), `a != b` -> (`a == b`, not truth)."""
    if isinstance(e, ast.Compare) and len(e.ops) == 1:
        op = e.ops[0]
        flip = {ast.IsNot: ast.Is, ast.NotIn: ast.In, ast.NotEq: ast.Eq}
        for neg, pos in flip.items():
            if isinstance(op, neg):
                e2 = ast.Compare(left=e.left, ops=[pos()], comparators=e.comparators)
                return e2, ast.unparse(e2), (not truth)
    return e, ast.unparse(e), truth


def edge_facts(expr, label):
    """Facts implied by taking branch `label` (True/False) of the test `expr`:
    `not` is stripped, a true conjunction yields every conjunct, a false disjunction the
    negation of every disjunct.  -> [(atom ast, text, truth)]"""
    if label not in (True, False):
        return []
    e = expr
    t = label
    while isinstance(e, ast.UnaryOp) and isinstance(e.op, ast.Not):
        t = not t
        e = e.operand
    if isinstance(e, ast.BoolOp):
        if isinstance(e.op, ast.And) and t:
            out = []
            for v in e.values:
                out += edge_facts(v, True)
            return out
        if isinstance(e.op, ast.Or) and not t:
            out = []
            for v in e.values:
                out += edge_facts(v, False)
            return out
        return [(e, ast.unparse(e), t)]
    return [_norm_atom(e, t)]


def assume(*facts):
    """edge_ok predicate for CFG.reach: an edge is infeasible if taking it implies the
    negation of an assumed fact.  facts: (text, truth) with normalised text."""
    want = dict(facts)

    def edge_ok(node, lab):
        if node.kind != 'test' or lab not in (True, False):
            return True
        for _, tx, tr in edge_facts(node.expr, lab):
            if tx in want and want[tx] != tr:
                return False
        return True
    return edge_ok


class Node:
    __slots__ = ('id', 'kind', 'ast', 'expr', 'succ', 'pred', 'lineno')

    def __init__(self, nid, kind, node=None, expr=None):
        self.id = nid
        self.kind = kind       # entry exit raise stmt test for with with_exit except
        self.ast = node
        self.expr = expr
        self.succ = []         # (node id, label)
        self.pred = []
        self.lineno = getattr(node, 'lineno', 0) if node is not None else 0

    def __repr__(self):
        return '<N%d %s L%d>' % (self.id, self.kind, self.lineno)


class CFG:
    def __init__(self, fn):
        self.fn = fn
        self.nodes = []
        self.entry = self._new('entry')
        self.exit = self._new('exit')
        self.raise_exit = self._new('raise')
        self._owner = {}       # id(ast node) -> cfg node id
        self._loops = []
        self._handlers = []
        ends = self._body(fn.body, [(self.entry.id, None)])
        for p, lab in ends:
            self._edge(p, self.exit.id, lab)
        self._dom = None
        self._pdom = None
        self._rd = None
        self._flags = None

    # -- construction ---------------------------------------------------
    def _new(self, kind, node=None, expr=None):
        n = Node(len(self.nodes), kind, node, expr)
        self.nodes.append(n)
        return n

    def _edge(self, a, b, label=None):
        if (b, label) not in self.nodes[a].succ:
            self.nodes[a].succ.append((b, label))
            self.nodes[b].pred.append((a, label))

    def _own(self, astnode, cfgnode):
        for sub in ast.walk(astnode):
            self._owner[id(sub)] = cfgnode.id

    def _connect(self, preds, node):
        for p, lab in preds:
            self._edge(p, node.id, lab)

    def _body(self, stmts, preds):
        for st in stmts:
            preds = self._stmt(st, preds)
        return preds

    def _stmt(self, st, preds):
        if isinstance(st, ast.If):
            t = self._new('test', st, st.test)
            self._own(st.test, t)
            self._owner[id(st)] = t.id
            self._connect(preds, t)
            a = self._body(st.body, [(t.id, True)])
            b = self._body(st.orelse, [(t.id, False)]) if st.orelse else [(t.id, False)]
            return a + b
        if isinstance(st, ast.While):
            t = self._new('test', st, st.test)
            self._own(st.test, t)
            self._owner[id(st)] = t.id
            self._connect(preds, t)
            brk = []
            self._loops.append((t.id, brk))
            body_end = self._body(st.body, [(t.id, True)])
            self._loops.pop()
            for p, lab in body_end:
                self._edge(p, t.id, lab)
            out = [(t.id, False)]
            if st.orelse:
                out = self._body(st.orelse, out)
            return out + brk
        if isinstance(st, (ast.For, ast.AsyncFor)):
            h = self._new('for', st, st.iter)
            self._own(st.iter, h)
            self._own(st.target, h)
            self._owner[id(st)] = h.id
            self._connect(preds, h)
            brk = []
            self._loops.append((h.id, brk))
            body_end = self._body(st.body, [(h.id, True)])
            self._loops.pop()
            for p, lab in body_end:
                self._edge(p, h.id, lab)
            out = [(h.id, False)]
            if st.orelse:
                out = self._body(st.orelse, out)
            return out + brk
        if isinstance(st, (ast.With, ast.AsyncWith)):
            w = self._new('with', st)
            for it in st.items:
                self._own(it, w)
            self._owner[id(st)] = w.id
            self._connect(preds, w)
            ends = self._body(st.body, [(w.id, None)])
            x = self._new('with_exit', st)
            self._connect(ends, x)
            return [(x.id, None)]
        if isinstance(st, ast.Try) or st.__class__.__name__ == 'TryStar':
            hnodes = []
            for h in st.handlers:
                hn = self._new('except', h)
                if h.type is not None:
                    self._own(h.type, hn)
                self._owner[id(h)] = hn.id
                hnodes.append(hn)
            first = len(self.nodes)
            self._handlers.append(hnodes)
            ends = self._body(st.body, preds)
            self._handlers.pop()
            last = len(self.nodes)
            # every node created for the try body may raise into each handler
            for nid in range(first, last):
                for hn in hnodes:
                    self._edge(nid, hn.id, 'exc')
            for p, lab in preds:
                for hn in hnodes:
                    self._edge(p, hn.id, 'exc')
            if st.orelse:
                ends = self._body(st.orelse, ends)
            for h, hn in zip(st.handlers, hnodes):
                ends = ends + self._body(h.body, [(hn.id, None)])
            if st.finalbody:
                ends = self._body(st.finalbody, ends)
            return ends
        if st.__class__.__name__ == 'Match':
            raise AnalysisError('match statement not supported by the CFG builder (line %d)'
                                % st.lineno)
        # simple statement
        n = self._new('stmt', st)
        if isinstance(st, (ast.FunctionDef, ast.ClassDef, ast.AsyncFunctionDef)):
            self._owner[id(st)] = n.id      # nested definitions are not descended into
        else:
            self._own(st, n)
        self._connect(preds, n)
        if isinstance(st, ast.Return):
            self._edge(n.id, self.exit.id)
            return []
        if isinstance(st, ast.Raise):
            if self._handlers:
                for hn in self._handlers[-1]:
                    self._edge(n.id, hn.id, 'exc')
            else:
                self._edge(n.id, self.raise_exit.id)
            return []
        if isinstance(st, ast.Break):
            if not self._loops:
                raise AnalysisError('break outside loop')
            self._loops[-1][1].append((n.id, None))
            return []
        if isinstance(st, ast.Continue):
            if not self._loops:
                raise AnalysisError('continue outside loop')
            self._edge(n.id, self._loops[-1][0])
            return []
        return [(n.id, None)]

    # -- look-ups -----------------------------------------------------------
    def node_of(self, astnode):
        nid = self._owner.get(id(astnode))
        if nid is None:
            raise AnalysisError('ast node at line %s is not part of the CFG of %s'
                                % (getattr(astnode, 'lineno', '?'), self.fn.name))
        return self.nodes[nid]

    def has(self, astnode):
        return id(astnode) in self._owner

    def stmts(self):
        return [n for n in self.nodes if n.kind == 'stmt']

    # -- reachability -----------------------------------------------------
    def _flag_vars(self):
        """Locals that are only ever assigned the constants True / False."""
        if self._flags is not None:
            return self._flags
        assigned = {}
        for n in ast.walk(self.fn):
            tgts = []
            if isinstance(n, ast.Assign):
                tgts = [(t, n.value) for t in n.targets]
            elif isinstance(n, ast.AugAssign):
                tgts = [(n.target, None)]
            elif isinstance(n, (ast.For, ast.comprehension)):
                tgts = [(n.target, None)]
            elif isinstance(n, ast.NamedExpr):
                tgts = [(n.target, None)]
            elif isinstance(n, ast.withitem) and n.optional_vars is not None:
                tgts = [(n.optional_vars, None)]
            for t, v in tgts:
                for sub in ast.walk(t):
                    if isinstance(sub, ast.Name):
                        ok = (isinstance(t, ast.Name) and isinstance(v, ast.Constant)
                              and isinstance(v.value, bool))
                        assigned.setdefault(sub.id, []).append(ok)
        params = {a.arg for a in self.fn.args.args + self.fn.args.kwonlyargs +
                  self.fn.args.posonlyargs}
        self._flags = {k for k, v in assigned.items() if all(v) and k not in params}
        return self._flags

    @staticmethod
    def _flag_test(expr):
        """(name, polarity) if expr is `flag` or `not flag`."""
        if isinstance(expr, ast.Name):
            return expr.id, True
        if isinstance(expr, ast.UnaryOp) and isinstance(expr.op, ast.Not) and \
                isinstance(expr.operand, ast.Name):
            return expr.operand.id, False
        return None

    def reach(self, src, avoid=(), flags=True, include_src=False, follow_exc=True,
              edge_ok=None):
        """Node ids reachable from node id `src` (src itself only if on a cycle or
        include_src) without entering a node in `avoid`; flag-sensitive."""
        avoid = set(avoid)
        fl = self._flag_vars() if flags else set()
        seen = set()
        out = set()
        if include_src:
            out.add(src)
        start = (src, frozenset())
        dq = deque([start])      # not marked seen: a cycle back to src must be reported
        while dq:
            nid, st = dq.popleft()
            n = self.nodes[nid]
            st2 = st
            if fl and n.kind == 'stmt' and isinstance(n.ast, ast.Assign) and \
                    len(n.ast.targets) == 1 and isinstance(n.ast.targets[0], ast.Name) and \
                    n.ast.targets[0].id in fl:
                d = dict(st)
                d[n.ast.targets[0].id] = n.ast.value.value
                st2 = frozenset(d.items())
            for s, lab in n.succ:
                if lab == 'exc' and not follow_exc:
                    continue
                if edge_ok is not None and not edge_ok(n, lab):
                    continue
                if fl and n.kind == 'test' and lab in (True, False):
                    ft = self._flag_test(n.expr)
                    if ft and ft[0] in fl:
                        cur = dict(st2).get(ft[0])
                        if cur is not None and (cur == ft[1]) != lab:
                            continue
                if s in avoid:
                    continue
                key = (s, st2)
                if key not in seen:
                    seen.add(key)
                    out.add(s)
                    dq.append(key)
        return out

    def can_reach(self, src, dst, avoid=(), flags=True, edge_ok=None):
        return dst in self.reach(src, avoid, flags, edge_ok=edge_ok)

    def must_pass(self, src, dst, through, flags=True, edge_ok=None):
        """Every path from src to dst enters a node of `through` (strictly after src)."""
        return dst not in self.reach(src, avoid=through, flags=flags, edge_ok=edge_ok)

    def paths_exist_avoiding(self, src, dsts, through, flags=True):
        r = self.reach(src, avoid=through, flags=flags)
        return [d for d in dsts if d in r]

    # -- dominators ------------------------------------------------------------
    def _compute_dom(self, forward=True):
        nodes = self.nodes
        if forward:
            root = self.entry.id
            pred = lambda i: [p for p, _ in nodes[i].pred]
            succ = lambda i: [s for s, _ in nodes[i].succ]
        else:
            root = -1
            pred = None
        if forward:
            reach = {root}
            dq = deque([root])
            while dq:
                i = dq.popleft()
                for s in succ(i):
                    if s not in reach:
                        reach.add(s)
                        dq.append(s)
            dom = {i: set(reach) for i in reach}
            dom[root] = {root}
            changed = True
            while changed:
                changed = False
                for i in sorted(reach):
                    if i == root:
                        continue
                    ps = [p for p in pred(i) if p in reach]
                    new = set.intersection(*[dom[p] for p in ps]) if ps else set()
                    new = new | {i}
                    if new != dom[i]:
                        dom[i] = new
                        changed = True
            return dom
        # post-dominators with a virtual end joining exit and raise
        END = -1
        succs = {n.id: [s for s, _ in n.succ] for n in nodes}
        succs[self.exit.id] = [END]
        succs[self.raise_exit.id] = [END]
        succs[END] = []
        preds = {k: [] for k in succs}
        for a, ss in succs.items():
            for b in ss:
                preds[b].append(a)
        reach = {END}
        dq = deque([END])
        while dq:
            i = dq.popleft()
            for p in preds[i]:
                if p not in reach:
                    reach.add(p)
                    dq.append(p)
        pd = {i: set(reach) for i in reach}
        pd[END] = {END}
        changed = True
        while changed:
            changed = False
            for i in sorted(reach):
                if i == END:
                    continue
                ss = [s for s in succs[i] if s in reach]
                new = set.intersection(*[pd[s] for s in ss]) if ss else set()
                new = new | {i}
                if new != pd[i]:
                    pd[i] = new
                    changed = True
        return pd

    def dominates(self, a, b):
        """a dominates b (every path entry->b passes a).  Unreachable b: True."""
        if self._dom is None:
            self._dom = self._compute_dom(True)
        if b not in self._dom:
            return True
        return a in self._dom[b]

    def postdominates(self, a, b):
        if self._pdom is None:
            self._pdom = self._compute_dom(False)
        if b not in self._pdom:
            return True
        return a in self._pdom[b]

    def control_deps(self, nid):
        """Set of (test node id, label) on which node `nid` is control dependent."""
        if self._pdom is None:
            self._pdom = self._compute_dom(False)
        out = set()
        for t in self.nodes:
            if t.kind not in ('test', 'for'):
                continue
            for s, lab in t.succ:
                if lab not in (True, False):
                    continue
                if (nid == s or self.postdominates(nid, s)) and not (
                        nid != t.id and self.postdominates(nid, t.id)):
                    out.add((t.id, lab))
        return out

    def guards(self, nid):
        """Transitive closure of control dependence: every (test expr node, label)
        that must have been taken for `nid` to execute."""
        seen = set()
        work = [nid]
        out = set()
        while work:
            x = work.pop()
            for t, lab in self.control_deps(x):
                if (t, lab) not in out:
                    out.add((t, lab))
                    if t not in seen:
                        seen.add(t)
                        work.append(t)
        return out

    def strict_guards(self, nid):
        """(test id, label) pairs such that `nid` executes ONLY after that branch was
        taken: the test dominates nid and nid is unreachable from the test's other
        successors (without passing the test again)."""
        out = set()
        for t, lab in self.guards(nid):
            if not self.dominates(t, nid) or t == nid:
                continue
            others = [s for s, l in self.nodes[t].succ if l != lab and l != 'exc']
            blocked = True
            for o in others:
                if o == nid or nid in self.reach(o, avoid={t}, flags=False):
                    blocked = False
            if blocked:
                out.add((t, lab))
        return out

    def facts(self, nid):
        """Atomic facts [(atom ast, text, truth)] that hold whenever node `nid` executes:
        the branch facts of its strict guards (polarity-normalised, see edge_facts)."""
        out = []
        for t, lab in self.strict_guards(nid):
            out += edge_facts(self.nodes[t].expr, lab)
        return out

    def has_fact(self, nid, text, truth=True):
        return any(tx == text and tr == truth for _, tx, tr in self.facts(nid))

    # -- reaching definitions --------------------------------------------------
    @staticmethod
    def _attr_var(t):
        """'base.attr' for a store to base.attr, base.attr[...] (any subscript depth)."""
        while isinstance(t, ast.Subscript):
            t = t.value
        if isinstance(t, ast.Attribute) and isinstance(t.value, ast.Name):
            return '%s.%s' % (t.value.id, t.attr)
        return None

    @staticmethod
    def _targets(node):
        """Names (re)defined by a CFG node; attribute stores define the pseudo-variable
        'base.attr' so that two reads of self.x separated by a write get different keys."""
        out = []
        a = node.ast
        if node.kind == 'stmt':
            tg = []
            if isinstance(a, ast.Assign):
                tg = list(a.targets)
            elif isinstance(a, (ast.AugAssign, ast.AnnAssign)):
                tg = [a.target]
            elif isinstance(a, ast.Delete):
                tg = list(a.targets)
            for t in tg:
                for tt in (t.elts if isinstance(t, (ast.Tuple, ast.List)) else [t]):
                    av = CFG._attr_var(tt)
                    if av:
                        out.append(av)
            if isinstance(a, ast.Expr) and isinstance(a.value, ast.Call) and \
                    isinstance(a.value.func, ast.Attribute) and a.value.func.attr in (
                        'append', 'pop', 'extend', 'insert', 'remove', 'clear', 'sort',
                        'reverse', 'resize', 'fill'):
                av = CFG._attr_var(a.value.func.value)
                if av:
                    out.append(av)
            if isinstance(a, ast.Assign):
                for t in a.targets:
                    for sub in ast.walk(t):
                        if isinstance(sub, ast.Name) and isinstance(sub.ctx, ast.Store):
                            out.append(sub.id)
            elif isinstance(a, (ast.AugAssign, ast.AnnAssign)):
                if isinstance(a.target, ast.Name):
                    out.append(a.target.id)
            elif isinstance(a, (ast.Import, ast.ImportFrom)):
                for al in a.names:
                    out.append((al.asname or al.name).split('.')[0])
            elif isinstance(a, (ast.FunctionDef, ast.ClassDef, ast.AsyncFunctionDef)):
                out.append(a.name)
            for sub in ast.walk(a) if not isinstance(
                    a, (ast.FunctionDef, ast.ClassDef, ast.AsyncFunctionDef)) else []:
                if isinstance(sub, ast.NamedExpr) and isinstance(sub.target, ast.Name):
                    out.append(sub.target.id)
        elif node.kind == 'for':
            for sub in ast.walk(a.target):
                if isinstance(sub, ast.Name):
                    out.append(sub.id)
        elif node.kind == 'with':
            for it in a.items:
                if it.optional_vars is not None:
                    for sub in ast.walk(it.optional_vars):
                        if isinstance(sub, ast.Name):
                            out.append(sub.id)
        elif node.kind == 'except':
            if a.name:
                out.append(a.name)
        return out

    def reaching(self):
        """IN sets: node id -> {var: frozenset(def node ids)} (entry id for params)."""
        if self._rd is not None:
            return self._rd
        gen = {n.id: set(self._targets(n)) for n in self.nodes}
        params = [a.arg for a in self.fn.args.posonlyargs + self.fn.args.args +
                  self.fn.args.kwonlyargs]
        if self.fn.args.vararg:
            params.append(self.fn.args.vararg.arg)
        if self.fn.args.kwarg:
            params.append(self.fn.args.kwarg.arg)
        gen[self.entry.id] = set(params)
        IN = {n.id: {} for n in self.nodes}
        OUT = {n.id: {} for n in self.nodes}
        work = deque(n.id for n in self.nodes)
        inq = set(work)
        while work:
            i = work.popleft()
            inq.discard(i)
            n = self.nodes[i]
            cur = {}
            for p, _ in n.pred:
                for v, ds in OUT[p].items():
                    if v in cur:
                        cur[v] = cur[v] | ds
                    else:
                        cur[v] = ds
            IN[i] = cur
            new = dict(cur)
            aug = isinstance(n.ast, ast.AugAssign) and n.kind == 'stmt'
            for v in gen[i]:
                new[v] = frozenset([i])
            if new != OUT[i]:
                OUT[i] = new
                for s, _ in n.succ:
                    if s not in inq:
                        inq.add(s)
                        work.append(s)
        self._rd = IN
        return IN

    def defs_at(self, nid, var):
        return self.reaching()[nid].get(var, frozenset())


_CFGS = {}


def cfg_of(func):
    """CFG of a FuncInfo (cached per node identity)."""
    key = id(func.node)
    c = _CFGS.get(key)
    if c is None or c.fn is not func.node:
        c = CFG(func.node)
        _CFGS[key] = c
    return c


# ---------------------------------------------------------------------------
# bounded path enumeration with consistent predicates
# ---------------------------------------------------------------------------

def _none_test(expr):
    """(subject text, value) if expr is `X is None` / `X is not None` / `not (...)`,
    value = truth of "X is None" on the True branch."""
    neg = False
    e = expr
    while isinstance(e, ast.UnaryOp) and isinstance(e.op, ast.Not):
        neg = not neg
        e = e.operand
    if isinstance(e, ast.Compare) and len(e.ops) == 1 and \
            isinstance(e.comparators[0], ast.Constant) and e.comparators[0].value is None and \
            isinstance(e.ops[0], (ast.Is, ast.IsNot)):
        try:
            subj = ast.unparse(e.left)
        except Exception:   # pragma: no cover
            return None
        is_none_on_true = isinstance(e.ops[0], ast.Is)
        if neg:
            is_none_on_true = not is_none_on_true
        return subj, is_none_on_true
    return None


def _assigned_subjects(node):
    """Texts of the targets (re)bound by a simple statement node."""
    out = set()
    a = node.ast
    if node.kind != 'stmt':
        return out
    tg = []
    if isinstance(a, ast.Assign):
        tg = a.targets
    elif isinstance(a, (ast.AugAssign, ast.AnnAssign)):
        tg = [a.target]
    for t in tg:
        for tt in (t.elts if isinstance(t, (ast.Tuple, ast.List)) else [t]):
            try:
                out.add(ast.unparse(tt))
            except Exception:   # pragma: no cover
                pass
    return out


class PathLimit(Exception):
    pass


def enumerate_paths(cfg, start=None, max_loop=1, limit=100000, follow_exc=False,
                    stop_at=None):
    """Yield (path, preds, end) for every path from `start` (default entry) to the
    normal exit, the raise exit or a node in `stop_at`: path = list of node ids; each loop
    header is entered at most `max_loop` times per activation; boolean-constant flags and
    `X is None` tests are kept consistent along a path.  preds maps subject -> bool
    ("is None") / flag -> bool as decided on this path."""
    flags = cfg._flag_vars()
    start = cfg.entry.id if start is None else start
    stop_at = set(stop_at or ())
    count = [0]
    out = []

    def rec(nid, path, preds, loops):
        n = cfg.nodes[nid]
        path = path + [nid]
        if nid in (cfg.exit.id, cfg.raise_exit.id) or (nid in stop_at and len(path) > 1):
            count[0] += 1
            if count[0] > limit:
                raise PathLimit()
            out.append((path, dict(preds), nid))
            return
        # effects of the node on predicates
        p2 = preds
        asg = _assigned_subjects(n)
        if asg:
            p2 = {k: v for k, v in preds.items() if k not in asg}
            if n.kind == 'stmt' and isinstance(n.ast, ast.Assign) and \
                    len(n.ast.targets) == 1 and isinstance(n.ast.targets[0], ast.Name) and \
                    n.ast.targets[0].id in flags and isinstance(n.ast.value, ast.Constant):
                p2 = dict(p2)
                p2[n.ast.targets[0].id] = bool(n.ast.value.value)
        for s, lab in n.succ:
            if lab == 'exc' and not follow_exc:
                continue
            p3 = p2
            if n.kind == 'test' and lab in (True, False):
                ft = CFG._flag_test(n.expr)
                if ft and ft[0] in flags:
                    cur = p2.get(ft[0])
                    if cur is not None and (cur == ft[1]) != lab:
                        continue
                nt = _none_test(n.expr)
                if nt:
                    subj, none_on_true = nt
                    val = none_on_true if lab else (not none_on_true)
                    cur = p2.get(subj + ' is None')
                    if cur is not None and cur != val:
                        continue
                    p3 = dict(p2)
                    p3[subj + ' is None'] = val
            l2 = loops
            if cfg.nodes[s].kind in ('for', 'test') and isinstance(
                    cfg.nodes[s].ast, (ast.For, ast.While)) and s in path:
                # re-entering a loop header
                c = loops.get(s, 0)
                if c >= max_loop:
                    # may only leave the loop now: handled when the header is visited
                    pass
            if n.kind in ('for', 'test') and isinstance(n.ast, (ast.For, ast.While)) and \
                    lab is True:
                c = loops.get(nid, 0)
                if c >= max_loop:
                    continue
                l2 = dict(loops)
                l2[nid] = c + 1
            rec(s, path, p3, l2)

    import sys
    old = sys.getrecursionlimit()
    sys.setrecursionlimit(max(old, 10000))
    try:
        rec(start, [], {}, {})
    finally:
        sys.setrecursionlimit(old)
    return out

"""E6 SHAPE: the batch axis survives (DESIGN.md E6, S1)."""
import ast
import os

from .core import AnalysisError, VERIF
from .exprs import dotted, unparse, walk_no_nested, const_value


def axis0_droppers(fn_node):
    """Calls in a function body that can drop axis 0 of their operand when the batch has
    length one.  -> [(node, kind, verdict_ok, text)]"""
    out = []
    for n in walk_no_nested(fn_node):
        if not isinstance(n, ast.Call):
            continue
        cn = dotted(n.func)
        is_sq = cn in ('np.squeeze', 'numpy.squeeze') or (
            isinstance(n.func, ast.Attribute) and n.func.attr == 'squeeze' and
            cn not in ('np.squeeze', 'numpy.squeeze'))
        if is_sq:
            axis = None
            for k in n.keywords:
                if k.arg == 'axis':
                    axis = k.value
            pos_args = n.args[1:] if cn in ('np.squeeze', 'numpy.squeeze') else n.args
            if axis is None and pos_args:
                axis = pos_args[0]
            ok = False
            if axis is not None and _axes_from_range_ge1(axis):
                ok = True
            elif axis is not None:
                vals = []
                if isinstance(axis, (ast.Tuple, ast.List)):
                    vals = [const_value(e) for e in axis.elts]
                else:
                    vals = [const_value(axis)]
                ok = all(isinstance(v, int) and v >= 1 for v in vals)
            out.append((n, 'squeeze', ok,
                        'squeeze restricted to axis >= 1' if ok else
                        'squeeze without an explicit axis >= 1 removes the batch axis when the '
                        'batch has a single row'))
        elif isinstance(n.func, ast.Attribute) and n.func.attr == 'item' and not n.args:
            out.append((n, 'item', False, '.item() collapses a one-row batch to a scalar'))
    return out


def _axes_from_range_ge1(axis):
    """tuple(i for i in range(k, ...) [if ...]) with a constant k >= 1: only axes >= 1."""
    e = axis
    if isinstance(e, ast.Call) and dotted(e.func) in ('tuple', 'list') and len(e.args) == 1:
        e = e.args[0]
    if isinstance(e, (ast.GeneratorExp, ast.ListComp)) and len(e.generators) == 1:
        g = e.generators[0]
        if isinstance(e.elt, ast.Name) and isinstance(g.target, ast.Name) and \
                e.elt.id == g.target.id and isinstance(g.iter, ast.Call) and \
                dotted(g.iter.func) == 'range' and len(g.iter.args) >= 2:
            k = const_value(g.iter.args[0])
            return isinstance(k, int) and k >= 1
    return False


def rule_S1(ctx, qualnames, rid='S1'):
    ctx.rule(rid, 'batch axis: no operation that can drop axis 0 when the batch has one row '
             '(axis-less squeeze, squeeze(axis=0), .item()) is applied on the likelihood-result '
             'path; squeeze(axis>=1) is fine')
    n = 0
    for q in qualnames:
        f = ctx.program.func(q)
        for node, kind, ok, text in axis0_droppers(f.node):
            n += 1
            ctx.ob(rid, '%s:%s' % (q, kind), ok, f.where(node), '`%s`: %s'
                   % (unparse(node)[:70], text))
    # positive fixture: the rule must fire on the bad example and stay silent on the good one
    bad, good = _fixture('S1_bad.py'), _fixture('S1_good.py')
    nb = [x for fn in bad for x in axis0_droppers(fn) if not x[2]]
    ng = [x for fn in good for x in axis0_droppers(fn) if not x[2]]
    if not nb or ng:
        raise AnalysisError('S1 fixture self-check failed (bad fired %d, good fired %d)'
                            % (len(nb), len(ng)))
    ctx.ob(rid, 'fixture:S1', True, 'fixtures/S1_bad.py', 'rule fires on the bad fixture (%d) '
           'and is silent on the good one' % len(nb))
    return n


def _fixture(name):
    path = os.path.join(VERIF, 'fixtures', name)
    with open(path) as fh:
        tree = ast.parse(fh.read())
    return [n for n in ast.walk(tree) if isinstance(n, ast.FunctionDef)]


# ---------------------------------------------------------------------------
# N2  log-volumes are computed in log space
# ---------------------------------------------------------------------------

def linear_space_logs(fn_node):
    """np.log(np.prod(..)) / np.log(np.linalg.det(..)) / np.log(<product of diagonal>) :
    the argument under- or overflows for narrow or high-dimensional ellipsoids although the
    logarithm itself is perfectly representable."""
    out = []
    for n in walk_no_nested(fn_node):
        if isinstance(n, ast.Call) and dotted(n.func) in ('np.log', 'math.log', 'np.log2',
                                                          'np.log10') and n.args:
            for sub in ast.walk(n.args[0]):
                if isinstance(sub, ast.Call) and dotted(sub.func) in (
                        'np.prod', 'np.product', 'np.linalg.det', 'np.multiply.reduce',
                        'math.prod', 'np.cumprod'):
                    out.append((n, dotted(sub.func)))
                if isinstance(sub, ast.BinOp) and isinstance(sub.op, ast.Pow) and \
                        isinstance(sub.right, (ast.Name, ast.Attribute)) and \
                        'dim' in unparse(sub.right) and sub is n.args[0]:
                    pass      # log(x ** n_dim) is harmless for the values used here
    return out


STABILISERS = {'np.amax', 'np.max', 'np.nanmax', 'max', 'logsumexp', 'scipy.special.logsumexp',
               'special.logsumexp', 'np.logaddexp.reduce'}


def unshifted_exponentials(func):
    """np.exp(...) calls of a function whose argument is not a difference against a max /
    logsumexp reduction (after expanding single-definition locals): log-volumes and
    log-likelihoods span hundreds of e-folds, their bare exponential under- or overflows."""
    from .cfg import cfg_of
    cfg = cfg_of(func) if hasattr(func, 'module') else None
    out = []
    for c in walk_no_nested(func.node):
        if not (isinstance(c, ast.Call) and dotted(c.func) in ('np.exp', 'math.exp', 'np.exp2',
                                                               'np.expm1') and c.args):
            continue
        arg = c.args[0]
        seen = 0
        while isinstance(arg, ast.Name) and cfg is not None and cfg.has(c) and seen < 4:
            seen += 1
            ds = cfg.defs_at(cfg.node_of(c).id, arg.id)
            if len(ds) != 1:
                break
            dn = cfg.nodes[next(iter(ds))]
            if dn.kind == 'stmt' and isinstance(dn.ast, ast.Assign) and \
                    len(dn.ast.targets) == 1 and isinstance(dn.ast.targets[0], ast.Name):
                arg = dn.ast.value
            else:
                break
        ok = False
        for sub in ast.walk(arg):
            if isinstance(sub, ast.BinOp) and isinstance(sub.op, ast.Sub) and any(
                    isinstance(x, ast.Call) and (dotted(x.func) in STABILISERS or
                                                 (isinstance(x.func, ast.Attribute) and
                                                  x.func.attr in ('max', 'logsumexp')))
                    for x in ast.walk(sub.right)):
                ok = True
        if isinstance(arg, (ast.Constant,)) or (isinstance(arg, ast.UnaryOp) and
                                                isinstance(arg.operand, ast.Constant)):
            ok = True
        if not ok:
            out.append(c)
    return out


def rule_N3(ctx, rid='N3', classes=None, floor=1):
    ctx.rule(rid, 'stabilised exponentials: every np.exp in the package is applied to a '
             'difference against a max / logsumexp reduction -- log-volumes and '
             'log-likelihoods are never exponentiated bare (under/overflow turns selections '
             'and ratios into 0, inf or nan at extreme scales)')
    n = 0
    for f in sorted(ctx.program.functions.values(), key=lambda x: x.qualname):
        if classes is not None and (f.cls is None or f.cls.name not in classes):
            continue
        calls = [c for c in walk_no_nested(f.node) if isinstance(c, ast.Call) and
                 dotted(c.func) in ('np.exp', 'math.exp', 'np.exp2', 'np.expm1')]
        if not calls:
            continue
        bad = unshifted_exponentials(f)
        n += len(calls)
        ctx.ob(rid, '%s:stabilised-exp' % f.qualname, not bad,
               f.where(bad[0]) if bad else f.where(),
               '%d exponential(s), each of a difference against a max / logsumexp' % len(calls)
               if not bad else
               '`%s` exponentiates a log-domain quantity without subtracting a max / logsumexp: '
               'for very small or very large volumes / likelihoods it is 0 or inf, and whatever '
               'is selected or weighted by it is wrong' % unparse(bad[0])[:60])
    ctx.require(n >= floor, 'N3 found only %d exponentials (floor %d)' % (n, floor))
    return n


def rule_N2(ctx, rid='N2'):
    ctx.rule(rid, 'log-volumes stay in log space: no volume getter takes the logarithm of a '
             'product or determinant computed in linear space (which under/overflows for '
             'narrow or high-dimensional ellipsoids while the log-volume is representable)')
    n = 0
    for f in ctx.program.functions.values():
        if f.name != 'log_v' and 'volume' not in f.name and f.name != 'n_eff' and \
                f.name != 'log_z':
            continue
        n += 1
        bad = linear_space_logs(f.node)
        ctx.ob(rid, '%s:log-space' % f.qualname, not bad, f.where(bad[0][0]) if bad else
               f.where(), 'computed from log-determinants / logsumexp' if not bad else
               '`%s` takes the logarithm of %s evaluated in linear space: -inf or inexact for '
               'small volumes although contains() is unaffected' % (
                   unparse(bad[0][0])[:60], bad[0][1]))
    ctx.require(n >= 5, 'N2 found only %d volume getters' % n)
    return n


# ---------------------------------------------------------------------------
# V1  the stored log-likelihood is the value the likelihood returned
# ---------------------------------------------------------------------------

PACKAGING = {'np.array', 'np.asarray', 'list', 'tuple', 'zip', 'map', 'np.squeeze',
             'np.atleast_1d', 'np.float64', 'float'}


def rule_V1(ctx, rid='V1'):
    ctx.rule(rid, 'value faithfulness: between the values returned by the user likelihood and '
             'the log_l array handed back by evaluate_likelihood there is only packaging '
             '(np.array, list, zip(*), element selection) -- no arithmetic, clipping, '
             'nan/inf replacement or any other value-changing call')
    from .cfg import cfg_of
    f = ctx.program.func('Sampler.evaluate_likelihood')
    cfg = cfg_of(f)
    rets = [n for n in cfg.nodes if n.kind == 'stmt' and isinstance(n.ast, ast.Return) and
            isinstance(n.ast.value, ast.Tuple) and n.ast.value.elts]
    ctx.require(rets, 'evaluate_likelihood does not return a tuple')
    bad = []
    seen = set()

    def walk(nid, e, depth=0):
        if depth > 10:
            return
        if isinstance(e, ast.Name):
            for d in cfg.defs_at(nid, e.id):
                if (d, e.id) in seen:
                    continue
                seen.add((d, e.id))
                dn = cfg.nodes[d]
                if dn.kind == 'stmt' and isinstance(dn.ast, ast.Assign):
                    walk(d, dn.ast.value, depth + 1)
                elif dn.kind == 'stmt' and isinstance(dn.ast, ast.AugAssign):
                    bad.append((dn.lineno, unparse(dn.ast)))
            return
        if isinstance(e, ast.Call):
            d = dotted(e.func) or ''
            if d == 'self.likelihood' or any(dotted(a) == 'self.likelihood' for a in e.args):
                return        # the user's values: nothing upstream of here is log_l
            if d in PACKAGING:
                for a in e.args:
                    walk(nid, a.value if isinstance(a, ast.Starred) else a, depth + 1)
                return
            if d.endswith('.map') or d == 'self.likelihood':
                return        # the user's values
            bad.append((e.lineno, unparse(e)[:60]))
            return
        if isinstance(e, (ast.ListComp, ast.GeneratorExp)):
            elt = e.elt
            if not (isinstance(elt, ast.Name) or (isinstance(elt, ast.Subscript) and
                                                  isinstance(elt.value, ast.Name))):
                bad.append((e.lineno, unparse(e)[:60]))
            for g in e.generators:
                walk(nid, g.iter, depth + 1)
            return
        if isinstance(e, ast.Subscript):
            walk(nid, e.value, depth + 1)
            return
        if isinstance(e, (ast.BinOp, ast.UnaryOp, ast.IfExp, ast.Compare, ast.BoolOp)):
            bad.append((e.lineno, unparse(e)[:60]))
            return

    for r in rets:
        walk(r.id, r.ast.value.elts[0])
    ctx.ob(rid, 'Sampler.evaluate_likelihood:log_l-is-returned-value', not bad, f.where(),
           'log_l is built from the likelihood\'s return values by packaging only' if not bad
           else 'log_l passes through `%s` (line %d): the stored value is not the value the '
           'likelihood returned for that point' % (bad[0][1], bad[0][0]))


def rule_N4(ctx, rid='N4', floor=3):
    """A list of per-member results (`[bound.contains(points) for bound in members]`) stacks the
    MEMBERS along axis 0 and the points along axis 1.  Its reduction to a per-point answer is
    over axis 0; `axis=1` (or no axis) reduces over the points - with a single member the result
    broadcasts silently against the per-point mask."""
    ctx.rule(rid, 'member-axis: a reduction of a list of per-member contains() results is taken '
             'over axis 0 (the members)')
    n = 0
    for f in sorted(ctx.program.functions.values(), key=lambda x: x.qualname):
        for c in walk_no_nested(f.node):
            if not (isinstance(c, ast.Call) and (dotted(c.func) or '') in (
                    'np.any', 'np.all', 'np.sum', 'np.amax', 'np.max', 'np.count_nonzero',
                    'np.logical_or.reduce', 'np.logical_and.reduce') and c.args and
                    isinstance(c.args[0], ast.ListComp)):
                continue
            lc = c.args[0]
            if not (isinstance(lc.elt, ast.Call) and isinstance(lc.elt.func, ast.Attribute) and
                    lc.elt.func.attr == 'contains'):
                continue
            ax = [k.value for k in c.keywords if k.arg == 'axis']
            if not ax and len(c.args) > 1:
                ax = [c.args[1]]
            ok = bool(ax) and isinstance(ax[0], ast.Constant) and ax[0].value == 0
            n += 1
            ctx.ob(rid, '%s:member-axis' % f.qualname, ok, f.where(c),
                   'reduced over the members' if ok else
                   '`%s` does not reduce over axis 0: the answer is no longer one value per point '
                   '(with a single member it broadcasts against the per-point mask and every '
                   'point gets the same verdict)' % unparse(c)[:70])
    ctx.require(n >= floor, 'N4 found only %d member reductions (floor %d)' % (n, floor))
    return n


def rule_G8(ctx, rid='G8'):
    """Every pool job of NautilusBound.sample draws from its OWN child generator: the list handed
    to pool.map is built element by element from `SeedSequence(..).spawn(n_jobs)`.  A replicated
    list (`spawn(1) * n_jobs`, `[rng] * n_jobs`) gives every job the same stream: the jobs return
    identical points, which are all appended - proposals are duplicated n_jobs times."""
    ctx.rule(rid, 'one-stream-per-job: the generators handed to the pool come one each from '
             'SeedSequence.spawn(number of jobs)')
    f = ctx.program.func('NautilusBound.sample')
    maps = [c for c in walk_no_nested(f.node) if isinstance(c, ast.Call) and
            isinstance(c.func, ast.Attribute) and c.func.attr == 'map' and len(c.args) == 2]
    ctx.require(maps, 'G8: pool.map call not found in NautilusBound.sample')
    n = 0
    for m in maps:
        it = m.args[1]
        if isinstance(it, ast.Name):
            ds = [x.value for x in walk_no_nested(f.node) if isinstance(x, ast.Assign) and
                  len(x.targets) == 1 and isinstance(x.targets[0], ast.Name) and
                  x.targets[0].id == it.id]
            ctx.require(len(ds) == 1, 'G8 not decided: `%s` bound %d times' % (it.id, len(ds)))
            it = ds[0]
        ctx.require(isinstance(it, (ast.ListComp, ast.BinOp, ast.List, ast.Call)),
                    'G8 not decided: job arguments `%s`' % unparse(it)[:50])
        ok = False
        why = 'not a comprehension over SeedSequence.spawn(..)'
        if isinstance(it, ast.ListComp) and len(it.generators) == 1:
            src = it.generators[0].iter
            if isinstance(src, ast.Call) and isinstance(src.func, ast.Attribute) and \
                    src.func.attr == 'spawn' and src.args:
                cnt = src.args[0]
                sizes = {'n_jobs', 'pool.size'}
                ok = unparse(cnt) in sizes or (isinstance(cnt, ast.Name) and any(
                    isinstance(x, ast.Assign) and isinstance(x.targets[0], ast.Name) and
                    x.targets[0].id == cnt.id and unparse(x.value) == 'pool.size'
                    for x in walk_no_nested(f.node)))
                why = 'spawn(%s) is not the number of jobs' % unparse(cnt)
            elif isinstance(src, ast.BinOp):
                why = 'the spawned children are replicated (`%s`)' % unparse(src)[:40]
        n += 1
        ctx.ob(rid, 'NautilusBound.sample:one-stream-per-job', ok, f.where(m),
               'each job receives its own child of one SeedSequence' if ok else
               'the generators of the pool jobs are %s: jobs sharing a stream return identical '
               'points, all of which are kept (duplicated proposals, volume estimate from '
               'correlated draws)' % why)
    return n

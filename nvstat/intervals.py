"""M6: interval closure of the periodic phase shift (DESIGN.md E4, M6).

An interval domain with open/closed ends and the documented float-mod transfer
function:  a % m (m > 0) lies in [0, m) when a >= 0 and in [0, m] (closed!) when a may
be negative, because the mathematically exact result m - eps rounds to m
(-1e-18 % 1 == 1.0 in CPython and NumPy).
"""
import ast
import math

from .core import AnalysisError
from .cfg import cfg_of
from .exprs import dotted, unparse, walk_no_nested, const_value

INF = float('inf')


class Iv:
    """Interval of reals with open/closed ends; TOP = (-inf, inf)."""
    __slots__ = ('lo', 'hi', 'lo_open', 'hi_open')

    def __init__(self, lo, hi, lo_open=False, hi_open=False):
        self.lo, self.hi = float(lo), float(hi)
        self.lo_open = bool(lo_open) or self.lo == -INF
        self.hi_open = bool(hi_open) or self.hi == INF

    @staticmethod
    def top():
        return Iv(-INF, INF)

    @staticmethod
    def const(c):
        return Iv(c, c)

    def is_top(self):
        return self.lo == -INF and self.hi == INF

    def nonneg(self):
        return self.lo >= 0

    def within(self, other):
        lo_ok = self.lo > other.lo or (self.lo == other.lo and (self.lo_open or
                                                                 not other.lo_open))
        hi_ok = self.hi < other.hi or (self.hi == other.hi and (self.hi_open or
                                                                 not other.hi_open))
        return lo_ok and hi_ok

    def hull(self, o):
        if self.lo < o.lo:
            lo, lo_open = self.lo, self.lo_open
        elif o.lo < self.lo:
            lo, lo_open = o.lo, o.lo_open
        else:
            lo, lo_open = self.lo, self.lo_open and o.lo_open
        if self.hi > o.hi:
            hi, hi_open = self.hi, self.hi_open
        elif o.hi > self.hi:
            hi, hi_open = o.hi, o.hi_open
        else:
            hi, hi_open = self.hi, self.hi_open and o.hi_open
        return Iv(lo, hi, lo_open, hi_open)

    def __add__(self, o):
        # floating-point addition rounds to nearest: an open end of the exact result can be
        # attained (tiny + 1.0 == 1.0), so the sum's ends are closed unless an operand is the
        # exact constant 0
        if (o.lo == o.hi == 0.0) or (self.lo == self.hi == 0.0):
            other = self if o.lo == o.hi == 0.0 else o
            return Iv(other.lo, other.hi, other.lo_open, other.hi_open)
        return Iv(self.lo + o.lo, self.hi + o.hi, False, False)

    def neg(self):
        return Iv(-self.hi, -self.lo, self.hi_open, self.lo_open)

    def __sub__(self, o):
        return self + o.neg()

    def mul_const(self, c):
        if c >= 0:
            return Iv(self.lo * c, self.hi * c, self.lo_open, self.hi_open) if c != 0 else \
                Iv.const(0)
        return Iv(self.hi * c, self.lo * c, self.hi_open, self.lo_open)

    def __mul__(self, o):
        if o.lo == o.hi and not o.lo_open:
            return self.mul_const(o.lo)
        if self.lo == self.hi and not self.lo_open:
            return o.mul_const(self.lo)
        if self.is_top() or o.is_top():
            return Iv.top()
        cands = []
        for a, ao in ((self.lo, self.lo_open), (self.hi, self.hi_open)):
            for b, bo in ((o.lo, o.lo_open), (o.hi, o.hi_open)):
                v = a * b if not (math.isinf(a) or math.isinf(b)) else (
                    0.0 if a == 0 or b == 0 else math.copysign(INF, a) * math.copysign(1, b))
                cands.append((v, ao or bo))
        lo = min(cands)
        hi = max(cands, key=lambda t: (t[0], not t[1]))
        return Iv(lo[0], hi[0], lo[1], hi[1])

    def mod(self, m):
        """float a % m for a constant m > 0."""
        if m <= 0:
            return Iv.top()
        if self.nonneg() and self.hi < m or (self.nonneg() and self.hi == m and self.hi_open):
            return Iv(self.lo, self.hi, self.lo_open, self.hi_open)   # already reduced
        if self.nonneg():
            return Iv(0, m, False, True)
        return Iv(0, m, False, False)       # a may be negative: the result can round to m

    def frac(self):
        """x - floor(x): same rounding hazard for negative x."""
        if self.nonneg():
            return Iv(0, 1, False, True)
        return Iv(0, 1, False, False)

    def __repr__(self):
        return '%s%g, %g%s' % ('(' if self.lo_open else '[', self.lo, self.hi,
                               ')' if self.hi_open else ']')


UNIT = Iv(0, 1, False, True)
NEXTAFTER_1_0 = math.nextafter(1.0, 0.0)


class Lin:
    """Linear form a*col + b*center + c (None = not linear)."""

    def __init__(self, a=0.0, b=0.0, c=0.0):
        self.a, self.b, self.c = a, b, c

    def __add__(self, o):
        return Lin(self.a + o.a, self.b + o.b, self.c + o.c)

    def scale(self, k):
        return Lin(self.a * k, self.b * k, self.c * k)

    def is_const(self):
        return self.a == 0 and self.b == 0

    def tup(self):
        return (self.a, self.b, self.c)


class ShiftEval:
    """Abstract evaluation of the expressions stored into a periodic column."""

    def __init__(self, func, col_name, col_index, env, inverse_param, inverse_value,
                 centers_iv):
        self.func = func
        self.col_name = col_name        # name of the array being transformed
        self.col_index = col_index      # name of the loop variable holding the column index
        self.env = env                  # local name -> Iv
        self.inv = inverse_param
        self.inv_value = inverse_value
        self.centers = centers_iv
        self.col = UNIT                 # current abstract value of the column
        self.premod = []                # linear forms of the operands of the first reduction
        self.shift_form = None          # linear form column + b*centre + c that is applied

    def is_col(self, e):
        """points_t[:, dim] / points_t[..., dim]"""
        if isinstance(e, ast.Subscript) and isinstance(e.value, ast.Name) and \
                e.value.id in self.col_name:
            sl = e.slice
            if isinstance(sl, ast.Tuple) and len(sl.elts) == 2 and \
                    isinstance(sl.elts[1], ast.Name) and sl.elts[1].id == self.col_index:
                return True
            # vectorised: all periodic columns at once, paired positionally with self.centers
            if self.col_index == '<self.periodic>' and isinstance(sl, ast.Tuple) and \
                    len(sl.elts) == 2 and isinstance(sl.elts[1], ast.Attribute) and \
                    sl.elts[1].attr == 'periodic':
                return True
        return False

    def is_center(self, e):
        if self.col_index == '<self.periodic>':
            return isinstance(e, ast.Attribute) and e.attr == 'centers'
        return isinstance(e, ast.Subscript) and isinstance(e.value, ast.Attribute) and \
            e.value.attr == 'centers'

    def wide(self, e):
        """Is the value computed in double precision whatever the dtype of the array --
        i.e. does the expression involve the float64 centres, a float literal or a local
        computed from them?  Such a value is ROUNDED when stored into a narrower column."""
        def source(x):
            for y in ast.walk(x):
                if isinstance(y, ast.Attribute) and y.attr == 'centers':
                    return True
                if isinstance(y, ast.Constant) and isinstance(y.value, float):
                    return True
                if isinstance(y, ast.Name) and y.id in getattr(self, 'env_wide', ()):
                    return True
            return False
        # only ARITHMETIC with a double-precision operand produces a value that is not already
        # representable in the column's dtype; selecting between the column and a constant
        # (np.where) or comparing does not
        for x in ast.walk(e):
            if isinstance(x, ast.BinOp) and isinstance(x.op, (ast.Add, ast.Sub, ast.Mult, ast.Div,
                                                              ast.Mod, ast.Pow)) and \
                    (source(x.left) or source(x.right)):
                return True
            if isinstance(x, ast.Call) and dotted(x.func) in ('np.mod', 'np.remainder', 'np.fmod',
                                                              'np.add', 'np.subtract') and \
                    any(source(a) for a in x.args):
                return True
        if isinstance(e, ast.Name) and e.id in getattr(self, 'env_wide', ()):
            return True
        return False

    def cond(self, e):
        """Truth of a branch condition, or None."""
        if isinstance(e, ast.Name) and e.id == self.inv:
            return self.inv_value
        if isinstance(e, ast.UnaryOp) and isinstance(e.op, ast.Not):
            v = self.cond(e.operand)
            return None if v is None else (not v)
        return None

    def ev(self, e):
        """-> (Iv, Lin or None)"""
        if isinstance(e, ast.Constant) and isinstance(e.value, (int, float)) and \
                not isinstance(e.value, bool):
            return Iv.const(e.value), Lin(c=float(e.value))
        if isinstance(e, ast.UnaryOp) and isinstance(e.op, (ast.USub, ast.UAdd)):
            iv, ln = self.ev(e.operand)
            if isinstance(e.op, ast.UAdd):
                return iv, ln
            return iv.neg(), (ln.scale(-1) if ln else None)
        if self.is_col(e):
            return self.col, Lin(a=1.0)
        if self.is_center(e):
            return self.centers, Lin(b=1.0)
        if isinstance(e, ast.Name) and e.id in self.env:
            return self.env[e.id]
        if isinstance(e, ast.IfExp):
            c = self.cond(e.test)
            if c is True:
                return self.ev(e.body)
            if c is False:
                return self.ev(e.orelse)
            (a, la), (b, lb) = self.ev(e.body), self.ev(e.orelse)
            return a.hull(b), None
        if isinstance(e, ast.BinOp):
            (a, la), (b, lb) = self.ev(e.left), self.ev(e.right)
            if isinstance(e.op, ast.Add):
                ln = la + lb if la and lb else None
                if ln is not None and ln.a == 1.0 and ln.b != 0 and self.shift_form is None:
                    self.shift_form = ln        # column +/- centre +/- const: the applied shift
                return a + b, ln
            if isinstance(e.op, ast.Sub):
                # x - np.floor(x)
                if isinstance(e.right, ast.Call) and dotted(e.right.func) in (
                        'np.floor', 'math.floor') and e.right.args and \
                        unparse(e.right.args[0]) == unparse(e.left):
                    self.premod.append(la)
                    return a.frac(), None
                ln = la + lb.scale(-1) if la and lb else None
                if ln is not None and ln.a == 1.0 and ln.b != 0 and self.shift_form is None:
                    self.shift_form = ln
                return a - b, ln
            if isinstance(e.op, ast.Mult):
                ln = None
                if la and lb:
                    if la.is_const():
                        ln = lb.scale(la.c)
                    elif lb.is_const():
                        ln = la.scale(lb.c)
                return a * b, ln
            if isinstance(e.op, ast.Mod):
                if b.lo == b.hi:
                    self.premod.append(la)
                    return a.mod(b.lo), None
                return Iv.top(), None
            if isinstance(e.op, ast.Div) and b.lo == b.hi and b.lo != 0:
                return a.mul_const(1.0 / b.lo), (la.scale(1.0 / b.lo) if la else None)
            raise AnalysisError('M6: operator %s outside the interval vocabulary (line %d)'
                                % (type(e.op).__name__, e.lineno))
        if isinstance(e, ast.Call):
            cn = dotted(e.func)
            if cn in ('np.mod', 'np.remainder') and len(e.args) == 2:
                (a, la), (b, lb) = self.ev(e.args[0]), self.ev(e.args[1])
                if b.lo == b.hi:
                    self.premod.append(la)
                    return a.mod(b.lo), None
                return Iv.top(), None
            if cn == 'np.fmod' and len(e.args) == 2:
                (a, la), (b, lb) = self.ev(e.args[0]), self.ev(e.args[1])
                self.premod.append(la)
                if b.lo == b.hi and b.lo > 0:
                    if a.nonneg():
                        return Iv(0, b.lo, False, True), None
                    return Iv(-b.lo, b.lo, True, True), None     # keeps the dividend's sign
                return Iv.top(), None
            if cn == 'np.floor' and e.args:
                a, _ = self.ev(e.args[0])
                return Iv(math.floor(a.lo) if not math.isinf(a.lo) else a.lo,
                          math.floor(a.hi) if not math.isinf(a.hi) else a.hi), None
            if cn == 'np.nextafter' and len(e.args) == 2:
                x, y = const_value(e.args[0]), const_value(e.args[1])
                if x is not None and y is not None:
                    v = math.nextafter(float(x), float(y))
                    return Iv.const(v), Lin(c=v)
            if cn == 'np.clip' and len(e.args) == 3:
                (a, _), (lo, _), (hi, _) = (self.ev(x) for x in e.args)
                return Iv(max(a.lo, lo.lo), min(a.hi, hi.hi),
                          a.lo_open and a.lo >= lo.lo, a.hi_open and a.hi <= hi.hi), None
            if cn in ('np.minimum', 'np.fmin') and len(e.args) == 2:
                (a, _), (b, _) = self.ev(e.args[0]), self.ev(e.args[1])
                hi, ho = (a.hi, a.hi_open) if a.hi < b.hi else (
                    (b.hi, b.hi_open) if b.hi < a.hi else (a.hi, a.hi_open or b.hi_open))
                return Iv(min(a.lo, b.lo), hi, a.lo_open if a.lo <= b.lo else b.lo_open, ho), None
            if cn in ('np.maximum', 'np.fmax') and len(e.args) == 2:
                (a, _), (b, _) = self.ev(e.args[0]), self.ev(e.args[1])
                lo, lo_o = (a.lo, a.lo_open) if a.lo > b.lo else (
                    (b.lo, b.lo_open) if b.lo > a.lo else (a.lo, a.lo_open or b.lo_open))
                return Iv(lo, max(a.hi, b.hi), lo_o, a.hi_open if a.hi >= b.hi else b.hi_open), \
                    None
            if cn == 'np.where' and len(e.args) == 3:
                return self._where(e), None
            if cn in ('np.abs', 'np.absolute', 'abs') and e.args:
                a, _ = self.ev(e.args[0])
                if a.nonneg():
                    return a, None
                return Iv(0, max(abs(a.lo), abs(a.hi))), None
            if cn in ('np.asarray', 'np.array', 'np.copy', 'float', 'np.float64') and e.args:
                return self.ev(e.args[0])
            raise AnalysisError('M6: call %s outside the interval vocabulary (line %d)'
                                % (cn, e.lineno))
        if isinstance(e, ast.Name):
            raise AnalysisError('M6: value of local %r unknown to the interval analysis (line %d)'
                                % (e.id, e.lineno))
        raise AnalysisError('M6: expression `%s` outside the interval vocabulary'
                            % unparse(e)[:60])

    def _refine(self, x_iv, cmp_, truth):
        """Refine x_iv with `x OP const` being `truth`."""
        if not (isinstance(cmp_, ast.Compare) and len(cmp_.ops) == 1):
            return x_iv
        c = const_value(cmp_.comparators[0])
        if c is None:
            try:
                civ, _ = self.ev(cmp_.comparators[0])
                c = civ.lo if civ.lo == civ.hi else None
            except AnalysisError:
                c = None
        if c is None:
            return x_iv
        op = cmp_.ops[0]
        kinds = {ast.GtE: '>=', ast.Gt: '>', ast.LtE: '<=', ast.Lt: '<', ast.Eq: '=='}
        k = kinds.get(type(op))
        if k is None:
            return x_iv
        if not truth:
            k = {'>=': '<', '>': '<=', '<=': '>', '<': '>=', '==': '!='}[k]
        lo, hi, lo_o, hi_o = x_iv.lo, x_iv.hi, x_iv.lo_open, x_iv.hi_open
        if k == '<' and (c < hi or (c == hi and not hi_o)):
            hi, hi_o = c, True
        elif k == '<=' and c < hi:
            hi, hi_o = c, False
        elif k == '>' and (c > lo or (c == lo and not lo_o)):
            lo, lo_o = c, True
        elif k == '>=' and c > lo:
            lo, lo_o = c, False
        elif k == '==':
            return Iv.const(c)
        elif k == '!=' and c == hi and not hi_o:
            hi_o = True
        elif k == '!=' and c == lo and not lo_o:
            lo_o = True
        return Iv(lo, hi, lo_o, hi_o)

    def _where(self, e):
        cond, a, b = e.args
        if isinstance(cond, ast.Compare) and len(cond.ops) == 1:
            x = cond.left
            xiv, _ = self.ev(x)
            xt = self._refine(xiv, cond, True)
            xf = self._refine(xiv, cond, False)

            def ev_with(arm, xv):
                if unparse(arm) == unparse(x):
                    return xv
                # evaluate the arm with x refined by the branch condition
                if isinstance(x, ast.Name) and x.id in self.env:
                    old_ = self.env[x.id]
                    self.env[x.id] = (xv, old_[1])
                    try:
                        return self.ev(arm)[0]
                    finally:
                        self.env[x.id] = old_
                if self.is_col(x):
                    old_ = self.col
                    self.col = xv
                    try:
                        return self.ev(arm)[0]
                    finally:
                        self.col = old_
                return self.ev(arm)[0]
            return ev_with(a, xt).hull(ev_with(b, xf))
        return self.ev(a)[0].hull(self.ev(b)[0])


def centers_interval(prog):
    """Interval of PhaseShift.centers established by every assignment to it."""
    out = None
    cls = prog.cls('PhaseShift')
    n_sites = 0
    for f in cls.methods.values():
        for n in walk_no_nested(f.node):
            if not isinstance(n, ast.Assign):
                continue
            for t in n.targets:
                base = t
                while isinstance(base, ast.Subscript):
                    base = base.value
                if isinstance(base, ast.Attribute) and base.attr == 'centers':
                    n_sites += 1
                    v = n.value
                    iv = None
                    cn = dotted(v.func) if isinstance(v, ast.Call) else None
                    if cn in ('np.zeros', 'np.zeros_like'):
                        iv = Iv.const(0)
                    elif cn in ('np.ones', 'np.ones_like'):
                        iv = Iv.const(1)
                    elif isinstance(v, ast.BinOp) and isinstance(v.op, ast.Mod) and \
                            const_value(v.right) == 1:
                        iv = Iv(0, 1)        # operand sign unknown: closed
                    elif cn in ('np.mod', 'np.remainder') and len(v.args) == 2 and \
                            const_value(v.args[1]) == 1:
                        iv = Iv(0, 1)
                    elif isinstance(v, ast.Subscript) and isinstance(v.value, ast.Attribute) \
                            and v.value.attr == 'attrs':
                        iv = None             # restored from a file: the written invariant
                        continue
                    else:
                        iv = Iv.top()
                    out = iv if out is None else out.hull(iv)
    if out is None:
        raise AnalysisError('no assignment to PhaseShift.centers found (M6 anchor)')
    return out, n_sites


def _whole_array_arithmetic(func, pts):
    """An arithmetic expression one of whose operands is the whole input array (the
    parameter, a copy / asarray of it, or a local bound to one) rather than a column
    selection of it; None if there is none."""
    whole = {pts}
    changed = True
    while changed:
        changed = False
        for st in walk_no_nested(func.node):
            if isinstance(st, ast.Assign) and len(st.targets) == 1 and \
                    isinstance(st.targets[0], ast.Name) and st.targets[0].id not in whole:
                v = st.value
                if isinstance(v, ast.Call) and v.args and (
                        dotted(v.func) in ('np.copy', 'np.array', 'np.asarray',
                                           'np.atleast_2d', 'np.asanyarray') or
                        (isinstance(v.func, ast.Attribute) and v.func.attr == 'copy')):
                    a = v.args[0] if dotted(v.func) else v.func.value
                    if isinstance(a, ast.Name) and a.id in whole:
                        whole.add(st.targets[0].id)
                        changed = True
                elif isinstance(v, ast.Call) and isinstance(v.func, ast.Attribute) and \
                        v.func.attr == 'copy' and isinstance(v.func.value, ast.Name) and \
                        v.func.value.id in whole:
                    whole.add(st.targets[0].id)
                    changed = True
    def is_whole(e):
        if isinstance(e, ast.Name):
            return e.id in whole
        if isinstance(e, ast.BinOp):
            return is_whole(e.left) or is_whole(e.right)
        if isinstance(e, ast.UnaryOp):
            return is_whole(e.operand)
        return False
    changed = True
    while changed:        # locals bound to whole-array arithmetic are whole arrays too
        changed = False
        for st in walk_no_nested(func.node):
            if isinstance(st, ast.Assign) and len(st.targets) == 1 and \
                    isinstance(st.targets[0], ast.Name) and st.targets[0].id not in whole and \
                    is_whole(st.value):
                whole.add(st.targets[0].id)
                changed = True
    for n in walk_no_nested(func.node):
        if isinstance(n, ast.BinOp) and isinstance(n.op, (ast.Mod, ast.FloorDiv)) and \
                is_whole(n.left):
            return n
        if isinstance(n, ast.AugAssign) and isinstance(n.op, ast.Mod) and \
                isinstance(n.target, ast.Name) and n.target.id in whole:
            return n
        if isinstance(n, ast.Call) and dotted(n.func) in ('np.mod', 'np.remainder', 'np.fmod',
                                                            'np.floor') and n.args and \
                is_whole(n.args[0]):
            return n
    return None


def rule_M6(ctx, rid='M6'):
    ctx.rule(rid, 'interval closure: with input columns in [0,1) and centers in the interval '
             'established by their assignments, every value stored into a periodic column by '
             'PhaseShift.transform is in [0,1), in both directions; only periodic columns are '
             'stored to; the output is a fresh copy; forward and inverse shifts are opposite')
    prog = ctx.program
    f = prog.func('PhaseShift.transform')
    cfg = cfg_of(f)
    centers, n_sites = centers_interval(prog)
    params = [p for p in f.params if p != f.self_name]
    ctx.require(len(params) >= 2, 'PhaseShift.transform lost its inverse parameter')
    pts, inv = params[0], params[1]
    # (c) fresh copy
    rets = [n for n in walk_no_nested(f.node) if isinstance(n, ast.Return)]
    ctx.require(rets, 'PhaseShift.transform has no return')
    # arithmetic applied to the whole array (not to a periodic column selection) also changes
    # the non-periodic columns: values outside [0,1) there would be wrapped into the cube
    whole = _whole_array_arithmetic(f, pts)
    if whole is not None:
        ctx.ob(rid, 'PhaseShift.transform:periodic-columns-only', False, f.where(whole),
               '`%s` reduces the whole array modulo one: non-periodic coordinates '
               'are no longer left untouched (a value outside [0,1) in a non-periodic column is '
               'wrapped into the unit cube, so contains() accepts points outside it)'
               % unparse(whole)[:60])
        ctx.note('M6: closure not evaluated for the whole-array form')
        return 0
    out_names = set()
    for r in rets:
        ctx.require(isinstance(r.value, ast.Name), 'PhaseShift.transform returns a non-name')
        out_names.add(r.value.id)
    fresh = True
    for name in out_names:
        defs = [n for n in walk_no_nested(f.node) if isinstance(n, ast.Assign) and
                any(isinstance(t, ast.Name) and t.id == name for t in n.targets)]
        for d in defs:
            cn = dotted(d.value.func) if isinstance(d.value, ast.Call) else None
            is_copy = cn in ('np.copy', 'np.array', 'np.zeros_like', 'np.empty_like') or (
                isinstance(d.value, ast.Call) and isinstance(d.value.func, ast.Attribute) and
                d.value.func.attr == 'copy')
            if not is_copy:
                fresh = False
        if not defs:
            fresh = False
    ctx.ob(rid, 'PhaseShift.transform:fresh-copy', fresh, f.where(),
           'the returned array is a fresh copy of the argument' if fresh else
           'the returned array may alias the argument: the caller\'s points would be shifted in '
           'place')
    # locate the loop over self.periodic
    loops = [n for n in walk_no_nested(f.node) if isinstance(n, ast.For)]
    vec_stores = [st for st in f.node.body if isinstance(st, (ast.Assign, ast.AugAssign)) and
                  isinstance(st.targets[0] if isinstance(st, ast.Assign) else st.target,
                             ast.Subscript) and
                  'periodic' in unparse((st.targets[0] if isinstance(st, ast.Assign)
                                         else st.target).slice)]
    if vec_stores and not loops:
        pseudo = ast.For(target=ast.Name(id='<self.periodic>', ctx=ast.Store()),
                         iter=ast.Attribute(value=ast.Name(id=f.self_name, ctx=ast.Load()),
                                            attr='periodic', ctx=ast.Load()),
                         body=[st for st in f.node.body if st in vec_stores or
                               (isinstance(st, ast.Assign) and
                                isinstance(st.targets[0], ast.Name) and
                                st.targets[0].id not in out_names and
                                f.node.body.index(st) > f.node.body.index(vec_stores[0]))],
                         orelse=[])
        ast.copy_location(pseudo, vec_stores[0])
        loops = [pseudo]
    ctx.require(loops, 'PhaseShift.transform: loop over the periodic dimensions not found')
    n_store = 0
    for lp in loops:
        it = lp.iter
        idx_var = None
        if isinstance(lp.target, ast.Name) and lp.target.id == '<self.periodic>':
            idx_var = '<self.periodic>'
        elif isinstance(it, ast.Call) and dotted(it.func) == 'enumerate' and it.args and \
                dotted(it.args[0]) == '%s.periodic' % f.self_name and \
                isinstance(lp.target, ast.Tuple):
            idx_var = lp.target.elts[1].id
        elif dotted(it) == '%s.periodic' % f.self_name and isinstance(lp.target, ast.Name):
            idx_var = lp.target.id
        stores = [s for s in ast.walk(lp) if isinstance(s, (ast.Assign, ast.AugAssign)) and
                  isinstance(s.targets[0] if isinstance(s, ast.Assign) else s.target,
                             ast.Subscript) and isinstance(s, ast.Assign) and
                  isinstance(s.targets[0].value, ast.Name) and
                  s.targets[0].value.id in out_names]
        for s in stores:
            sl = s.targets[0].slice
            col_ok = (idx_var is not None and isinstance(sl, ast.Tuple) and len(sl.elts) == 2
                      and ((isinstance(sl.elts[1], ast.Name) and sl.elts[1].id == idx_var) or
                           (idx_var == '<self.periodic>' and
                            dotted(sl.elts[1]) == '%s.periodic' % f.self_name)) and
                      isinstance(sl.elts[0], (ast.Slice, ast.Constant)))
            ctx.ob(rid, 'PhaseShift.transform:periodic-columns-only', col_ok, f.where(s),
                   'store targets column periodic[i], paired with centers[i] by iterating '
                   'self.periodic itself' if col_ok else
                   'store `%s`: the loop `%s` does not iterate self.periodic itself (in order), '
                   'so the column is not periodic[i] for the centers[i] that is applied'
                   % (unparse(s.targets[0]), unparse(it)))
        if idx_var is None:
            continue
        lin = {}
        for direction, invval in (('forward', False), ('inverse', True)):
            se = ShiftEval(f, out_names | {pts}, idx_var, {}, inv, invval, centers)
            se.env_wide = set()
            # locals bound before the loop (e.g. a hoisted sign)
            for s0 in f.node.body:
                if s0 is lp:
                    break
                if isinstance(s0, ast.Assign) and len(s0.targets) == 1 and \
                        isinstance(s0.targets[0], ast.Name) and \
                        s0.targets[0].id not in out_names:
                    try:
                        se.env[s0.targets[0].id] = se.ev(s0.value)
                        if se.wide(s0.value):
                            se.env_wide.add(s0.targets[0].id)
                    except AnalysisError:
                        pass

            def stored(iv, value):
                # a double-precision result stored into a column of unknown (possibly
                # narrower) dtype is rounded to nearest: an open upper end can be reached
                if se.wide(value) and iv.hi_open and not math.isinf(iv.hi):
                    return Iv(iv.lo, iv.hi, iv.lo_open, False)
                return iv
            for s in lp.body:
                if isinstance(s, ast.Assign) and isinstance(s.targets[0], ast.Subscript) and \
                        se.is_col(s.targets[0]):
                    iv, ln = se.ev(s.value)
                    se.col = stored(iv, s.value)
                    n_store += 1
                elif isinstance(s, ast.Assign) and isinstance(s.targets[0], ast.Name):
                    se.env[s.targets[0].id] = se.ev(s.value)
                    if se.wide(s.value):
                        se.env_wide.add(s.targets[0].id)
                elif isinstance(s, ast.AugAssign) and se.is_col(s.target):
                    iv, ln = se.ev(ast.BinOp(left=s.target, op=s.op, right=s.value))
                    se.col = stored(iv, s.value)
                    n_store += 1
                elif isinstance(s, ast.Assign) and isinstance(s.targets[0], ast.Subscript):
                    # masked store: points_t[mask, dim] = const  with mask a comparison on col
                    tgt = s.targets[0]
                    sl = tgt.slice
                    if isinstance(sl, ast.Tuple) and len(sl.elts) == 2 and \
                            isinstance(sl.elts[0], ast.Compare) and se.is_col(sl.elts[0].left):
                        kept = se._refine(se.col, sl.elts[0], False)
                        newv, _ = se.ev(s.value)
                        se.col = kept.hull(newv)
                        n_store += 1
                    elif isinstance(tgt.value, ast.Name) and tgt.value.id in out_names:
                        continue      # reported above under periodic-columns-only
                    else:
                        raise AnalysisError('M6: store `%s` outside the vocabulary'
                                            % unparse(tgt))
                elif isinstance(s, (ast.Expr, ast.Pass)):
                    continue
                else:
                    raise AnalysisError('M6: statement at line %d outside the vocabulary'
                                        % s.lineno)
            ok = se.col.within(UNIT)
            ctx.ob(rid, 'PhaseShift.transform:%s-closure' % direction, ok, f.where(lp),
                   'column in [0,1), centers in %r => stored value in %r %s [0,1)' % (
                       centers, se.col, 'within' if ok else 'NOT within') + (
                       '' if ok else ' (a sum that may be negative reduced with a single `% 1` '
                       'can round to exactly 1.0; so can a double-precision result when it is '
                       'stored into a float32 column -- the last statement must reduce the '
                       'STORED column)'),
                   {'centers': repr(centers), 'result': repr(se.col)})
            lin[direction] = [se.shift_form.tup()] if se.shift_form is not None else []
        # (d) forward and inverse are opposite shifts of the same magnitude
        fw, bw = lin.get('forward'), lin.get('inverse')
        ok = bool(fw) and bool(bw) and fw[0] is not None and bw[0] is not None and \
            fw[0][0] == 1.0 and bw[0][0] == 1.0 and \
            abs(fw[0][1] + bw[0][1]) < 1e-12 and abs(fw[0][2] + bw[0][2]) < 1e-12 and \
            (fw[0][1] != 0)
        half = bool(fw) and fw[0] is not None and fw[0][1] == -1.0 and \
            abs((fw[0][2] - 0.5) % 1.0) < 1e-12
        ctx.ob(rid, 'PhaseShift.transform:forward-centres-at-half', half, f.where(lp),
               'the forward shift is x - centre + 1/2 (mod 1): the centre of the points lands on '
               '1/2, the largest gap on the wrap position' if half else
               'the forward shift adds %s (column, centre, constant coefficients), not '
               'x - centre + 1/2: the points are not centred, so the largest gap is not what '
               'straddles the boundary' % (fw,))
        ctx.ob(rid, 'PhaseShift.transform:inverse-is-opposite-shift', ok, f.where(lp),
               'before reduction forward adds %s and inverse adds %s (col, center, const '
               'coefficients)' % (fw, bw))
    ctx.extra['centers_interval'] = repr(centers)
    ctx.extra['centers_assignment_sites'] = n_sites
    return n_store

"""Obligations, findings, evidence and the exit-code contract (DESIGN.md 1.3)."""
import json
import os
import re
import time

VERIF = os.path.dirname(os.path.dirname(os.path.abspath(__file__)))


class AnalysisError(Exception):
    """The analysis could not be carried out (exit 2, never a violation)."""


class Obligation:
    __slots__ = ('rule', 'construct', 'ok', 'where', 'what', 'detail')

    def __init__(self, rule, construct, ok, where, what, detail=None):
        self.rule = rule
        self.construct = construct
        self.ok = bool(ok)
        self.where = where
        self.what = what
        self.detail = detail

    def as_dict(self):
        d = {'rule': self.rule, 'construct': self.construct, 'ok': self.ok,
             'where': self.where, 'what': self.what}
        if self.detail is not None:
            d['detail'] = self.detail
        return d


def _slug(s):
    return re.sub(r'[^A-Za-z0-9_.=-]+', '_', s)[:120]


class Ctx:
    """Collects the obligations of one property check."""

    def __init__(self, prop, tier, program, seed=0):
        self.prop = prop
        self.tier = tier
        self.program = program
        self.seed = seed
        self.obligations = []
        self.rules = {}           # rule id -> one-line description
        self.instances = {}       # rule id -> count of instances evaluated
        self.notes = []
        self.not_decided = []
        self.assumptions = []
        self.extra = {}
        self.t0 = time.time()
        self.cur_rule = None
        self.floor_failures = []

    # ------------------------------------------------------------------
    def rule(self, rid, text):
        self.rules[rid] = text
        self.instances.setdefault(rid, 0)
        self.cur_rule = rid

    def ob(self, rule, construct, ok, where, what, detail=None):
        """Record one obligation.  `construct` is the stable key of the finding."""
        self.obligations.append(Obligation(rule, construct, ok, where, what, detail))
        self.instances[rule] = self.instances.get(rule, 0) + 1
        return bool(ok)

    def floor(self, rule, n, what):
        """Fail closed when a rule found fewer instances than confirmed by hand."""
        got = self.instances.get(rule, 0)
        if got < n:
            # recorded, and turned into exit 2 by the driver unless a violation was found
            # (an edit that removes instances usually also breaks an obligation: the
            # violation is the more specific verdict)
            self.floor_failures.append('rule %s matched %d %s, floor is %d (anchor drift: a '
                                       'rule matching nothing would pass vacuously)'
                                       % (rule, got, what, n))

    def require(self, cond, msg):
        if not cond:
            raise AnalysisError(msg)

    def note(self, msg):
        self.notes.append(msg)

    # ------------------------------------------------------------------
    def failures(self):
        return [o for o in self.obligations if not o.ok]


def load_known():
    path = os.path.join(VERIF, 'known_findings.json')
    if not os.path.exists(path):
        return []
    with open(path) as fh:
        return json.load(fh).get('findings', [])


def finish(ctx, level_text):
    """Write evidence, reports; print the verdict lines; return the exit code."""
    known = [k for k in load_known() if k.get('property') == ctx.prop
             and k.get('status') == 'known']
    fails = ctx.failures()
    new, tolerated = [], []
    for o in fails:
        hit = [k for k in known if k.get('rule') == o.rule and k.get('construct') == o.construct]
        (tolerated if hit else new).append(o)

    out_base = os.environ.get('NVSTAT_OUT') or VERIF     # selftest variants write elsewhere
    os.makedirs(os.path.join(out_base, 'reports'), exist_ok=True)
    os.makedirs(os.path.join(out_base, 'evidence'), exist_ok=True)

    out_lines = []
    for o in tolerated:
        out_lines.append('KNOWN-FINDING: property=%s %s %s %s' % (ctx.prop, o.rule, o.construct,
                                                                  o.what))
    replay_paths = []
    for o in new:
        rp = os.path.join('reports', '%s.%s.%s.json' % (ctx.prop, _slug(o.rule),
                                                         _slug(o.construct)))
        with open(os.path.join(out_base, rp), 'w') as fh:
            json.dump({'property': ctx.prop, 'rule': o.rule, 'rule_text': ctx.rules.get(o.rule),
                       'construct': o.construct, 'where': o.where, 'what': o.what,
                       'detail': o.detail, 'source_digest': ctx.program.digest,
                       'repo': ctx.program.repo}, fh, indent=1, default=str)
        replay_paths.append(rp)
        out_lines.append('FINDING property=%s rule=%s construct=%s at %s: %s'
                         % (ctx.prop, o.rule, o.construct, o.where, o.what))
        out_lines.append('VIOLATION property=%s replay=%s' % (ctx.prop, rp))

    obligations = len(ctx.obligations)
    discharged = sum(1 for o in ctx.obligations if o.ok)
    constructs = sorted({(o.rule, o.construct) for o in ctx.obligations})
    # a few discharged obligations written out, chosen by seed
    oks = [o for o in ctx.obligations if o.ok]
    samples = []
    if oks:
        step = max(1, len(oks) // 8)
        start = ctx.seed % step if step else 0
        samples = [o.as_dict() for o in oks[start::step][:8]]
    samples += [o.as_dict() for o in fails[:8]]
    prog = ctx.program
    coverage = {
        'explanation': level_text + ' Rules applied: ' + '; '.join(
            '%s = %s' % (k, v) for k, v in sorted(ctx.rules.items())),
        'obligations': obligations,
        'discharged': discharged,
        'evaluations': obligations,
        'distinct_nontrivial': len(constructs),
        'rule': 'one evaluation per rule obligation; distinct = distinct (rule, construct) pairs '
                'that carried at least one obligation on this tree',
        'rule_instances': dict(sorted(ctx.instances.items())),
        'samples': samples,
        'exhaustive': True,
        'functions_analysed': len(prog.functions),
        'modules_analysed': len(prog.modules),
        'classes_analysed': len(prog.classes),
        'source_lines': prog.n_lines,
        'literal_key_loops_unrolled': prog.n_unrolled,
        'source_digest': prog.digest,
        'repo': prog.repo,
        'clauses_not_decided': ctx.not_decided,
        'notes': ctx.notes,
        'known_findings_tolerated': [o.construct for o in tolerated],
    }
    coverage.update(ctx.extra)
    ev = {
        'property_id': ctx.prop,
        'tier': ctx.tier,
        'seed': ctx.seed,
        'level': 'other',
        'coverage': coverage,
        'assumptions': ctx.assumptions,
        'wall_s': round(time.time() - ctx.t0, 3),
        'violations': len(new),
    }
    with open(os.path.join(out_base, 'evidence', ctx.prop + '.json'), 'w') as fh:
        json.dump(ev, fh, indent=1, default=str)

    if os.environ.get('NVSTAT_DUMP'):       # developer aid: the full obligation list
        with open(os.environ['NVSTAT_DUMP'], 'w') as fh:
            json.dump([[o.rule, o.construct, o.ok, o.where] for o in ctx.obligations], fh)
    for ln in out_lines:
        print(ln)
    print('%s %s tier=%s obligations=%d discharged=%d constructs=%d new_violations=%d '
          'known=%d wall=%.2fs' % ('FAIL' if new else 'PASS', ctx.prop, ctx.tier, obligations,
                                   discharged, len(constructs), len(new), len(tolerated),
                                   ev['wall_s']))
    return 1 if new else 0

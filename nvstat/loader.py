"""Parse the nautilus package and normalise the idioms of DESIGN.md section 2.3.

Nothing here imports or executes nautilus; everything is computed from the
syntax trees of the files found under <repo>/nautilus on every run.
"""
import ast
import copy
import hashlib
import os

from .core import AnalysisError

PACKAGE = 'nautilus'


class FuncInfo:
    """A function or method of the analysed package."""

    def __init__(self, qualname, node, module, cls, kind):
        self.qualname = qualname      # 'Sampler.add_bound', 'pool.likelihood_worker'
        self.node = node              # normalised ast.FunctionDef
        self.module = module          # ModuleInfo
        self.cls = cls                # ClassInfo or None
        self.kind = kind              # method|classmethod|staticmethod|property|setter|function
        self.name = node.name

    @property
    def params(self):
        a = self.node.args
        return [x.arg for x in a.posonlyargs + a.args + a.kwonlyargs]

    @property
    def self_name(self):
        """Name of the receiver parameter for instance methods, else None."""
        if self.kind in ('method', 'property', 'setter') and self.params:
            return self.params[0]
        return None

    def where(self, node=None):
        n = node if node is not None else self.node
        return '%s:%d' % (self.module.relpath, getattr(n, 'lineno', 0))

    def __repr__(self):
        return '<Func %s>' % self.qualname


class ClassInfo:
    def __init__(self, name, node, module):
        self.name = name
        self.node = node
        self.module = module
        self.methods = {}     # name -> FuncInfo (setter stored as name + '.setter')

    def __repr__(self):
        return '<Class %s>' % self.name


class ModuleInfo:
    def __init__(self, modname, path, relpath, source, tree):
        self.modname = modname
        self.path = path
        self.relpath = relpath
        self.source = source
        self.tree = tree
        self.functions = {}   # top-level functions
        self.classes = {}
        self.imports = {}     # local name -> dotted origin


class Program:
    def __init__(self, repo):
        self.repo = repo
        self.modules = {}
        self.classes = {}
        self.functions = {}   # qualname -> FuncInfo
        self.digest = None
        self.n_lines = 0

    # -- look-ups that fail closed ------------------------------------
    def func(self, qualname):
        f = self.functions.get(qualname)
        if f is None:
            raise AnalysisError('anchor vanished: function %s not found' % qualname)
        return f

    def has_func(self, qualname):
        return qualname in self.functions

    def cls(self, name):
        c = self.classes.get(name)
        if c is None:
            raise AnalysisError('anchor vanished: class %s not found' % name)
        return c

    def methods_named(self, name):
        return [f for f in self.functions.values() if f.cls is not None and f.name == name
                and f.kind != 'setter']


# ---------------------------------------------------------------------------
# Normalisation
# ---------------------------------------------------------------------------

class _Subst(ast.NodeTransformer):
    """Replace loads of a name by a constant."""

    def __init__(self, name, value):
        self.name = name
        self.value = value

    def visit_Name(self, node):
        if node.id == self.name and isinstance(node.ctx, ast.Load):
            return ast.copy_location(ast.Constant(value=self.value), node)
        return node


def _is_ident(s):
    return isinstance(s, str) and s.isidentifier()


class _Fold(ast.NodeTransformer):
    """getattr/setattr with a constant name -> attribute access; fold string
    concatenation of constants."""

    def visit_Call(self, node):
        self.generic_visit(node)
        if isinstance(node.func, ast.Name) and not node.keywords:
            if (node.func.id == 'getattr' and len(node.args) == 2 and
                    isinstance(node.args[1], ast.Constant) and _is_ident(node.args[1].value)):
                return ast.copy_location(
                    ast.Attribute(value=node.args[0], attr=node.args[1].value, ctx=ast.Load()),
                    node)
        return node

    def visit_Expr(self, node):
        self.generic_visit(node)
        v = node.value
        if (isinstance(v, ast.Call) and isinstance(v.func, ast.Name) and v.func.id == 'setattr'
                and len(v.args) == 3 and not v.keywords and isinstance(v.args[1], ast.Constant)
                and _is_ident(v.args[1].value)):
            tgt = ast.Attribute(value=v.args[0], attr=v.args[1].value, ctx=ast.Store())
            new = ast.Assign(targets=[tgt], value=v.args[2])
            ast.copy_location(tgt, v)
            return ast.copy_location(new, node)
        return node

    def visit_BinOp(self, node):
        self.generic_visit(node)
        if (isinstance(node.op, ast.Add) and isinstance(node.left, ast.Constant) and
                isinstance(node.right, ast.Constant) and isinstance(node.left.value, str) and
                isinstance(node.right.value, str)):
            return ast.copy_location(ast.Constant(value=node.left.value + node.right.value), node)
        return node


class _Unroll(ast.NodeTransformer):
    """Unroll `for k in [<string constants>]: body` (literal-key loops)."""

    def __init__(self):
        self.count = 0

    def visit_For(self, node):
        self.generic_visit(node)
        if (isinstance(node.target, ast.Name) and isinstance(node.iter, (ast.List, ast.Tuple))
                and node.iter.elts and not node.orelse and
                all(isinstance(e, ast.Constant) and isinstance(e.value, (str, int))
                    and not isinstance(e.value, bool) for e in node.iter.elts)):
            # do not unroll loops that rebind the key or break out
            for sub in ast.walk(node):
                if isinstance(sub, (ast.Break, ast.Continue)):
                    return node
                if (isinstance(sub, ast.Name) and sub.id == node.target.id and
                        isinstance(sub.ctx, ast.Store) and sub is not node.target):
                    return node
            out = []
            for e in node.iter.elts:
                for st in node.body:
                    c = copy.deepcopy(st)
                    c = _Subst(node.target.id, e.value).visit(c)
                    c = _Fold().visit(c)
                    for sub in ast.walk(c):
                        sub._unrolled_key = e.value
                    out.append(c)
            self.count += 1
            return out
        return node


def normalise_function(fn):
    """Return a normalised deep copy of a FunctionDef and the number of
    literal-key loops unrolled."""
    fn = copy.deepcopy(fn)
    u = _Unroll()
    fn = u.visit(fn)
    fn = _Fold().visit(fn)
    ast.fix_missing_locations(fn)
    return fn, u.count


# ---------------------------------------------------------------------------
# Loading
# ---------------------------------------------------------------------------

def _decorator_names(fn):
    out = []
    for d in fn.decorator_list:
        try:
            out.append(ast.unparse(d))
        except Exception:   # pragma: no cover
            out.append('?')
    return out


def _kind(fn, in_class):
    decs = _decorator_names(fn)
    if not in_class:
        return 'function'
    if 'classmethod' in decs:
        return 'classmethod'
    if 'staticmethod' in decs:
        return 'staticmethod'
    if 'property' in decs:
        return 'property'
    for d in decs:
        if d.endswith('.setter'):
            return 'setter'
    return 'method'


FORBIDDEN_DYNAMIC = {'exec', 'eval', 'compile', '__import__'}


def load_program(repo):
    pkg = os.path.join(repo, PACKAGE)
    if not os.path.isdir(pkg):
        raise AnalysisError('package directory %s not found' % pkg)
    prog = Program(repo)
    h = hashlib.sha256()
    n_unrolled = 0
    paths = []
    for root, dirs, files in os.walk(pkg):
        dirs[:] = sorted(d for d in dirs if d != '__pycache__')
        for fn in sorted(files):
            if fn.endswith('.py'):
                paths.append(os.path.join(root, fn))
    for path in sorted(paths):
        rel = os.path.relpath(path, repo)
        with open(path, 'rb') as fh:
            raw = fh.read()
        h.update(rel.encode() + b'\0' + raw)
        source = raw.decode('utf-8')
        try:
            tree = ast.parse(source, filename=rel)
        except SyntaxError as exc:
            raise AnalysisError('cannot parse %s: %s' % (rel, exc))
        modname = rel[:-3].replace(os.sep, '.')
        if modname.endswith('.__init__'):
            modname = modname[:-len('.__init__')]
        mod = ModuleInfo(modname, path, rel, source, tree)
        prog.n_lines += source.count('\n')
        prog.modules[modname] = mod
        for node in tree.body:
            if isinstance(node, (ast.Import, ast.ImportFrom)):
                for a in node.names:
                    origin = a.name if isinstance(node, ast.Import) else '%s.%s' % (
                        '.' * node.level + (node.module or ''), a.name)
                    mod.imports[a.asname or a.name.split('.')[0]] = origin
            elif isinstance(node, ast.Try):
                for sub in node.body:
                    if isinstance(sub, (ast.Import, ast.ImportFrom)):
                        for a in sub.names:
                            origin = a.name if isinstance(sub, ast.Import) else '%s.%s' % (
                                '.' * sub.level + (sub.module or ''), a.name)
                            mod.imports[a.asname or a.name.split('.')[0]] = origin
        for node in tree.body:
            if isinstance(node, (ast.FunctionDef, ast.AsyncFunctionDef)):
                norm, k = normalise_function(node)
                n_unrolled += k
                short = modname.split('.', 1)[1] if '.' in modname else modname
                q = '%s.%s' % (short.split('.')[-1], node.name)
                fi = FuncInfo(q, norm, mod, None, 'function')
                fi.orig = node
                mod.functions[node.name] = fi
                prog.functions[q] = fi
            elif isinstance(node, ast.ClassDef):
                ci = ClassInfo(node.name, node, mod)
                if node.name in prog.classes:
                    raise AnalysisError('duplicate class name %s' % node.name)
                if node.keywords:
                    raise AnalysisError('metaclass/keywords on class %s' % node.name)
                mod.classes[node.name] = ci
                prog.classes[node.name] = ci
                for sub in node.body:
                    if isinstance(sub, (ast.FunctionDef, ast.AsyncFunctionDef)):
                        kind = _kind(sub, True)
                        norm, k = normalise_function(sub)
                        n_unrolled += k
                        key = sub.name + ('.setter' if kind == 'setter' else '')
                        q = '%s.%s' % (node.name, key)
                        fi = FuncInfo(q, norm, mod, ci, kind)
                        fi.orig = sub
                        ci.methods[key] = fi
                        prog.functions[q] = fi
        # dynamic-code sweep (trusted-base assumption 1.4)
        for sub in ast.walk(tree):
            if isinstance(sub, ast.Call) and isinstance(sub.func, ast.Name) and \
                    sub.func.id in FORBIDDEN_DYNAMIC:
                raise AnalysisError('%s:%d dynamic code (%s) is outside the analysable subset'
                                    % (rel, sub.lineno, sub.func.id))
    prog.digest = h.hexdigest()
    prog.n_unrolled = n_unrolled
    if len(prog.modules) < 11:
        raise AnalysisError('only %d modules parsed (floor 11)' % len(prog.modules))
    if len(prog.classes) < 11:
        raise AnalysisError('only %d classes parsed (floor 11)' % len(prog.classes))
    return prog

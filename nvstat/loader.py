"""Parse the nautilus package and normalise the idioms of DESIGN.md section 2.3.

Nothing here imports or executes nautilus; everything is computed from the
syntax trees of the files found under <repo>/nautilus on every run.
"""
import ast
import copy
import hashlib
import os

from .core import AnalysisError

PACKAGE = 'nautilus'


class FuncInfo:
    """A function or method of the analysed package."""

    def __init__(self, qualname, node, module, cls, kind):
        self.qualname = qualname      # 'Sampler.add_bound', 'pool.likelihood_worker'
        self.node = node              # normalised ast.FunctionDef
        self.module = module          # ModuleInfo
        self.cls = cls                # ClassInfo or None
        self.kind = kind              # method|classmethod|staticmethod|property|setter|function
        self.name = node.name

    @property
    def params(self):
        a = self.node.args
        return [x.arg for x in a.posonlyargs + a.args + a.kwonlyargs]

    @property
    def self_name(self):
        """Name of the receiver parameter for instance methods, else None."""
        if self.kind in ('method', 'property', 'setter') and self.params:
            return self.params[0]
        return None

    def where(self, node=None):
        n = node if node is not None else self.node
        return '%s:%d' % (self.module.relpath, getattr(n, 'lineno', 0))

    def __repr__(self):
        return '<Func %s>' % self.qualname


class ClassInfo:
    def __init__(self, name, node, module):
        self.name = name
        self.node = node
        self.module = module
        self.methods = {}     # name -> FuncInfo (setter stored as name + '.setter')

    def __repr__(self):
        return '<Class %s>' % self.name


class ModuleInfo:
    def __init__(self, modname, path, relpath, source, tree):
        self.modname = modname
        self.path = path
        self.relpath = relpath
        self.source = source
        self.tree = tree
        self.functions = {}   # top-level functions
        self.classes = {}
        self.imports = {}     # local name -> dotted origin


class Program:
    def __init__(self, repo):
        self.repo = repo
        self.modules = {}
        self.classes = {}
        self.functions = {}   # qualname -> FuncInfo
        self.digest = None
        self.n_lines = 0

    # -- look-ups that fail closed ------------------------------------
    def func(self, qualname):
        f = self.functions.get(qualname)
        if f is None:
            raise AnalysisError('anchor vanished: function %s not found' % qualname)
        return f

    def has_func(self, qualname):
        return qualname in self.functions

    def cls(self, name):
        c = self.classes.get(name)
        if c is None:
            raise AnalysisError('anchor vanished: class %s not found' % name)
        return c

    def methods_named(self, name):
        return [f for f in self.functions.values() if f.cls is not None and f.name == name
                and f.kind != 'setter']


# ---------------------------------------------------------------------------
# Normalisation
# ---------------------------------------------------------------------------

class _Subst(ast.NodeTransformer):
    """Replace loads of a name by a constant."""

    def __init__(self, name, value):
        self.name = name
        self.value = value

    def visit_Name(self, node):
        if node.id == self.name and isinstance(node.ctx, ast.Load):
            return ast.copy_location(ast.Constant(value=self.value), node)
        return node


def _is_ident(s):
    return isinstance(s, str) and s.isidentifier()


class _Fold(ast.NodeTransformer):
    """getattr/setattr with a constant name -> attribute access; fold string
    concatenation of constants."""

    def visit_Call(self, node):
        self.generic_visit(node)
        if isinstance(node.func, ast.Name) and not node.keywords:
            if (node.func.id == 'getattr' and len(node.args) == 2 and
                    isinstance(node.args[1], ast.Constant) and _is_ident(node.args[1].value)):
                return ast.copy_location(
                    ast.Attribute(value=node.args[0], attr=node.args[1].value, ctx=ast.Load()),
                    node)
        return node

    def visit_Expr(self, node):
        self.generic_visit(node)
        v = node.value
        if (isinstance(v, ast.Call) and isinstance(v.func, ast.Name) and v.func.id == 'setattr'
                and len(v.args) == 3 and not v.keywords and isinstance(v.args[1], ast.Constant)
                and _is_ident(v.args[1].value)):
            tgt = ast.Attribute(value=v.args[0], attr=v.args[1].value, ctx=ast.Store())
            new = ast.Assign(targets=[tgt], value=v.args[2])
            ast.copy_location(tgt, v)
            return ast.copy_location(new, node)
        return node

    def visit_BinOp(self, node):
        self.generic_visit(node)
        if (isinstance(node.op, ast.Add) and isinstance(node.left, ast.Constant) and
                isinstance(node.right, ast.Constant) and isinstance(node.left.value, str) and
                isinstance(node.right.value, str)):
            return ast.copy_location(ast.Constant(value=node.left.value + node.right.value), node)
        return node


class _Unroll(ast.NodeTransformer):
    """Unroll `for k in [<string constants>]: body` (literal-key loops)."""

    def __init__(self, consts=None):
        self.count = 0
        self.consts = consts or {}      # module-level names bound to a literal key list

    def _elts(self, it):
        """Constant elements of a literal key list, with module-level key lists and
        `*NAME` unpackings of them expanded; None if `it` is not such a list."""
        if isinstance(it, ast.Name) and it.id in self.consts:
            return list(self.consts[it.id])
        if not isinstance(it, (ast.List, ast.Tuple)):
            return None
        out = []
        for e in it.elts:
            if isinstance(e, ast.Starred) and isinstance(e.value, ast.Name) and \
                    e.value.id in self.consts:
                out += self.consts[e.value.id]
            elif isinstance(e, ast.Constant):
                out.append(e)
            else:
                return None
        return out

    def visit_For(self, node):
        self.generic_visit(node)
        elts = self._elts(node.iter)
        if elts is not None and not isinstance(node.iter, (ast.List, ast.Tuple)) or (
                elts is not None and any(isinstance(e, ast.Starred) for e in node.iter.elts)):
            node.iter = ast.copy_location(ast.List(elts=elts, ctx=ast.Load()), node.iter)
        if (isinstance(node.target, ast.Name) and isinstance(node.iter, (ast.List, ast.Tuple))
                and node.iter.elts and not node.orelse and
                all(isinstance(e, ast.Constant) and isinstance(e.value, (str, int))
                    and not isinstance(e.value, bool) for e in node.iter.elts)):
            # do not unroll loops that rebind the key or break out
            for sub in ast.walk(node):
                if isinstance(sub, (ast.Break, ast.Continue)):
                    return node
                if (isinstance(sub, ast.Name) and sub.id == node.target.id and
                        isinstance(sub.ctx, ast.Store) and sub is not node.target):
                    return node
            out = []
            for e in node.iter.elts:
                for st in node.body:
                    c = copy.deepcopy(st)
                    c = _Subst(node.target.id, e.value).visit(c)
                    c = _Fold().visit(c)
                    for sub in ast.walk(c):
                        sub._unrolled_key = e.value
                    out.append(c)
            self.count += 1
            return out
        return node


def module_key_lists(tree):
    """Module-level `NAME = [<str/int constants>]` bound exactly once (and never rebound or
    mutated by name inside the module): literal key lists shared by several functions."""
    cands, bad = {}, set()
    for node in tree.body:
        if isinstance(node, ast.Assign) and len(node.targets) == 1 and \
                isinstance(node.targets[0], ast.Name):
            nm = node.targets[0].id
            v = node.value
            if nm in cands:
                bad.add(nm)
            if isinstance(v, (ast.List, ast.Tuple)) and v.elts and all(
                    isinstance(e, ast.Constant) and isinstance(e.value, (str, int)) and
                    not isinstance(e.value, bool) for e in v.elts):
                cands[nm] = list(v.elts)
            else:
                bad.add(nm)
    for sub in ast.walk(tree):
        if isinstance(sub, ast.Name) and isinstance(sub.ctx, (ast.Store, ast.Del)) and \
                sub.id in cands:
            # any store other than the defining one disqualifies the name
            pass
        if isinstance(sub, (ast.AugAssign,)) and isinstance(sub.target, ast.Name):
            bad.add(sub.target.id)
        if isinstance(sub, ast.Call) and isinstance(sub.func, ast.Attribute) and \
                isinstance(sub.func.value, ast.Name) and sub.func.attr in (
                    'append', 'extend', 'insert', 'remove', 'pop', 'sort', 'reverse', 'clear'):
            bad.add(sub.func.value.id)
        if isinstance(sub, (ast.FunctionDef, ast.AsyncFunctionDef)):
            for x in ast.walk(sub):
                if isinstance(x, ast.Name) and isinstance(x.ctx, ast.Store) and x.id in cands:
                    bad.add(x.id)
                if isinstance(x, ast.Global):
                    bad.update(x.names)
    return {k: v for k, v in cands.items() if k not in bad}


def normalise_function(fn, consts=None):
    """Return a normalised deep copy of a FunctionDef and the number of
    literal-key loops unrolled."""
    fn = copy.deepcopy(fn)
    u = _Unroll(consts)
    fn = u.visit(fn)
    fn = _Fold().visit(fn)
    ast.fix_missing_locations(fn)
    return fn, u.count



# ---------------------------------------------------------------------------
# Constructor-helper inlining
# ---------------------------------------------------------------------------

class _Rename(ast.NodeTransformer):
    def __init__(self, names, exprs):
        self.names = names      # old local name -> new local name
        self.exprs = exprs      # parameter name -> expression substituted for its loads

    def visit_Name(self, node):
        if node.id in self.exprs and isinstance(node.ctx, ast.Load):
            return ast.copy_location(copy.deepcopy(self.exprs[node.id]), node)
        if node.id in self.names:
            return ast.copy_location(ast.Name(id=self.names[node.id], ctx=node.ctx), node)
        return node


def _stored_names(fn):
    out = set()
    for n in ast.walk(fn):
        if isinstance(n, ast.Name) and isinstance(n.ctx, (ast.Store, ast.Del)):
            out.add(n.id)
    return out


def _instantiate_helper(helper, call, obj, caller_names):
    """Statements of `helper` (a private method without a result) specialised for the call
    `obj.helper(args)`, or None if the call cannot be expanded faithfully."""
    fn = helper.node
    a = fn.args
    if a.vararg or a.kwarg or a.posonlyargs or any(
            isinstance(x, ast.Starred) for x in call.args) or any(
            k.arg is None for k in call.keywords):
        return None
    body = list(fn.body)
    if body and isinstance(body[0], ast.Expr) and isinstance(body[0].value, ast.Constant) and \
            isinstance(body[0].value.value, str):
        body = body[1:]
    if body and isinstance(body[-1], ast.Return) and body[-1].value is None:
        body = body[:-1]
    for st in body:
        for sub in ast.walk(st):
            if isinstance(sub, (ast.Return, ast.Yield, ast.YieldFrom, ast.FunctionDef,
                                ast.AsyncFunctionDef, ast.Lambda, ast.Global, ast.Nonlocal)):
                return None
    params = a.args + a.kwonlyargs
    if not params:
        return None
    selfp, params = params[0].arg, params[1:]
    npos = len(a.args) - 1
    defaults = {}
    for p, d in zip(a.args[len(a.args) - len(a.defaults):], a.defaults):
        defaults[p.arg] = d
    for p, d in zip(a.kwonlyargs, a.kw_defaults):
        if d is not None:
            defaults[p.arg] = d
    if len(call.args) > npos:
        return None
    actual = {}
    for p, v in zip(a.args[1:], call.args):
        actual[p.arg] = v
    for k in call.keywords:
        if k.arg in actual or k.arg not in {p.arg for p in params}:
            return None
        actual[k.arg] = k.value
    for p in params:
        if p.arg not in actual:
            if p.arg not in defaults:
                return None
            actual[p.arg] = defaults[p.arg]
    stored = set()
    for st in body:
        stored |= _stored_names(st)
    names, exprs, prefix = {selfp: obj}, {}, []
    tag = '_%s_' % helper.name.strip('_')
    for p in params:
        v = actual[p.arg]
        pure = not any(isinstance(x, (ast.Call, ast.Await, ast.NamedExpr)) for x in ast.walk(v))
        if p.arg not in stored and pure:
            exprs[p.arg] = v
        else:
            new = p.arg if (isinstance(v, ast.Name) and v.id == p.arg) else tag + p.arg
            if new != p.arg:
                names[p.arg] = new
            if not (isinstance(v, ast.Name) and v.id == new):
                prefix.append(ast.Assign(targets=[ast.Name(id=new, ctx=ast.Store())],
                                         value=copy.deepcopy(v)))
    for loc in stored - {p.arg for p in params}:
        if loc in caller_names:
            names[loc] = tag + loc
    out = []
    for st in prefix:
        ast.copy_location(st, call)
        out.append(st)
    for st in body:
        c = _Rename(names, exprs).visit(copy.deepcopy(st))
        for sub in ast.walk(c):
            sub._inlined_from = helper.qualname
        out.append(c)
    return out


def _construction_object(fi):
    if fi.name == '__init__' and fi.kind == 'method':
        return fi.params[0] if fi.params else None
    if fi.kind == 'classmethod':
        for n in ast.walk(fi.node):
            if isinstance(n, ast.Assign) and len(n.targets) == 1 and \
                    isinstance(n.targets[0], ast.Name) and isinstance(n.value, ast.Call) and \
                    isinstance(n.value.func, ast.Name) and n.value.func.id == 'cls':
                return n.targets[0].id
    return None


def helper_view(prog, func, depth=2):
    """A view of method `func` in which statement-level calls `self._helper(...)` of private
    methods of the same class (no result, no recursion) are replaced by the helper's body, so
    that path rules about what `func` does to the object's state see through an extracted
    helper.  Returns `func` itself when there is nothing to expand."""
    if func.cls is None or func.self_name is None:
        return func
    node = copy.deepcopy(func.node)
    total = 0
    for _ in range(depth):
        caller_names = _stored_names(node) | set(func.params)
        done = [0]

        class Inl(ast.NodeTransformer):
            def visit_Expr(self, st):
                c = st.value
                if isinstance(c, ast.Call) and isinstance(c.func, ast.Attribute) and \
                        isinstance(c.func.value, ast.Name) and c.func.value.id == func.self_name:
                    h = func.cls.methods.get(c.func.attr)
                    if h is not None and h.kind == 'method' and h.name != func.name and \
                            h.name.startswith('_') and not h.name.startswith('__'):
                        body = _instantiate_helper(h, c, func.self_name, caller_names)
                        if body:
                            done[0] += 1
                            return body
                return st

            def visit_FunctionDef(self, n):
                if n is node:
                    self.generic_visit(n)
                return n

            visit_Lambda = visit_ClassDef = lambda self, n: n

        node = Inl().visit(node)
        if not done[0]:
            break
        total += done[0]
        ast.fix_missing_locations(node)
    if not total:
        return func

    class Unroll(ast.NodeTransformer):
        # [f(x) for x in [a, b]]  ->  [f(a), f(b)]   (arises from substituted arguments)
        def visit_ListComp(self, lc):
            self.generic_visit(lc)
            if len(lc.generators) == 1 and not lc.generators[0].ifs and \
                    isinstance(lc.generators[0].target, ast.Name) and \
                    isinstance(lc.generators[0].iter, (ast.List, ast.Tuple)) and \
                    len(lc.generators[0].iter.elts) <= 8:
                v = lc.generators[0].target.id
                elts = []
                for e in lc.generators[0].iter.elts:
                    elts.append(_Rename({}, {v: e}).visit(copy.deepcopy(lc.elt)))
                return ast.copy_location(ast.List(elts=elts, ctx=ast.Load()), lc)
            return lc
    node = Unroll().visit(node)
    ast.fix_missing_locations(node)
    clone = FuncInfo(func.qualname, node, func.module, func.cls, func.kind)
    clone.orig = getattr(func, 'orig', None)
    return clone


def inline_constructor_helpers(prog):
    """Expand calls `obj._helper(...)` made by a constructor (compute / read / train /
    __init__) on the object it is building, so that rules about what a constructor assigns,
    restores and draws see through an extracted set-up method.  Only private methods of the
    same class without a result are expanded, two levels deep."""
    total = 0
    for fi in list(prog.functions.values()):
        if fi.cls is None:
            continue
        obj = _construction_object(fi)
        if obj is None:
            continue
        for _ in range(2):
            caller_names = _stored_names(fi.node) | set(fi.params)
            done = [0]

            class Inl(ast.NodeTransformer):
                def visit_Expr(self, node):
                    c = node.value
                    if isinstance(c, ast.Call) and isinstance(c.func, ast.Attribute) and \
                            isinstance(c.func.value, ast.Name) and c.func.value.id == obj:
                        h = fi.cls.methods.get(c.func.attr)
                        if h is not None and h.kind == 'method' and h is not fi and \
                                h.name.startswith('_') and not h.name.startswith('__'):
                            body = _instantiate_helper(h, c, obj, caller_names)
                            if body:
                                done[0] += 1
                                return body
                    return node

                def visit_FunctionDef(self, node):
                    if node is fi.node:
                        self.generic_visit(node)
                    return node

                visit_Lambda = visit_ClassDef = lambda self, node: node

            fi.node = Inl().visit(fi.node)
            if not done[0]:
                break
            total += done[0]
            ast.fix_missing_locations(fi.node)
    prog.n_inlined = total
    return total

# ---------------------------------------------------------------------------
# Loading
# ---------------------------------------------------------------------------

def _decorator_names(fn):
    out = []
    for d in fn.decorator_list:
        try:
            out.append(ast.unparse(d))
        except Exception:   # pragma: no cover
            out.append('?')
    return out


def _kind(fn, in_class):
    decs = _decorator_names(fn)
    if not in_class:
        return 'function'
    if 'classmethod' in decs:
        return 'classmethod'
    if 'staticmethod' in decs:
        return 'staticmethod'
    if 'property' in decs:
        return 'property'
    for d in decs:
        if d.endswith('.setter'):
            return 'setter'
    return 'method'


FORBIDDEN_DYNAMIC = {'exec', 'eval', 'compile', '__import__'}


def load_program(repo):
    pkg = os.path.join(repo, PACKAGE)
    if not os.path.isdir(pkg):
        raise AnalysisError('package directory %s not found' % pkg)
    prog = Program(repo)
    h = hashlib.sha256()
    n_unrolled = 0
    paths = []
    for root, dirs, files in os.walk(pkg):
        dirs[:] = sorted(d for d in dirs if d != '__pycache__')
        for fn in sorted(files):
            if fn.endswith('.py'):
                paths.append(os.path.join(root, fn))
    for path in sorted(paths):
        rel = os.path.relpath(path, repo)
        with open(path, 'rb') as fh:
            raw = fh.read()
        h.update(rel.encode() + b'\0' + raw)
        source = raw.decode('utf-8')
        try:
            tree = ast.parse(source, filename=rel)
        except SyntaxError as exc:
            raise AnalysisError('cannot parse %s: %s' % (rel, exc))
        modname = rel[:-3].replace(os.sep, '.')
        if modname.endswith('.__init__'):
            modname = modname[:-len('.__init__')]
        mod = ModuleInfo(modname, path, rel, source, tree)
        prog.n_lines += source.count('\n')
        prog.modules[modname] = mod
        for node in tree.body:
            if isinstance(node, (ast.Import, ast.ImportFrom)):
                for a in node.names:
                    origin = a.name if isinstance(node, ast.Import) else '%s.%s' % (
                        '.' * node.level + (node.module or ''), a.name)
                    mod.imports[a.asname or a.name.split('.')[0]] = origin
            elif isinstance(node, ast.Try):
                for sub in node.body:
                    if isinstance(sub, (ast.Import, ast.ImportFrom)):
                        for a in sub.names:
                            origin = a.name if isinstance(sub, ast.Import) else '%s.%s' % (
                                '.' * sub.level + (sub.module or ''), a.name)
                            mod.imports[a.asname or a.name.split('.')[0]] = origin
        consts = module_key_lists(tree)
        for node in tree.body:
            if isinstance(node, (ast.FunctionDef, ast.AsyncFunctionDef)):
                norm, k = normalise_function(node, consts)
                n_unrolled += k
                short = modname.split('.', 1)[1] if '.' in modname else modname
                q = '%s.%s' % (short.split('.')[-1], node.name)
                fi = FuncInfo(q, norm, mod, None, 'function')
                fi.orig = node
                mod.functions[node.name] = fi
                prog.functions[q] = fi
            elif isinstance(node, ast.ClassDef):
                ci = ClassInfo(node.name, node, mod)
                if node.name in prog.classes:
                    raise AnalysisError('duplicate class name %s' % node.name)
                if node.keywords:
                    raise AnalysisError('metaclass/keywords on class %s' % node.name)
                mod.classes[node.name] = ci
                prog.classes[node.name] = ci
                for sub in node.body:
                    if isinstance(sub, (ast.FunctionDef, ast.AsyncFunctionDef)):
                        kind = _kind(sub, True)
                        norm, k = normalise_function(sub, consts)
                        n_unrolled += k
                        key = sub.name + ('.setter' if kind == 'setter' else '')
                        q = '%s.%s' % (node.name, key)
                        fi = FuncInfo(q, norm, mod, ci, kind)
                        fi.orig = sub
                        ci.methods[key] = fi
                        prog.functions[q] = fi
        # dynamic-code sweep (trusted-base assumption 1.4)
        for sub in ast.walk(tree):
            if isinstance(sub, ast.Call) and isinstance(sub.func, ast.Name) and \
                    sub.func.id in FORBIDDEN_DYNAMIC:
                raise AnalysisError('%s:%d dynamic code (%s) is outside the analysable subset'
                                    % (rel, sub.lineno, sub.func.id))
    prog.digest = h.hexdigest()
    prog.n_unrolled = n_unrolled
    inline_constructor_helpers(prog)
    if len(prog.modules) < 11:
        raise AnalysisError('only %d modules parsed (floor 11)' % len(prog.modules))
    if len(prog.classes) < 11:
        raise AnalysisError('only %d classes parsed (floor 11)' % len(prog.classes))
    return prog

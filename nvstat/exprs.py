"""Expression helpers: dotted names, attribute paths rooted at a receiver, and
expression keys that compare values by def-use identity rather than by spelling."""
import ast


def unparse(e):
    try:
        return ast.unparse(e)
    except Exception:   # pragma: no cover
        return ast.dump(e)


def dotted(e):
    """'np.random.default_rng' for a Name/Attribute chain, else None."""
    parts = []
    while isinstance(e, ast.Attribute):
        parts.append(e.attr)
        e = e.value
    if isinstance(e, ast.Name):
        parts.append(e.id)
        return '.'.join(reversed(parts))
    return None


def call_name(call):
    """Dotted name of the callee of a Call ('np.append', 'self.points.append');
    subscripts in the receiver are rendered as [] ('self.bounds[].sample')."""
    return _dotted_sub(call.func)


def _dotted_sub(e):
    if isinstance(e, ast.Name):
        return e.id
    if isinstance(e, ast.Attribute):
        b = _dotted_sub(e.value)
        return None if b is None else b + '.' + e.attr
    if isinstance(e, ast.Subscript):
        b = _dotted_sub(e.value)
        return None if b is None else b + '[]'
    if isinstance(e, ast.Call):
        b = _dotted_sub(e.func)
        return None if b is None else b + '()'
    return None


def root_attr(e, base):
    """If `e` is base.attr followed by any subscripts/attributes, return
    (attr, [steps]) where steps are ('attr', name) / ('idx', slice-expr); else None."""
    steps = []
    while True:
        if isinstance(e, ast.Subscript):
            steps.append(('idx', e.slice))
            e = e.value
        elif isinstance(e, ast.Attribute):
            if isinstance(e.value, ast.Name) and e.value.id == base:
                return e.attr, list(reversed(steps))
            steps.append(('attr', e.attr))
            e = e.value
        else:
            return None


def is_attr_of(e, base, attr=None):
    return (isinstance(e, ast.Attribute) and isinstance(e.value, ast.Name) and
            e.value.id == base and (attr is None or e.attr == attr))


def names_loaded(e):
    return {n.id for n in ast.walk(e) if isinstance(n, ast.Name) and isinstance(n.ctx, ast.Load)}


def calls_in(node):
    return [n for n in ast.walk(node) if isinstance(n, ast.Call)]


def const_value(e, default=None):
    if isinstance(e, ast.Constant):
        return e.value
    if isinstance(e, ast.UnaryOp) and isinstance(e.op, ast.USub) and \
            isinstance(e.operand, ast.Constant) and isinstance(e.operand.value, (int, float)):
        return -e.operand.value
    return default


def kwarg(call, name, pos=None):
    for k in call.keywords:
        if k.arg == name:
            return k.value
    if pos is not None and len(call.args) > pos and not any(
            isinstance(a, ast.Starred) for a in call.args[:pos + 1]):
        return call.args[pos]
    return None


class _Keyer(ast.NodeTransformer):
    def __init__(self, cfg, nid, inline, depth=0):
        self.cfg = cfg
        self.nid = nid
        self.inline = inline
        self.depth = depth

    def visit_Attribute(self, node):
        # base.attr read: tag with the attribute writes of this function that reach here
        if isinstance(node.value, ast.Name) and isinstance(node.ctx, ast.Load):
            defs = self.cfg.defs_at(self.nid, '%s.%s' % (node.value.id, node.attr))
            if defs:
                return ast.Attribute(value=node.value, attr='%s@%s' % (
                    node.attr, ','.join(str(x) for x in sorted(defs))), ctx=ast.Load())
            return node
        self.generic_visit(node)
        return node

    def visit_Name(self, node):
        if not isinstance(node.ctx, ast.Load):
            return node
        defs = self.cfg.defs_at(self.nid, node.id)
        if not defs:
            return node      # global / builtin
        if self.inline and len(defs) == 1 and self.depth < 6:
            d = next(iter(defs))
            dn = self.cfg.nodes[d]
            a = dn.ast
            if dn.kind == 'stmt' and isinstance(a, ast.Assign) and len(a.targets) == 1 and \
                    isinstance(a.targets[0], ast.Name) and a.targets[0].id == node.id:
                import copy
                sub = copy.deepcopy(a.value)
                return _Keyer(self.cfg, d, self.inline, self.depth + 1).visit(sub)
        return ast.Name(id='%s@%s' % (node.id, ','.join(str(x) for x in sorted(defs))),
                        ctx=ast.Load())


def ekey(cfg, nid, expr, inline=True):
    """Key of an expression evaluated at CFG node `nid`: names are tagged with
    their reaching definitions; single-definition locals are inlined."""
    import copy
    e = _Keyer(cfg, nid, inline).visit(copy.deepcopy(expr))
    return ast.dump(e, annotate_fields=False)


def strip_not(e):
    """(inner, negated) for `not x` / `~x`."""
    neg = False
    while isinstance(e, ast.UnaryOp) and isinstance(e.op, (ast.Not, ast.Invert)):
        neg = not neg
        e = e.operand
    return e, neg


def walk_no_nested(node):
    """ast.walk that does not descend into nested function/class definitions or lambdas."""
    todo = [node]
    while todo:
        n = todo.pop()
        yield n
        for c in ast.iter_child_nodes(n):
            if isinstance(c, (ast.FunctionDef, ast.AsyncFunctionDef, ast.ClassDef, ast.Lambda)):
                continue
            todo.append(c)


class _AugView:
    """A CFG statement node seen as an increment `target op= value` (also for the expanded
    form `t = t op v`)."""
    __slots__ = ('id', 'kind', 'ast', 'lineno', 'orig')

    def __init__(self, node, target, op, value):
        self.id = node.id
        self.kind = 'stmt'
        self.orig = node.ast
        self.lineno = node.lineno
        a = ast.AugAssign(target=target, op=op, value=value)
        ast.copy_location(a, node.ast)
        self.ast = a


def aug_nodes(cfg):
    """All statement nodes of a CFG that are increments, as _AugView objects."""
    out = []
    for n in cfg.nodes:
        if n.kind == 'stmt':
            r = as_aug(n.ast)
            if r is not None:
                out.append(_AugView(n, *r))
    return out


def as_aug(st):
    """(target, op, value) if the statement increments its target: `t op= v`, or the
    expanded forms `t = t op v` / `t = v + t`; else None."""
    if isinstance(st, ast.AugAssign):
        return st.target, st.op, st.value
    if isinstance(st, ast.Assign) and len(st.targets) == 1 and isinstance(st.value, ast.BinOp):
        t = st.targets[0]
        tt = unparse(t)
        if unparse(st.value.left) == tt:
            return t, st.value.op, st.value.right
        if isinstance(st.value.op, (ast.Add, ast.Mult, ast.BitAnd, ast.BitOr)) and \
                unparse(st.value.right) == tt:
            return t, st.value.op, st.value.left
    return None

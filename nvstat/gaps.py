"""M8 -- the circular gaps of PhaseShift.compute and the centre derived from them.

The shift is chosen so that the largest empty arc between the construction points of a periodic
coordinate straddles the wrap position.  Two clauses of that are algebraic and are decided
here on the expressions of the source, in exact rational arithmetic over the symbols
a = x[0], b = x[-1] (the smallest and largest coordinate, 0 <= a <= b < 1):

 (1) the gap vector is the differences of the SORTED coordinates closed by one wrap-around gap
     whose value is a - b + 1 in both cases a < b and a == b (a float modulo that is applied to
     the vector is evaluated piecewise: (a - b) % 1 is a - b + 1 for a < b but 0 for a == b);
 (2) the centre is  x[argmax(gaps)] + max(gaps)/2 + 1/2  modulo 1, with argmax and max taken
     over the same vector.

If the source uses a shape outside the small expression language understood here the clause
is reported as not decided (a note), never as a violation.
"""
import ast
from fractions import Fraction

from .cfg import cfg_of
from .exprs import dotted, unparse, walk_no_nested


class _Unknown(Exception):
    pass


def _const(e):
    if isinstance(e, ast.Constant) and isinstance(e.value, (int, float)) and \
            not isinstance(e.value, bool):
        return Fraction(e.value).limit_denominator(10 ** 6)
    if isinstance(e, ast.UnaryOp) and isinstance(e.op, ast.USub):
        c = _const(e.operand)
        return None if c is None else -c
    if isinstance(e, ast.UnaryOp) and isinstance(e.op, ast.UAdd):
        return _const(e.operand)
    return None


def _lin_add(p, q, s=1):
    out = dict(p)
    for k, v in q.items():
        out[k] = out.get(k, 0) + s * v
    return {k: v for k, v in out.items() if v != 0 or k == 1}


def _lin_scale(p, c):
    return {k: v * c for k, v in p.items()}


def linear(e, symbol, env, depth=0):
    """Linear form {symbol: coefficient, 1: constant} of an expression; `symbol(e)` names
    the atoms; names are expanded through `env`.  Raises _Unknown."""
    if depth > 12:
        raise _Unknown('too deep')
    c = _const(e)
    if c is not None:
        return {1: c}
    s = symbol(e)
    if s is not None:
        return {s: Fraction(1), 1: Fraction(0)}
    if isinstance(e, ast.Name) and e.id in env:
        return linear(env[e.id], symbol, env, depth + 1)
    if isinstance(e, ast.UnaryOp) and isinstance(e.op, ast.USub):
        return _lin_scale(linear(e.operand, symbol, env, depth + 1), -1)
    if isinstance(e, ast.BinOp):
        if isinstance(e.op, (ast.Add, ast.Sub)):
            return _lin_add(linear(e.left, symbol, env, depth + 1),
                            linear(e.right, symbol, env, depth + 1),
                            1 if isinstance(e.op, ast.Add) else -1)
        if isinstance(e.op, ast.Mult):
            cl, cr = _const(e.left), _const(e.right)
            if cl is not None:
                return _lin_scale(linear(e.right, symbol, env, depth + 1), cl)
            if cr is not None:
                return _lin_scale(linear(e.left, symbol, env, depth + 1), cr)
        if isinstance(e.op, ast.Div):
            cr = _const(e.right)
            if cr:
                return _lin_scale(linear(e.left, symbol, env, depth + 1), 1 / cr)
    raise _Unknown('`%s` is not a linear expression of the recognised quantities' % unparse(e))


def _strip_mod1(e, env):
    """(inner expression, number of `% 1` applied on top)."""
    k = 0
    while True:
        if isinstance(e, ast.Name) and e.id in env:
            e = env[e.id]
            continue
        if isinstance(e, ast.BinOp) and isinstance(e.op, ast.Mod) and _const(e.right) == 1:
            e = e.left
            k += 1
            continue
        if isinstance(e, ast.Call) and dotted(e.func) in ('np.mod', 'np.remainder', 'np.fmod') \
                and len(e.args) == 2 and _const(e.args[1]) == 1 and dotted(e.func) != 'np.fmod':
            e = e.args[0]
            k += 1
            continue
        return e, k


def _mod1_cases(form):
    """Value of (form % 1) for a form c_a*a + c_b*b + c0, separately for a < b and a == b.
    Returns {'a<b': linear form or None, 'a==b': linear form or None} (None = not decided)."""
    ca, cb, c0 = form.get('a', 0), form.get('b', 0), form.get(1, 0)
    out = {}
    # a == b: the form is (ca + cb) * a + c0
    if ca + cb == 0:
        out['a==b'] = {1: c0 - (c0.numerator // c0.denominator)}
    else:
        out['a==b'] = None
    # a < b with 0 <= a < b < 1: a - b ranges over (-1, 0)
    if ca == -cb and ca != 0 and c0.denominator == 1:
        t = ca      # form = t * (a - b) + c0
        if t == 1:       # in (c0 - 1, c0)
            out['a<b'] = _lin_add(form, {1: Fraction(-(c0 - 1))})
        elif t == -1:    # in (c0, c0 + 1)
            out['a<b'] = _lin_add(form, {1: Fraction(-c0)})
        else:
            out['a<b'] = None
    elif ca == 0 and cb == 0:
        out['a<b'] = {1: c0 - (c0.numerator // c0.denominator)}
    else:
        out['a<b'] = None
    return out


def _subst_eq(form):
    """a == b: express the form in a only."""
    f = dict(form)
    f['a'] = f.get('a', 0) + f.pop('b', 0)
    return {k: v for k, v in f.items() if v != 0 or k == 1}


def _same(p, q):
    keys = set(p) | set(q)
    return all(p.get(k, 0) == q.get(k, 0) for k in keys)


def rule_M8(ctx, rid='M8'):
    ctx.rule(rid, 'circular gaps: PhaseShift.compute takes the differences of the sorted '
             'coordinates closed by a wrap-around gap equal to x[0] - x[-1] + 1 (decided '
             'piecewise for x[0] < x[-1] and x[0] == x[-1], float modulo included), and places '
             'the centre at x[argmax] + max/2 + 1/2 modulo 1 over that same vector')
    f = ctx.program.func('PhaseShift.compute')
    stores = [st for st in walk_no_nested(f.node) if isinstance(st, ast.Assign) and
              isinstance(st.targets[0], ast.Subscript) and
              isinstance(st.targets[0].value, ast.Attribute) and
              st.targets[0].value.attr == 'centers']
    vec = False
    if not stores:
        # vectorised shape: all periodic columns at once, `obj.centers = <formula>` with 2-D
        # arrays whose axis 0 runs over the points
        stores = [st for st in walk_no_nested(f.node) if isinstance(st, ast.Assign) and
                  isinstance(st.targets[0], ast.Attribute) and
                  st.targets[0].attr == 'centers' and not (
                      isinstance(st.value, ast.Call) and
                      dotted(st.value.func) in ('np.zeros', 'np.empty', 'np.zeros_like'))]
        vec = bool(stores)
    ctx.require(stores, 'PhaseShift.compute: store to centers[...] not found')
    st = stores[0]
    axis_faults = []

    def axis0(call):
        """In the vectorised shape a reduction / sort / diff must run along axis 0."""
        if not vec:
            return True
        ax = [k.value for k in call.keywords if k.arg == 'axis']
        return bool(ax) and _const(ax[0]) == 0
    # single-definition locals of the function
    env, multi = {}, set()
    for s in walk_no_nested(f.node):
        if isinstance(s, ast.Assign) and len(s.targets) == 1 and isinstance(s.targets[0], ast.Name):
            nm = s.targets[0].id
            if nm in env:
                multi.add(nm)
            env[nm] = s.value
    for nm in multi:
        env.pop(nm, None)

    def undecided(what):
        ctx.note('M8 not decided: ' + what)
        ctx.not_decided.append('largest-gap clause: ' + what)

    # ---- the centre: outermost modulo, then a linear form in x[argmax(G)] and max(G)
    inner, k = _strip_mod1(st.value, env)
    gap_exprs = []
    not_largest = []
    # locals with several definitions (k = argmax(...); if ...: k = ...): all their values
    kdefs = {}
    for s_ in walk_no_nested(f.node):
        if isinstance(s_, ast.Assign) and len(s_.targets) == 1 and \
                isinstance(s_.targets[0], ast.Name):
            kdefs.setdefault(s_.targets[0].id, []).append(s_.value)
    kdefs = {k_: v for k_, v in kdefs.items() if any(
        isinstance(x, ast.Call) and dotted(x.func) == 'np.argmax' for x in v)}
    for k_ in kdefs:
        env.pop(k_, None)

    def csym(e):
        # max of the gap vector
        if isinstance(e, ast.Call) and dotted(e.func) in ('np.amax', 'np.max', 'max') and \
                len(e.args) == 1:
            gap_exprs.append(('max', e.args[0]))
            if not axis0(e):
                axis_faults.append(('the maximum gap `%s`' % unparse(e), e))
            return 'g'
        if isinstance(e, ast.Call) and isinstance(e.func, ast.Attribute) and \
                e.func.attr == 'max' and not e.args and dotted(e.func.value) not in ('np',):
            gap_exprs.append(('max', e.func.value))
            if not axis0(e):
                axis_faults.append(('the maximum gap `%s`' % unparse(e), e))
            return 'g'
        if vec:
            # x[argmax(G, axis=0), arange]  /  np.take_along_axis(x, I, axis=0)[0]
            t = e
            while isinstance(t, ast.Subscript) and not (
                    isinstance(t.slice, ast.Tuple) and any(
                        isinstance(c, ast.Call) for c in ast.walk(t.slice))):
                if isinstance(t.value, ast.Call) and \
                        dotted(t.value.func) == 'np.take_along_axis':
                    t = t.value
                    break
                if isinstance(t.value, ast.Name) and not isinstance(t.slice, ast.Tuple):
                    break
                t = t.value
            am = None
            base = None
            if isinstance(t, ast.Call) and dotted(t.func) == 'np.take_along_axis' and \
                    len(t.args) >= 2:
                base = t.args[0]
                idx = t.args[1]
                if not axis0(t):
                    axis_faults.append(('the selection `%s`' % unparse(t)[:40], t))
                seen = 0
                while seen < 6:
                    seen += 1
                    if isinstance(idx, ast.Name) and idx.id in env:
                        idx = env[idx.id]
                    elif isinstance(idx, ast.Subscript):
                        idx = idx.value
                    else:
                        break
                if isinstance(idx, ast.Call) and dotted(idx.func) == 'np.argmax' and idx.args:
                    am = idx
            elif isinstance(t, ast.Subscript) and isinstance(t.slice, ast.Tuple) and \
                    len(t.slice.elts) == 2 and isinstance(t.slice.elts[0], ast.Call) and \
                    dotted(t.slice.elts[0].func) == 'np.argmax' and t.slice.elts[0].args:
                base, am = t.value, t.slice.elts[0]
            if am is not None:
                if not axis0(am):
                    axis_faults.append(('the position `%s`' % unparse(am), am))
                gap_exprs.append(('argmax', am.args[0], base))
                return 's'
        if isinstance(e, ast.Subscript) and isinstance(e.slice, ast.Name) and \
                e.slice.id in kdefs:
            # x[k] / gaps[k] with k a local: every definition of k must be argmax(gaps)
            vals = kdefs[e.slice.id]
            am = [v for v in vals if isinstance(v, ast.Call) and dotted(v.func) == 'np.argmax'
                  and len(v.args) >= 1]
            for v in vals:
                if v not in am:
                    not_largest.append((e.slice.id, v))
            if am:
                g_arg = am[0].args[0]
                if unparse(e.value) == unparse(g_arg):
                    gap_exprs.append(('max', g_arg))
                    return 'g'
                gap_exprs.append(('argmax', g_arg, e.value))
                return 's'
        if isinstance(e, ast.Subscript) and isinstance(e.slice, ast.Call) and \
                dotted(e.slice.func) == 'np.argmax' and len(e.slice.args) == 1:
            if unparse(e.value) == unparse(e.slice.args[0]):
                gap_exprs.append(('max', e.slice.args[0]))
                return 'g'          # G[argmax(G)] is the maximum
            gap_exprs.append(('argmax', e.slice.args[0], e.value))
            return 's'
        return None
    try:
        form = linear(inner, csym, env)
    except _Unknown as exc:
        undecided('centre formula %s' % exc)
        return 0
    okc = k >= 1 and form.get('s', 0) == 1 and form.get('g', 0) == Fraction(1, 2) and \
        (form.get(1, 0) - Fraction(1, 2)).denominator == 1 and \
        set(form) <= {'s', 'g', 1}
    ctx.ob(rid, 'PhaseShift.compute:centre-opposite-gap-midpoint', okc, f.where(st),
           'centre = (start of the largest gap + half its length + 1/2) mod 1' if okc else
           'centre is computed as %s%s: not the point opposite the midpoint of the largest gap'
           % (_fmt(form), ' mod 1' if k else ' (no reduction modulo 1)'))
    if vec:
        ctx.ob(rid, 'PhaseShift.compute:per-column-reductions', not axis_faults, f.where(st),
               'with all periodic columns handled at once, maximum / argmax / selection run '
               'along axis 0 (over the points of each column)' if not axis_faults else
               '%s is not taken along axis 0: it mixes the periodic columns (e.g. the largest '
               'gap over ALL columns instead of each column\'s own), so a column\'s centre is '
               'not opposite its own largest gap' % axis_faults[0][0])
    if kdefs:
        ctx.ob(rid, 'PhaseShift.compute:always-the-largest-gap', not not_largest, f.where(st),
               'the gap that is centred opposite the wrap position is argmax(gaps) on every path'
               if not not_largest else
               'on some path the index of the gap is `%s = %s` instead of argmax(gaps): a gap '
               'that is not the largest is placed across the boundary and the largest one ends '
               'up inside the cube' % (not_largest[0][0], unparse(not_largest[0][1])[:40]))
    gv = {unparse(g[1]) for g in gap_exprs}
    same_vec = len(gv) == 1
    ctx.ob(rid, 'PhaseShift.compute:argmax-and-max-of-same-vector', same_vec, f.where(st),
           'the start and the length of the largest gap are taken from the same gap vector'
           if same_vec else 'argmax and max refer to different vectors: %s' % sorted(gv))
    xs = [g[2] for g in gap_exprs if g[0] == 'argmax']
    if not xs or not gap_exprs:
        undecided('gap vector not identified')
        return 2
    xname = xs[0]
    xdef = env.get(xname.id) if isinstance(xname, ast.Name) else xname
    oks = xdef is not None and _is_sorted_column(xdef) and (
        not vec or (isinstance(xdef, ast.Call) and axis0(xdef)))
    ctx.ob(rid, 'PhaseShift.compute:coordinates-sorted', oks, f.where(st),
           'gaps are taken between neighbours of the sorted coordinates' if oks else
           'the coordinates `%s` the gaps are taken from are not sorted: differences of '
           'unsorted values are not the empty arcs' % (unparse(xdef) if xdef is not None
                                                       else unparse(xname)))
    # ---- the gap vector
    G = gap_exprs[0][1]
    G, nmod = _strip_mod1(G, env)
    xn = xname.id if isinstance(xname, ast.Name) else None

    def is_x(e):
        return isinstance(e, ast.Name) and e.id == xn

    def gsym(e):
        if isinstance(e, ast.Subscript) and is_x(e.value):
            sl = e.slice
            if isinstance(sl, ast.Tuple) and len(sl.elts) == 2 and \
                    isinstance(sl.elts[1], ast.Slice) and sl.elts[1].lower is None and \
                    sl.elts[1].upper is None:
                sl = sl.elts[0]         # x[0, :]
            i = _const(sl)
            if i == 0:
                return 'a'
            if i == -1:
                return 'b'
            if isinstance(sl, ast.Slice) and sl.step is None:
                lo = _const(sl.lower) if sl.lower is not None else None
                hi = _const(sl.upper) if sl.upper is not None else None
                if sl.lower is None and hi == 1:
                    return 'a'          # x[:1]: the first row, kept two-dimensional
                if lo == -1 and sl.upper is None:
                    return 'b'          # x[-1:]
        return None

    wrap = None
    if isinstance(G, ast.Call) and dotted(G.func) == 'np.append' and len(G.args) >= 2 and \
            _is_diff_of(G.args[0], is_x):
        wrap = ('value', G.args[1])
        if not axis0(G) or not axis0(G.args[0]):
            axis_faults.append(('the gap vector `%s`' % unparse(G)[:40], G))
    elif isinstance(G, ast.Call) and dotted(G.func) in ('np.concatenate', 'np.hstack',
                                                        'np.vstack') and \
            G.args and isinstance(G.args[0], (ast.List, ast.Tuple)) and \
            len(G.args[0].elts) == 2 and _is_diff_of(G.args[0].elts[0], is_x):
        w = G.args[0].elts[1]
        if isinstance(w, (ast.List, ast.Tuple)) and len(w.elts) == 1:
            wrap = ('value', w.elts[0])
    elif isinstance(G, ast.Call) and dotted(G.func) == 'np.diff' and G.args:
        app = [kw.value for kw in G.keywords if kw.arg == 'append']
        if is_x(G.args[0]) and app:
            wrap = ('endpoint', app[0])
        elif isinstance(G.args[0], ast.Call) and dotted(G.args[0].func) == 'np.append' and \
                len(G.args[0].args) == 2 and is_x(G.args[0].args[0]):
            wrap = ('endpoint', G.args[0].args[1])
    if wrap is None:
        undecided('gap vector `%s` has a shape the rule does not know' % unparse(G)[:60])
        return 3
    try:
        wf = linear(wrap[1], gsym, env)
    except _Unknown as exc:
        undecided('wrap-around gap %s' % exc)
        return 3
    if wrap[0] == 'endpoint':
        wf = _lin_add(wf, {'b': Fraction(1)}, -1)      # appended end point minus x[-1]
    want = {'a': Fraction(1), 'b': Fraction(-1), 1: Fraction(1)}
    cases = {'a<b': wf, 'a==b': _subst_eq(wf)}
    for _ in range(nmod):
        nxt = {}
        for cname, fm in cases.items():
            if fm is None:
                nxt[cname] = None
                continue
            r = _mod1_cases(fm if cname == 'a<b' else _lin_add(fm, {}))
            if cname == 'a<b':
                nxt[cname] = r['a<b']
            else:
                # already expressed in a only: constant forms are reduced exactly
                nxt[cname] = {1: fm.get(1, 0) - (fm.get(1, 0).numerator //
                                                 fm.get(1, 0).denominator)} \
                    if set(k for k, v in fm.items() if v != 0) <= {1} else None
        cases = nxt
    n = 3
    for cname, fm in cases.items():
        target = want if cname == 'a<b' else _subst_eq(want)
        if fm is None:
            undecided('wrap-around gap for %s' % cname)
            continue
        ok = _same(fm, target)
        n += 1
        label = {'a<b': 'distinct-coordinates', 'a==b': 'coincident-coordinates'}[cname]
        ctx.ob(rid, 'PhaseShift.compute:wrap-gap(%s)' % label, ok, f.where(st),
               'for %s the wrap-around gap is %s = x[0] - x[-1] + 1: the gaps sum to the period'
               % ({'a<b': 'x[0] < x[-1]', 'a==b': 'x[0] == x[-1]'}[cname], _fmt(fm)) if ok else
               'for %s the wrap-around gap evaluates to %s instead of %s (x[0] - x[-1] + 1): '
               'the gaps do not cover the circle, so the largest empty arc is mis-identified%s'
               % ({'a<b': 'x[0] < x[-1]', 'a==b': 'x[0] == x[-1]'}[cname], _fmt(fm),
                  _fmt(target), ' when all construction points share one coordinate'
                  if cname == 'a==b' else ''))
    return n


def _fmt(form):
    parts = []
    names = {'a': 'x[0]', 'b': 'x[-1]', 's': 'x[argmax]', 'g': 'max(gaps)'}
    for k in ('s', 'g', 'a', 'b'):
        v = form.get(k, 0)
        if v:
            parts.append('%s*%s' % (v, names[k]) if v != 1 else names[k])
    c = form.get(1, 0)
    if c or not parts:
        parts.append(str(c))
    return ' + '.join(parts)


def _is_sorted_column(e):
    if isinstance(e, ast.Call) and dotted(e.func) in ('np.sort', 'sorted') and e.args:
        return True
    return False


def _is_diff_of(e, is_x):
    return isinstance(e, ast.Call) and dotted(e.func) == 'np.diff' and len(e.args) == 1 and \
        all(k.arg == 'axis' and _const(k.value) == 0 for k in e.keywords) and is_x(e.args[0])

"""V2 -- the closed-form volumes, decided as exact algebra on the expressions of the source.

 V2a  Union.log_v and NautilusBound.log_v return
          (log volume of the proposal region) + log((n_sample - n_reject) / n_sample)
      i.e. the proposal region's volume times the accepted fraction of proposals.  The argument
      of the logarithm is evaluated as a rational function of n_sample and n_reject and compared
      by cross-multiplication, so `1 - r/s`, `(s - r)/s` and `1.0 - r / float(s)` all pass.
      The proposal region is logsumexp(log_v_all) for a union (whose allocation draws members
      with probabilities proportional to exp(log_v_all): rule Q2) and outer_bound.log_v for a
      nautilus bound; log_v_all is rebuilt from the members' log_v wherever it is assigned.
 V2b  Ellipsoid.log_v is  log|det M| + (n/2) log(pi) - lgamma(n/2 + 1)  where M is the matrix
      that Ellipsoid.transform(inverse=True) applies to the unit ball (and whose inverse, by
      construction in compute(), is what contains() applies).  The coefficient of n is summed
      numerically from the constants of the source (n log 2 + n lgamma(3/2) = (n/2) log pi).
 V2c  Ellipsoid.sample draws a direction (normal draw divided by its row norm), a radius
      u**(1/n_dim) and maps through transform(inverse=True): uniform in the ellipsoid that
      contains() tests, `|B^-1 (x - c)|^2 < 1`.

Shapes outside the small languages are reported as not decided.
"""
import ast
import math
from fractions import Fraction

from .cfg import cfg_of
from .exprs import dotted, unparse, walk_no_nested


class Undecided(Exception):
    pass


# ---- polynomials in named symbols: {((sym, power), ...): coef}

def p_const(c):
    return {(): Fraction(c)} if c else {}


def p_sym(s):
    return {((s, 1),): Fraction(1)}


def p_add(a, b, sgn=1):
    out = dict(a)
    for k, v in b.items():
        out[k] = out.get(k, 0) + sgn * v
    return {k: v for k, v in out.items() if v != 0}


def p_mul(a, b):
    out = {}
    for ka, va in a.items():
        for kb, vb in b.items():
            d = dict(ka)
            for s, p in kb:
                d[s] = d.get(s, 0) + p
            k = tuple(sorted((s, p) for s, p in d.items() if p))
            out[k] = out.get(k, 0) + va * vb
    return {k: v for k, v in out.items() if v != 0}


def ratfun(e, sym, depth=0):
    """(numerator, denominator) polynomials of an arithmetic expression."""
    if depth > 12:
        raise Undecided('too deep')
    if isinstance(e, ast.Constant) and isinstance(e.value, (int, float)) and \
            not isinstance(e.value, bool):
        return p_const(Fraction(e.value).limit_denominator(10 ** 9)), p_const(1)
    s = sym(e)
    if s is not None:
        return p_sym(s), p_const(1)
    if isinstance(e, ast.Call) and dotted(e.func) in ('float', 'np.float64', 'int') and \
            len(e.args) == 1:
        return ratfun(e.args[0], sym, depth + 1)
    if isinstance(e, ast.UnaryOp) and isinstance(e.op, ast.USub):
        n, d = ratfun(e.operand, sym, depth + 1)
        return p_add({}, n, -1), d
    if isinstance(e, ast.BinOp):
        if isinstance(e.op, (ast.Add, ast.Sub, ast.Mult, ast.Div)):
            n1, d1 = ratfun(e.left, sym, depth + 1)
            n2, d2 = ratfun(e.right, sym, depth + 1)
            if isinstance(e.op, ast.Mult):
                return p_mul(n1, n2), p_mul(d1, d2)
            if isinstance(e.op, ast.Div):
                if not n2:
                    raise Undecided('division by zero')
                return p_mul(n1, d2), p_mul(d1, n2)
            sg = 1 if isinstance(e.op, ast.Add) else -1
            return p_add(p_mul(n1, d2), p_mul(n2, d1), sg), p_mul(d1, d2)
    if isinstance(e, ast.BinOp) and isinstance(e.op, ast.Pow) and \
            isinstance(e.right, ast.Constant) and isinstance(e.right.value, int) and \
            not isinstance(e.right.value, bool) and abs(e.right.value) <= 6:
        n1, d1 = ratfun(e.left, sym, depth + 1)
        k = e.right.value
        if k < 0:
            if not n1:
                raise Undecided('division by zero')
            n1, d1, k = d1, n1, -k
        rn, rd = p_const(1), p_const(1)
        for _ in range(k):
            rn, rd = p_mul(rn, n1), p_mul(rd, d1)
        return rn, rd
    raise Undecided('`%s` is not a rational expression of the counters' % unparse(e)[:40])


def _self_attr(e):
    if isinstance(e, ast.Attribute) and isinstance(e.value, ast.Name) and e.value.id == 'self':
        return e.attr
    return None


def _returns(func):
    return [r for r in walk_no_nested(func.node) if isinstance(r, ast.Return) and
            r.value is not None]


def _split_sum(e):
    """Top-level additive terms of an expression: [(sign, term)]."""
    if isinstance(e, ast.BinOp) and isinstance(e.op, (ast.Add, ast.Sub)):
        right = _split_sum(e.right)
        if isinstance(e.op, ast.Sub):
            right = [(-s, t) for s, t in right]
        return _split_sum(e.left) + right
    if isinstance(e, ast.UnaryOp) and isinstance(e.op, ast.USub):
        return [(-s, t) for s, t in _split_sum(e.operand)]
    return [(1, e)]


def rule_V2(ctx, rid='V2'):
    ctx.rule(rid, 'volume algebra: union / nautilus volumes are the proposal region\'s volume '
             'times (n_sample - n_reject)/n_sample as a rational function; the ellipsoid volume '
             'is log|det M| + (n/2) log pi - lgamma(n/2 + 1) for the matrix M that maps the unit '
             'ball onto the ellipsoid; the ellipsoid sampler draws direction x u^(1/n) through M')
    prog = ctx.program
    n = 0

    # ---------------- V2a
    def csym(e):
        a = _self_attr(e)
        if a == 'n_sample':
            return 's'
        if a == 'n_reject':
            return 'r'
        return None
    for q, region in (('Union.log_v', 'logsumexp(self.log_v_all)'),
                      ('NautilusBound.log_v', 'self.outer_bound.log_v')):
        f = prog.func(q)
        rets = [r for r in _returns(f) if not isinstance(r.value, ast.Constant)]
        if len(rets) != 1:
            ctx.note('%s not decided for %s: %d non-constant returns' % (rid, q, len(rets)))
            continue
        value = rets[0].value
        if isinstance(value, (ast.Name, ast.Attribute)):
            # the formula is stored first (e.g. memoised) and the stored value returned
            asg = [st for st in walk_no_nested(f.node) if isinstance(st, ast.Assign) and
                   len(st.targets) == 1 and unparse(st.targets[0]) == unparse(value) and
                   not (isinstance(st.value, ast.Constant) and st.value.value is None)]
            if len(asg) == 1:
                value = asg[0].value
        terms = _split_sum(value)
        logs = [(s, t) for s, t in terms if isinstance(t, ast.Call) and
                dotted(t.func) in ('np.log', 'math.log') and len(t.args) == 1]
        others = [(s, t) for s, t in terms if (s, t) not in logs]
        if len(logs) != 1 or len(others) != 1:
            ctx.note('%s not decided for %s: not of the form region + log(fraction)' % (rid, q))
            continue
        okr = others[0][0] == 1 and unparse(others[0][1]).replace(' ', '') == \
            region.replace(' ', '')
        n += 1
        ctx.ob(rid, '%s:proposal-region' % q, okr, f.where(rets[0]),
               'the volume starts from %s' % region if okr else
               'the volume starts from `%s%s`, not from %s' % (
                   '-' if others[0][0] < 0 else '', unparse(others[0][1])[:50], region))
        try:
            num, den = ratfun(logs[0][1].args[0], csym)
            if logs[0][0] < 0:
                num, den = den, num
            want_n = p_add(p_sym('s'), p_sym('r'), -1)
            want_d = p_sym('s')
            ok = p_mul(num, want_d) == p_mul(want_n, den) and bool(den)
            n += 1
            ctx.ob(rid, '%s:accepted-fraction' % q, ok, f.where(rets[0]),
                   'the correction factor is (n_sample - n_reject) / n_sample' if ok else
                   'the correction factor `%s` is not the accepted fraction '
                   '(n_sample - n_reject) / n_sample' % unparse(logs[0][1].args[0])[:50])
        except Undecided as exc:
            ctx.note('%s not decided for %s: %s' % (rid, q, exc))
    # the division by n_sample is preceded by a draw whenever no proposal was made yet
    for q in ('Union.log_v', 'NautilusBound.log_v'):
        f = prog.func(q)
        cfg = cfg_of(f)
        rets = [r for r in _returns(f) if not isinstance(r.value, ast.Constant) and cfg.has(r)]
        guards = []
        for t in cfg.nodes:
            if t.kind != 'test' or t.expr is None:
                continue
            e = t.expr
            if isinstance(e, ast.Compare) and len(e.ops) == 1 and \
                    _self_attr(e.left) == 'n_sample' and isinstance(e.ops[0], (ast.Eq, ast.LtE)) \
                    and isinstance(e.comparators[0], ast.Constant) and \
                    e.comparators[0].value == 0:
                tb = [s_ for s_, lab in t.succ if lab is True]
                draws = [nn for nn in cfg.nodes if nn.ast is not None and any(
                    isinstance(c, ast.Call) and isinstance(c.func, ast.Attribute) and
                    c.func.attr == 'sample' and isinstance(c.func.value, ast.Name) and
                    c.func.value.id == f.self_name for c in ast.walk(nn.ast)
                    if isinstance(nn.ast, ast.AST))]
                if tb and any(d.id == tb[0] or d.id in cfg.reach(tb[0]) for d in draws) and \
                        all(cfg.dominates(t.id, cfg.node_of(r).id) for r in rets):
                    guards.append(t)
            if isinstance(e, ast.UnaryOp) and isinstance(e.op, ast.Not) and \
                    _self_attr(e.operand) == 'n_sample':
                guards.append(t)
        n += 1
        ctx.ob(rid, '%s:sampled-before-dividing' % q, bool(guards), f.where(),
               'a bound that has not proposed anything yet draws first (n_sample == 0 => '
               'sample()), so the accepted fraction is never 0/0' if guards else
               'the accepted fraction divides by n_sample without first making sure that '
               'proposals have been drawn: a fresh or reset bound reports nan')
    # log_v_all is the members' log volumes, in member order, wherever it is (re)built
    fU = prog.cls('Union')
    for m in fU.methods.values():
        for st in walk_no_nested(m.node):
            if isinstance(st, ast.Assign) and len(st.targets) == 1 and \
                    isinstance(st.targets[0], ast.Attribute) and \
                    st.targets[0].attr == 'log_v_all' and not isinstance(st.value, ast.Subscript):
                v = st.value
                if any(isinstance(x, ast.Subscript) and ('attrs' in unparse(x.value))
                       for x in ast.walk(v)):
                    continue        # restored from a checkpoint
                inner = v.args[0] if isinstance(v, ast.Call) and dotted(v.func) in (
                    'np.array', 'np.asarray', 'list') and v.args else v
                ok = False
                if isinstance(inner, ast.ListComp) and len(inner.generators) == 1 and \
                        not inner.generators[0].ifs and \
                        isinstance(inner.elt, ast.Attribute) and inner.elt.attr == 'log_v' and \
                        isinstance(inner.elt.value, ast.Name) and \
                        isinstance(inner.generators[0].target, ast.Name) and \
                        inner.elt.value.id == inner.generators[0].target.id and \
                        unparse(inner.generators[0].iter).endswith('.bounds'):
                    ok = True
                if isinstance(inner, ast.List) and len(inner.elts) == 1 and \
                        isinstance(inner.elts[0], ast.Attribute) and \
                        inner.elts[0].attr == 'log_v' and \
                        unparse(inner.elts[0].value).endswith('.bounds[0]'):
                    ok = True
                if isinstance(v, ast.Call) and dotted(v.func) in ('np.delete', 'np.append',
                                                                  'np.insert'):
                    continue        # structural edits are the business of the lockstep rules
                n += 1
                ctx.ob(rid, '%s:log_v_all-is-member-volumes' % m.qualname, ok, m.where(st),
                       'log_v_all is rebuilt from the members\' log_v in member order' if ok else
                       '`%s` does not rebuild log_v_all from the log_v of every member in order'
                       % unparse(st)[:60])

    # an element store into log_v_all keeps the array's dtype: if the array can have been created
    # from Python ints (a member's log_v returning the literal 0), a float is truncated
    stores = []
    for m in fU.methods.values():
        for st in walk_no_nested(m.node):
            tg = st.targets[0] if isinstance(st, ast.Assign) and len(st.targets) == 1 else (
                st.target if isinstance(st, ast.AugAssign) else None)
            if isinstance(tg, ast.Subscript) and isinstance(tg.value, ast.Attribute) and \
                    tg.value.attr == 'log_v_all':
                stores.append((m, st))
    if stores:
        int_getters = []
        for f in prog.functions.values():
            if f.name == 'log_v' and f.cls is not None:
                for r in _returns(f):
                    if isinstance(r.value, ast.Constant) and isinstance(r.value.value, int) and \
                            not isinstance(r.value.value, bool):
                        int_getters.append(f.qualname)
        creations = []
        for m in fU.methods.values():
            for st in walk_no_nested(m.node):
                if isinstance(st, ast.Assign) and len(st.targets) == 1 and \
                        isinstance(st.targets[0], ast.Attribute) and \
                        st.targets[0].attr == 'log_v_all' and isinstance(st.value, ast.Call) and \
                        dotted(st.value.func) in ('np.array', 'np.asarray'):
                    typed = any(k.arg == 'dtype' and unparse(k.value) in (
                        'float', 'np.float64', 'np.double') for k in st.value.keywords)
                    creations.append((m, st, typed))
        untyped = [c for c in creations if not c[2]]
        for m, st in stores:
            ok = not (int_getters and untyped)
            n += 1
            ctx.ob(rid, '%s:element-store-keeps-float(log_v_all)' % m.qualname, ok, m.where(st),
                   'log_v_all is a float array wherever an element is stored into it' if ok else
                   '`%s` stores into an array that `%s` may have created with an INTEGER dtype '
                   '(%s returns the int 0): the stored log-volume is truncated to an integer, so '
                   'the member is over-proposed and the union\'s volume is wrong' % (
                       unparse(st)[:50], unparse(untyped[0][1])[:50], ', '.join(int_getters)))
    # ---------------- V2b
    f = prog.func('Ellipsoid.log_v')
    tr = prog.func('Ellipsoid.transform')
    # the matrix of the inverse transform: einsum(..., self.M, points) + self.c
    inv_m = None
    cfgt = cfg_of(tr)
    for r in _returns(tr):
        if not cfgt.has(r):
            continue
        mats = [x for x in ast.walk(r.value) if _self_attr(x) in ('B', 'B_inv', 'A')]
        plus_c = any(isinstance(x, ast.BinOp) and isinstance(x.op, ast.Add) and
                     (_self_attr(x.right) == 'c' or _self_attr(x.left) == 'c')
                     for x in ast.walk(r.value))
        if plus_c and len(mats) == 1:
            inv_m = _self_attr(mats[0])
    # the two directions translate by the centre in opposite senses
    pc = mc = 0
    for r in _returns(tr):
        if any(isinstance(x, ast.BinOp) and isinstance(x.op, ast.Add) and
               (_self_attr(x.right) == 'c' or _self_attr(x.left) == 'c')
               for x in ast.walk(r.value)):
            pc += 1
        if any(isinstance(x, ast.BinOp) and isinstance(x.op, ast.Sub) and
               _self_attr(x.right) == 'c' for x in ast.walk(r.value)):
            mc += 1
    n += 1
    ctx.ob(rid, 'Ellipsoid.transform:translation-pair', pc == 1 and mc == 1, tr.where(),
           'one direction subtracts the centre before the matrix, the other adds it after' if
           pc == 1 and mc == 1 else
           'the two directions of Ellipsoid.transform do not translate by the centre in opposite '
           'senses (%d add it, %d subtract it): transform(inverse=True) does not undo transform()'
           % (pc, mc))
    # ... and that return is the one taken for inverse=True
    if inv_m is not None:
        for r in _returns(tr):
            if not cfgt.has(r):
                continue
            plus_c = any(isinstance(x, ast.BinOp) and isinstance(x.op, ast.Add) and
                         (_self_attr(x.right) == 'c' or _self_attr(x.left) == 'c')
                         for x in ast.walk(r.value))
            minus_c = any(isinstance(x, ast.BinOp) and isinstance(x.op, ast.Sub) and
                          _self_attr(x.right) == 'c' for x in ast.walk(r.value))
            if not (plus_c or minus_c):
                continue
            want = True if plus_c else False
            facts = [tr_ for _, tx, tr_ in cfgt.facts(cfgt.node_of(r).id) if tx == 'inverse']
            okb = bool(facts) and all(x == want for x in facts)
            n += 1
            ctx.ob(rid, 'Ellipsoid.transform:%s-branch' % ('inverse' if plus_c else 'forward'),
                   okb, tr.where(r),
                   'the %s map is returned for inverse=%s' % (
                       'ball -> ellipsoid' if plus_c else 'ellipsoid -> ball', want) if okb else
                   'the %s map is returned for inverse=%s: contains() and sample() use the '
                   'transform in the opposite direction' % (
                       'ball -> ellipsoid' if plus_c else 'ellipsoid -> ball', not want))
    rets = _returns(f)
    if inv_m is None or len(rets) != 1:
        ctx.note('%s not decided for Ellipsoid.log_v: matrix of the inverse transform or the '
                 'return not identified' % rid)
    else:
        try:
            coef_n, other = 0.0, {}
            for sg, t in _split_sum(rets[0].value):
                k, core, core_inv = _n_multiple(t)
                if isinstance(core, ast.Constant) and core.value == 1 and k is not None:
                    raise Undecided('bare multiple of n')
                if k is not None and _const_value(core) not in (None, 0):
                    cv = _const_value(core)
                    coef_n += sg * float(k) * (1.0 / cv if core_inv else cv)
                    continue
                key = _volume_atom(t)
                if key is None:
                    raise Undecided('term `%s`' % unparse(t)[:40])
                other[key] = other.get(key, 0) + sg
            okm = other.get(('logdet', inv_m), 0) == 1 and \
                not [k for k in other if k[0] == 'logdet' and k[1] != inv_m and other[k]]
            n += 1
            ctx.ob(rid, 'Ellipsoid.log_v:determinant-of-sampling-matrix', okm, f.where(rets[0]),
                   'log|det self.%s|, the matrix transform(inverse=True) applies to the unit ball'
                   % inv_m if okm else
                   'the determinant term is %s but the unit ball is mapped onto the ellipsoid by '
                   'self.%s' % (sorted(k for k in other if k[0] == 'logdet'), inv_m))
            okg = other.get(('lgamma', 'n/2+1'), 0) == -1 and \
                not [k for k in other if k[0] == 'lgamma' and k[1] != 'n/2+1']
            n += 1
            ctx.ob(rid, 'Ellipsoid.log_v:unit-ball-gamma-term', okg, f.where(rets[0]),
                   '- lgamma(n/2 + 1)' if okg else
                   'the gamma term is %s, not -lgamma(n/2 + 1)' %
                   sorted((k, v) for k, v in other.items() if k[0] == 'lgamma'))
            okn = abs(coef_n - 0.5 * math.log(math.pi)) < 1e-12
            n += 1
            ctx.ob(rid, 'Ellipsoid.log_v:unit-ball-pi-term', okn, f.where(rets[0]),
                   'the terms proportional to n sum to (n/2) log pi' if okn else
                   'the terms proportional to n sum to %.12g n, not (1/2) log(pi) n = %.12g n: '
                   'not the volume of the unit n-ball' % (coef_n, 0.5 * math.log(math.pi)))
        except Undecided as exc:
            ctx.note('%s not decided for Ellipsoid.log_v: %s' % (rid, exc))

    # the forward matrix (used by contains) is the inverse of that matrix, by construction
    fwd_m = None
    for r in _returns(tr):
        mats = [x for x in ast.walk(r.value) if _self_attr(x) in ('B', 'B_inv', 'A')]
        minus_c = any(isinstance(x, ast.BinOp) and isinstance(x.op, ast.Sub) and
                      _self_attr(x.right) == 'c' for x in ast.walk(r.value))
        if minus_c and len(mats) == 1:
            fwd_m = _self_attr(mats[0])
    comp = prog.func('Ellipsoid.compute')
    if inv_m and fwd_m and inv_m != fwd_m:
        asg = [st for st in walk_no_nested(comp.node) if isinstance(st, ast.Assign) and
               isinstance(st.targets[0], ast.Attribute) and st.targets[0].attr == fwd_m]
        verdicts = []
        for st in asg:
            v = st.value
            while isinstance(v, ast.Subscript):
                v = v.value
            d = dotted(v.func) if isinstance(v, ast.Call) else None
            arg_ok = isinstance(v, ast.Call) and v.args and \
                isinstance(v.args[0], ast.Attribute) and v.args[0].attr == inv_m
            if d in ('np.linalg.inv', 'scipy.linalg.inv', 'linalg.inv', 'inv', 'dtrtri',
                     'scipy.linalg.lapack.dtrtri', 'lapack.dtrtri') and arg_ok:
                verdicts.append((True, st))
            elif d in ('np.linalg.inv', 'scipy.linalg.inv', 'linalg.inv', 'inv') or \
                    isinstance(v, ast.Attribute):
                verdicts.append((False, st))
        for ok, st in verdicts:
            n += 1
            ctx.ob(rid, 'Ellipsoid.compute:forward-matrix-is-inverse', ok, comp.where(st),
                   'self.%s = inverse of self.%s: contains() tests the image of the unit ball '
                   'under the matrix whose determinant gives the volume' % (fwd_m, inv_m) if ok
                   else '`%s` does not set self.%s to the inverse of self.%s'
                   % (unparse(st)[:50], fwd_m, inv_m))
        if not verdicts:
            ctx.note('%s not decided: construction of self.%s in Ellipsoid.compute not '
                     'recognised' % (rid, fwd_m))
    elif inv_m and fwd_m:
        n += 1
        ctx.ob(rid, 'Ellipsoid.transform:distinct-matrices', False, tr.where(),
               'forward and inverse transform use the same matrix self.%s' % inv_m)

    # ---------------- V2c
    f = prog.func('Ellipsoid.sample')
    pows = [x for x in walk_no_nested(f.node) if isinstance(x, ast.BinOp) and
            isinstance(x.op, ast.Pow) and any(
                isinstance(c, ast.Call) and (dotted(c.func) or '').split('.')[-1] in
                ('uniform', 'random') for c in ast.walk(x.left))]
    if len(pows) == 1:
        try:
            num, den = ratfun(pows[0].right, lambda e: 'n' if _self_attr(e) == 'n_dim' else None)
            ok = p_mul(num, p_sym('n')) == den and bool(den)
            n += 1
            ctx.ob(rid, 'Ellipsoid.sample:radius-exponent', ok, f.where(pows[0]),
                   'radius = u ** (1 / n_dim): uniform in the ball' if ok else
                   'radius = u ** (%s): not uniform in the n-ball (needs exponent 1/n_dim)'
                   % unparse(pows[0].right))
        except Undecided as exc:
            ctx.note('%s not decided for Ellipsoid.sample radius: %s' % (rid, exc))
    else:
        ctx.note('%s not decided for Ellipsoid.sample: radius draw not identified' % rid)
    inv_calls = [c for c in walk_no_nested(f.node) if isinstance(c, ast.Call) and
                 isinstance(c.func, ast.Attribute) and c.func.attr == 'transform' and
                 isinstance(c.func.value, ast.Name) and c.func.value.id == 'self']
    oki = any(any(k.arg == 'inverse' and isinstance(k.value, ast.Constant) and
                  k.value.value is True for k in c.keywords) or
              (len(c.args) >= 2 and isinstance(c.args[1], ast.Constant) and
               c.args[1].value is True) for c in inv_calls)
    n += 1
    ctx.ob(rid, 'Ellipsoid.sample:mapped-through-inverse-transform', oki, f.where(),
           'ball points are mapped onto the ellipsoid by transform(inverse=True)' if oki else
           'the unit-ball draw is not mapped through transform(inverse=True)')
    norms = [x for x in walk_no_nested(f.node) if isinstance(x, ast.BinOp) and
             isinstance(x.op, ast.Div) and _is_row_norm(x.right, x.left)]
    norms += [x for x in walk_no_nested(f.node) if isinstance(x, ast.AugAssign) and
              isinstance(x.op, ast.Div) and _is_row_norm(x.value, x.target)]
    n += 1
    ctx.ob(rid, 'Ellipsoid.sample:direction-normalised', bool(norms), f.where(),
           'the normal draw is divided by its own row norm (uniform direction)' if norms else
           'no division of the draw by its own row norm found: directions are not uniform on '
           'the sphere')
    # contains(): squared norm of the forward transform against 1
    f = prog.func('Ellipsoid.contains')
    rets = _returns(f)
    okc = False
    for r in rets:
        v = r.value
        if isinstance(v, ast.Compare) and len(v.ops) == 1 and \
                isinstance(v.ops[0], (ast.Lt, ast.LtE)) and \
                isinstance(v.comparators[0], ast.Constant) and v.comparators[0].value == 1:
            tcalls = [c for c in ast.walk(v.left) if isinstance(c, ast.Call) and
                      isinstance(c.func, ast.Attribute) and c.func.attr == 'transform' and
                      not any(k.arg == 'inverse' for k in c.keywords) and len(c.args) == 1]
            sq = any(isinstance(x, ast.BinOp) and isinstance(x.op, ast.Pow) and
                     isinstance(x.right, ast.Constant) and x.right.value == 2
                     for x in ast.walk(v.left)) or 'norm' in unparse(v.left)
            axes = [unparse(k.value) for x in ast.walk(v.left) if isinstance(x, ast.Call)
                    for k in x.keywords if k.arg == 'axis']
            okc = bool(tcalls) and sq and bool(axes) and all(a in ('-1', '1') for a in axes)
    n += 1
    ctx.ob(rid, 'Ellipsoid.contains:unit-ball-in-forward-frame', okc, f.where(),
           'contains() tests |transform(x)|^2 against 1: the image of the unit ball under the '
           'matrix whose determinant log_v uses' if okc else
           'contains() is not the unit-ball test in the forward frame')
    need = ['Union.log_v:proposal-region', 'Union.log_v:accepted-fraction',
            'NautilusBound.log_v:proposal-region', 'NautilusBound.log_v:accepted-fraction',
            'Ellipsoid.log_v:determinant-of-sampling-matrix',
            'Ellipsoid.log_v:unit-ball-gamma-term', 'Ellipsoid.log_v:unit-ball-pi-term',
            'Ellipsoid.compute:forward-matrix-is-inverse', 'Ellipsoid.sample:radius-exponent',
            'Ellipsoid.transform:inverse-branch', 'Ellipsoid.transform:forward-branch']
    have = {o.construct for o in ctx.obligations if o.rule == rid}
    missing = [c for c in need if c not in have]
    if missing:
        ctx.floor_failures.append('rule %s could not decide %s (%s)' % (
            rid, missing, '; '.join(x for x in ctx.notes if x.startswith(rid))[:300]))
    return n


def _const_value(e):
    """Numeric value of a constant expression built from literals, np.log, gammaln, np.pi."""
    if isinstance(e, ast.Constant) and isinstance(e.value, (int, float)) and \
            not isinstance(e.value, bool):
        return float(e.value)
    if isinstance(e, ast.Attribute) and dotted(e) in ('np.pi', 'math.pi'):
        return math.pi
    if isinstance(e, ast.Call) and len(e.args) == 1:
        a = _const_value(e.args[0])
        d = dotted(e.func) or ''
        if a is None:
            return None
        if d in ('np.log', 'math.log') and a > 0:
            return math.log(a)
        if d.endswith('gammaln') or d in ('math.lgamma',):
            return math.lgamma(a)
        if d in ('np.sqrt', 'math.sqrt') and a >= 0:
            return math.sqrt(a)
    if isinstance(e, ast.BinOp):
        l, r = _const_value(e.left), _const_value(e.right)
        if l is None or r is None:
            return None
        if isinstance(e.op, ast.Add):
            return l + r
        if isinstance(e.op, ast.Sub):
            return l - r
        if isinstance(e.op, ast.Mult):
            return l * r
        if isinstance(e.op, ast.Div) and r:
            return l / r
    if isinstance(e, ast.UnaryOp) and isinstance(e.op, ast.USub):
        v = _const_value(e.operand)
        return None if v is None else -v
    return None


def _n_multiple(t):
    """(k, core) if t == k * self.n_dim * core (any order, k rational); else (None, t)."""
    factors, k = [], Fraction(1)

    def flat(e, inv=False):
        nonlocal k
        if isinstance(e, ast.BinOp) and isinstance(e.op, ast.Mult):
            flat(e.left, inv)
            flat(e.right, inv)
        elif isinstance(e, ast.BinOp) and isinstance(e.op, ast.Div):
            flat(e.left, inv)
            flat(e.right, not inv)
        else:
            factors.append((e, inv))
    flat(t)
    ns = [x for x in factors if _self_attr(x[0]) == 'n_dim' and not x[1]]
    if len(ns) != 1:
        return None, t, False
    rest = [x for x in factors if x is not ns[0]]
    core, core_inv = None, False
    for e, inv in rest:
        if isinstance(e, ast.Constant) and isinstance(e.value, (int, float)) and e.value != 0:
            k = k / Fraction(e.value).limit_denominator(10 ** 9) if inv else \
                k * Fraction(e.value).limit_denominator(10 ** 9)
        elif core is None:
            core, core_inv = e, inv
        else:
            return None, t, False
    return k, (core if core is not None else ast.Constant(value=1)), core_inv


def _volume_atom(t):
    # log|det M|
    if isinstance(t, ast.Subscript) and isinstance(t.value, ast.Call) and \
            dotted(t.value.func) == 'np.linalg.slogdet' and t.value.args and \
            isinstance(t.slice, ast.Constant) and t.slice.value == 1:
        a = _self_attr(t.value.args[0])
        if a:
            return ('logdet', a)
    if isinstance(t, ast.Call) and dotted(t.func) in ('np.sum', 'sum') and t.args:
        x = t.args[0]
        if isinstance(x, ast.Call) and dotted(x.func) == 'np.log' and x.args and \
                isinstance(x.args[0], ast.Call) and \
                dotted(x.args[0].func) in ('np.diag', 'np.diagonal') and x.args[0].args:
            a = _self_attr(x.args[0].args[0])
            if a in ('B',):        # triangular factor: the product of its diagonal is det
                return ('logdet', a)
    # lgamma(n/2 + 1)
    if isinstance(t, ast.Call) and ((dotted(t.func) or '').endswith('gammaln') or
                                    dotted(t.func) == 'math.lgamma') and len(t.args) == 1:
        try:
            num, den = ratfun(t.args[0], lambda e: 'n' if _self_attr(e) == 'n_dim' else None)
        except Undecided:
            return None
        # (n + 2) / 2
        if p_mul(num, p_const(2)) == p_mul(p_add(p_sym('n'), p_const(2)), den) and den:
            return ('lgamma', 'n/2+1')
        return ('lgamma', unparse(t.args[0]))
    return None


def _is_row_norm(den, numer):
    """den is the row norm of `numer` (sqrt of the sum of squares along axis 1 / -1, or
    np.linalg.norm(..., axis=1)), possibly with a new axis appended."""
    e = den
    while isinstance(e, ast.Subscript):
        e = e.value
    base = unparse(numer)
    if isinstance(e, ast.Call) and dotted(e.func) == 'np.sqrt' and e.args:
        s = e.args[0]
        if isinstance(s, ast.Call) and dotted(s.func) in ('np.sum', 'np.einsum') and s.args:
            sq = s.args[0]
            ax = [k.value for k in s.keywords if k.arg == 'axis']
            okax = ax and isinstance(ax[0], (ast.Constant, ast.UnaryOp)) and \
                unparse(ax[0]) in ('1', '-1')
            if isinstance(sq, ast.BinOp) and isinstance(sq.op, ast.Pow) and \
                    isinstance(sq.right, ast.Constant) and sq.right.value == 2 and \
                    unparse(sq.left) == base and okax:
                return True
    if isinstance(e, ast.Call) and dotted(e.func) == 'np.linalg.norm' and e.args and \
            unparse(e.args[0]) == base:
        ax = [k.value for k in e.keywords if k.arg == 'axis']
        return bool(ax) and unparse(ax[0]) in ('1', '-1')
    return False


def rule_V3(ctx, rid='V3'):
    ctx.rule(rid, 'enclosure of all construction points: Ellipsoid.compute hands the enclosing-'
             'ellipsoid routine the very array it was given (no selection, subsampling or '
             'helper in between), and Union.compute builds its first member from all points')
    prog = ctx.program
    n = 0
    for q, callee_attr, what in (('Ellipsoid.compute', 'minimum_volume_enclosing_ellipsoid',
                                  'the enclosing-ellipsoid routine'),
                                 ('Union.compute', 'compute', 'the first member')):
        f = prog.func(q)
        cfg = cfg_of(f)
        pts = [p for p in f.params if p not in ('cls', f.self_name)][0]
        calls = [c for c in walk_no_nested(f.node) if isinstance(c, ast.Call) and (
            (isinstance(c.func, ast.Name) and c.func.id == callee_attr) or
            (isinstance(c.func, ast.Attribute) and c.func.attr == callee_attr and
             isinstance(c.func.value, ast.Name) and c.func.value.id in f.params)) and c.args and
            cfg.has(c)]
        if not calls:
            ctx.note('%s not decided for %s: call of %s not found' % (rid, q, callee_attr))
            continue
        for c in calls:
            a = c.args[0]
            ok = isinstance(a, ast.Name) and a.id == pts and \
                cfg.defs_at(cfg.node_of(c).id, pts) == frozenset([cfg.entry.id])
            if not ok and isinstance(a, ast.Name):
                # an alias made by np.asarray / np.atleast_2d of the parameter is the same set
                ds = cfg.defs_at(cfg.node_of(c).id, a.id)
                if len(ds) == 1 and next(iter(ds)) != cfg.entry.id:
                    dn = cfg.nodes[next(iter(ds))]
                    v = dn.ast.value if isinstance(dn.ast, ast.Assign) else None
                    if isinstance(v, ast.Call) and dotted(v.func) in (
                            'np.asarray', 'np.atleast_2d', 'np.array', 'np.copy',
                            'np.ascontiguousarray') and v.args and \
                            isinstance(v.args[0], ast.Name) and v.args[0].id == pts:
                        ok = True
            n += 1
            ctx.ob(rid, '%s:all-points-enclosed' % q, ok, f.where(c),
                   '%s receives the construction points themselves' % what if ok else
                   '%s receives `%s`, not the construction points themselves: points left out '
                   'are not guaranteed to lie inside the bound built "around" them'
                   % (what, unparse(a)[:50]))
    return n


def rule_V4(ctx, rid='V4'):
    ctx.rule(rid, 'enclosure by rescaling: minimum_volume_enclosing_ellipsoid ends by dividing A '
             '(and multiplying A_inv) by the largest value of (x - c)^T A (x - c) over ALL points '
             'it was given, so every construction point satisfies the returned inequality; '
             'Ellipsoid.compute only ever enlarges (A_inv times enlarge_per_dim**2, A divided by '
             'it) and builds the sampling matrix from that A_inv')
    from .exprs import as_aug
    prog = ctx.program
    f = prog.func('basic.minimum_volume_enclosing_ellipsoid')
    cfg = cfg_of(f)
    pts = f.params[0]
    n = 0
    rets = [r for r in _returns(f) if isinstance(r.value, ast.Tuple) and len(r.value.elts) == 3
            and all(isinstance(e, ast.Name) for e in r.value.elts) and cfg.has(r)]
    if len(rets) != 1:
        ctx.note('%s not decided: return (c, A, A_inv) of the enclosing-ellipsoid routine not '
                 'found' % rid)
        return 0
    cname, aname, ainame = [e.id for e in rets[0].value.elts]
    rid_ = cfg.node_of(rets[0]).id
    # scale = max over the points of the quadratic form
    scales = []
    for st in walk_no_nested(f.node):
        if isinstance(st, ast.Assign) and len(st.targets) == 1 and \
                isinstance(st.targets[0], ast.Name) and isinstance(st.value, ast.Call) and \
                dotted(st.value.func) in ('np.amax', 'np.max', 'max') and st.value.args:
            q = st.value.args[0]
            names = {x.id for x in ast.walk(q) if isinstance(x, ast.Name)}
            diffs = [x for x in ast.walk(q) if isinstance(x, ast.BinOp) and
                     isinstance(x.op, ast.Sub) and isinstance(x.left, ast.Name) and
                     x.left.id == pts and isinstance(x.right, ast.Name) and x.right.id == cname]
            if aname in names and len(diffs) >= 2:
                scales.append(st)
    ok_s = len(scales) == 1
    n += 1
    ctx.ob(rid, 'minimum_volume_enclosing_ellipsoid:scale-is-max-over-all-points', ok_s,
           f.where(scales[0]) if scales else f.where(),
           'scale = max over the given points of (x - %s)^T %s (x - %s)' % (cname, aname, cname)
           if ok_s else
           'no `scale = max((points - c)^T A (points - c))` over the points the routine was '
           'given: the farthest construction point is not what the ellipsoid is stretched to')
    if ok_s:
        sname = scales[0].targets[0].id
        sid = cfg.node_of(scales[0]).id
        for target, op, what in ((aname, ast.Div, 'A is divided'), (ainame, ast.Mult,
                                                                    'A_inv is multiplied')):
            nodes = set()
            for nn in cfg.nodes:
                if nn.kind != 'stmt' or nn.ast is None:
                    continue
                r = as_aug(nn.ast)
                if r is None:
                    continue
                t, o, v = r
                if isinstance(t, ast.Name) and t.id == target and isinstance(o, op) and \
                        isinstance(v, ast.Name) and v.id == sname:
                    nodes.add(nn.id)
            ok = bool(nodes) and cfg.must_pass(sid, rid_, nodes)
            n += 1
            ctx.ob(rid, 'minimum_volume_enclosing_ellipsoid:rescaled(%s)' % target, ok,
                   f.where(scales[0]),
                   '%s by that scale on every path to the return' % what if ok else
                   '`%s` is returned without being %s by the scale: the matrix the bound is built '
                   'from does not stretch the ellipsoid to the farthest construction point, so '
                   'points it was built around lie outside it' % (
                       target, 'divided' if op is ast.Div else 'multiplied'))
    # Ellipsoid.compute: enlargement goes the right way and B comes from the enlarged A_inv
    g = prog.func('Ellipsoid.compute')
    for st in walk_no_nested(g.node):
        r = as_aug(st) if isinstance(st, (ast.Assign, ast.AugAssign)) else None
        if r is None:
            continue
        t, o, v = r
        if not any(isinstance(x, ast.Name) and x.id == 'enlarge_per_dim' for x in ast.walk(v)):
            continue
        tn = unparse(t)
        inv = tn.endswith('A_inv') or tn == 'A_inv'
        okd = isinstance(o, ast.Mult) if inv else isinstance(o, ast.Div)
        pw = isinstance(v, ast.BinOp) and isinstance(v.op, ast.Pow) and \
            isinstance(v.right, ast.Constant) and v.right.value > 0
        n += 1
        ctx.ob(rid, 'Ellipsoid.compute:enlarges(%s)' % tn, okd and pw, g.where(st),
               '%s is %s by a positive power of enlarge_per_dim (>= 1, validated): the ellipsoid '
               'only grows' % (tn, 'multiplied' if inv else 'divided') if okd and pw else
               '`%s` shrinks the ellipsoid: construction points on its surface end up outside'
               % unparse(st)[:50])
    chol = [st for st in walk_no_nested(g.node) if isinstance(st, ast.Assign) and
            isinstance(st.value, ast.Call) and
            dotted(st.value.func) in ('np.linalg.cholesky', 'scipy.linalg.cholesky', 'cholesky')]
    # the enlargement is there at all, reaches the matrix contains() and sample() use, and is
    # applied to A and A_inv alike (they stay inverses of each other)
    gcfg = cfg_of(g)
    enl = {}
    for st in walk_no_nested(g.node):
        r = as_aug(st) if isinstance(st, (ast.Assign, ast.AugAssign)) else None
        if r is None or not gcfg.has(st):
            continue
        t, o, v = r
        if any(isinstance(x, ast.Name) and x.id == 'enlarge_per_dim' for x in ast.walk(v)):
            enl[unparse(t)] = (st, unparse(v))
    e_inv = [k for k in enl if k.endswith('A_inv')]
    e_a = [k for k in enl if k.endswith('.A') or k == 'A']
    ok_inv = bool(e_inv) and len(chol) == 1 and gcfg.has(chol[0]) and \
        gcfg.dominates(gcfg.node_of(enl[e_inv[0]][0]).id, gcfg.node_of(chol[0]).id)
    n += 1
    ctx.ob(rid, 'Ellipsoid.compute:enlargement-reaches-sampling-matrix', ok_inv, g.where(),
           'A_inv is enlarged before its Cholesky factor is taken: contains() and sample() use '
           'the enlarged ellipsoid' if ok_inv else
           'A_inv is not enlarged before the Cholesky factor B is computed: the farthest '
           'construction point lies exactly on the surface and `contains` (strict <) rejects it')
    rederived = any(isinstance(st, ast.Assign) and unparse(st.targets[0]).endswith('.A') and
                    isinstance(st.value, ast.Call) and
                    dotted(st.value.func) in ('np.linalg.inv', 'inv') and e_inv and
                    gcfg.has(st) and gcfg.dominates(gcfg.node_of(enl[e_inv[0]][0]).id,
                                                    gcfg.node_of(st).id)
                    for st in walk_no_nested(g.node))
    ok_a = rederived or (bool(e_a) and bool(e_inv) and enl[e_a[0]][1] == enl[e_inv[0]][1])
    n += 1
    ctx.ob(rid, 'Ellipsoid.compute:A-and-A_inv-enlarged-alike', ok_a, g.where(),
           'A and A_inv are scaled by the same power of enlarge_per_dim (they stay inverse to '
           'each other)' if ok_a else
           'only one of A / A_inv is enlarged (or by different powers): the stored matrix A '
           '(overlap tests, checkpoints) and the sampling matrix describe different ellipsoids')
    okc = len(chol) == 1 and chol[0].value.args and unparse(chol[0].value.args[0]) in (
        'A_inv', ainame) and unparse(chol[0].targets[0]).endswith('.B')
    n += 1
    ctx.ob(rid, 'Ellipsoid.compute:sampling-matrix-from-A_inv', bool(okc), g.where(),
           'B is the Cholesky factor of the (enlarged) A_inv: B B^T = A_inv, so '
           '|B^-1 (x - c)|^2 = (x - c)^T A (x - c)' if okc else
           'the matrix B is not the Cholesky factor of A_inv: contains() does not test the '
           'ellipsoid the construction points were enclosed in')
    return n


def rule_V5(ctx, rid='V5'):
    """Who rejects: the union proposes from member i with probability ~ exp(log_v_all[i]), the
    member's FULL closed-form volume, and itself rejects (and counts in n_reject) what falls
    outside the unit cube or is claimed by several members.  That accounting is only right if a
    member hands back its raw draws: a member sampler that redraws or filters until the points
    lie in the cube is uniform on a *smaller* region than the volume it reports."""
    ctx.rule(rid, 'member samplers are rejection-free: no data-dependent loop, no comparison of '
             'the drawn coordinates with the cube bounds, no row filtering inside Ellipsoid / '
             'UnitCube / UnitCubeEllipsoidMixture.sample (rejection and its counters live in the '
             'union)')
    import ast as _ast
    from .exprs import walk_no_nested, unparse, dotted
    n = 0
    for q in ('Ellipsoid.sample', 'UnitCube.sample', 'UnitCubeEllipsoidMixture.sample'):
        if not ctx.program.has_func(q):
            continue
        f = ctx.program.func(q)
        loops = [x for x in walk_no_nested(f.node) if isinstance(x, _ast.While)]
        cmps = [x for x in walk_no_nested(f.node) if isinstance(x, _ast.Compare) and
                any(isinstance(c, _ast.Constant) and c.value in (0, 1, 0.0, 1.0) and
                    not isinstance(c.value, bool) for c in [x.left] + x.comparators) and
                not any(isinstance(y, _ast.Call) and dotted(y.func) == 'len'
                        for y in _ast.walk(x))]
        # comparisons that belong to option handling (`n_points`, `is None`) do not involve
        # array-valued operands; keep those that mention a local array
        arrs = {t.id for st in walk_no_nested(f.node) if isinstance(st, _ast.Assign)
                for t in st.targets if isinstance(t, _ast.Name)}
        cmps = [x for x in cmps if any(isinstance(y, _ast.Name) and y.id in arrs
                                       for y in _ast.walk(x))]
        ok = not loops and not cmps
        n += 1
        bad = loops[0] if loops else (cmps[0] if cmps else None)
        ctx.ob(rid, '%s:raw-proposals' % q, ok, f.where(bad) if bad is not None else f.where(),
               'the member returns its raw draws; rejection and its counters live in the union'
               if ok else
               '`%s` makes the member redraw / filter its own proposals against the cube: it is '
               'then uniform on the part of the ellipsoid inside the cube, while the union still '
               'weights it by the full ellipsoid volume and never sees a rejection - members cut '
               'by a cube face are over-represented and the reported volume includes the part '
               'outside the cube' % unparse(bad)[:60].replace('\n', ' '))
    ctx.require(n >= 3, 'V5: member samplers not found')
    return n


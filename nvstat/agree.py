"""E7 AGREE / E8 DEPEND rules: sibling implementations agree (DESIGN.md E7/E8)."""
import ast

from .core import AnalysisError
from .cfg import cfg_of
from .exprs import dotted, unparse, walk_no_nested, root_attr, ekey, names_loaded

# ---------------------------------------------------------------------------
# A1  the three classifiers of a prior entry agree on every storable category
# ---------------------------------------------------------------------------

# what add_parameter can store in self.dists, as truth values of the atoms used by
# the classifiers: (has 'isf', is numbers.Number, is str, is tuple)
CATEGORIES = {
    'free':  {'isf': True,  'number': False, 'str': False, 'tuple': False},
    'fixed': {'isf': False, 'number': True,  'str': False, 'tuple': False},
    'link':  {'isf': False, 'number': False, 'str': True,  'tuple': False},
}


def _type_atoms(t):
    """Type expression of an isinstance call -> set of atom names (or None)."""
    if isinstance(t, ast.Tuple):
        out = set()
        for e in t.elts:
            a = _type_atoms(e)
            if a is None:
                return None
            out |= a
        return out
    d = dotted(t)
    if d in ('numbers.Number', 'Number', 'numbers.Real', 'numbers.Integral', 'int', 'float'):
        return {'number'}
    if d == 'str':
        return {'str'}
    if d == 'tuple':
        return {'tuple'}
    return None


def eval_pred(e, var, cat):
    """Three-valued evaluation of a classifier predicate about `var` for a category."""
    if isinstance(e, ast.UnaryOp) and isinstance(e.op, ast.Not):
        v = eval_pred(e.operand, var, cat)
        return None if v is None else (not v)
    if isinstance(e, ast.BoolOp):
        vals = [eval_pred(v, var, cat) for v in e.values]
        if isinstance(e.op, ast.And):
            if any(v is False for v in vals):
                return False
            return None if any(v is None for v in vals) else True
        if any(v is True for v in vals):
            return True
        return None if any(v is None for v in vals) else False
    if isinstance(e, ast.Call) and isinstance(e.func, ast.Name):
        if e.func.id == 'hasattr' and len(e.args) == 2 and isinstance(e.args[0], ast.Name) and \
                e.args[0].id == var and isinstance(e.args[1], ast.Constant):
            if e.args[1].value in ('isf', 'ppf', 'cdf', 'pdf', 'rvs'):
                return CATEGORIES[cat]['isf']
            return None
        if e.func.id == 'isinstance' and len(e.args) == 2 and \
                isinstance(e.args[0], ast.Name) and e.args[0].id == var:
            atoms = _type_atoms(e.args[1])
            if atoms is None:
                return None
            return any(CATEGORIES[cat][a] for a in atoms)
        if e.func.id == 'callable':
            return None
    if isinstance(e, ast.Constant):
        return bool(e.value)
    return None


def _loop_over(func, attr_names):
    """The For loops / generator expressions of func iterating over self.<attr>
    (or zip of several).  -> list of (node, target names tuple, kind, iter_ok)."""
    selfn = func.self_name
    out = []
    for n in walk_no_nested(func.node):
        target = it = None
        if isinstance(n, ast.For):
            target, it = n.target, n.iter
        elif isinstance(n, ast.GeneratorExp) or isinstance(n, ast.ListComp):
            if len(n.generators) != 1:
                continue
            target, it = n.generators[0].target, n.generators[0].iter
        if it is None:
            continue
        attrs = None
        if isinstance(it, ast.Call) and isinstance(it.func, ast.Name) and it.func.id == 'zip':
            attrs = []
            for a in it.args:
                ra = root_attr(a, selfn)
                attrs.append(ra[0] if ra and not ra[1] else None)
        else:
            ra = root_attr(it, selfn)
            if ra and not ra[1]:
                attrs = [ra[0]]
        if attrs and tuple(attrs) == tuple(attr_names):
            names = [t.id for t in (target.elts if isinstance(target, ast.Tuple) else [target])
                     if isinstance(t, ast.Name)]
            out.append((n, names))
    out.sort(key=lambda x: (x[0].lineno, x[0].col_offset))
    return out


def _is_counter_inc(st, var):
    if isinstance(st, ast.AugAssign) and isinstance(st.target, ast.Name) and \
            st.target.id == var and isinstance(st.op, ast.Add) and \
            isinstance(st.value, ast.Constant) and st.value.value == 1:
        return True
    if isinstance(st, ast.Assign) and len(st.targets) == 1 and \
            isinstance(st.targets[0], ast.Name) and st.targets[0].id == var and \
            isinstance(st.value, ast.BinOp) and isinstance(st.value.op, ast.Add):
        l, r = st.value.left, st.value.right
        if isinstance(l, ast.Name) and l.id == var and isinstance(r, ast.Constant) and \
                r.value == 1:
            return True
        if isinstance(r, ast.Name) and r.id == var and isinstance(l, ast.Constant) and \
                l.value == 1:
            return True
    return False


def _branches(if_node):
    """Flatten an if/elif/else chain -> [(list of (test, polarity) path conditions, body)]."""
    out = []
    conds = []
    node = if_node
    while True:
        out.append((conds + [(node.test, True)], node.body))
        conds = conds + [(node.test, False)]
        if len(node.orelse) == 1 and isinstance(node.orelse[0], ast.If):
            node = node.orelse[0]
            continue
        if node.orelse:
            out.append((conds, node.orelse))
        break
    return out


def _cats_of(conds, var):
    """Categories that can satisfy all path conditions (None values keep a category)."""
    keep = []
    exact = True
    for cat in CATEGORIES:
        ok = True
        for test, pol in conds:
            v = eval_pred(test, var, cat)
            if v is None:
                exact = False
                continue
            if v != pol:
                ok = False
        if ok:
            keep.append(cat)
    return keep, exact


def rule_A1(ctx, rid='A1'):
    ctx.rule(rid, 'classifier agreement: dimensionality, unit_to_physical and '
             'physical_to_dictionary classify every storable entry (free / fixed / link) the '
             'same way, consume free parameters with one forward counter, and every category '
             'receives its dictionary entry')
    prog = ctx.program
    # --- dimensionality: counts exactly the free entries
    f = prog.func('Prior.dimensionality')
    loops = _loop_over(f, ['dists'])
    ctx.require(len(loops) == 1, 'Prior.dimensionality: expected one pass over self.dists, '
                'found %d' % len(loops))
    node, names = loops[0]
    pred = None
    if isinstance(node, (ast.GeneratorExp, ast.ListComp)):
        pred = node.elt
        if node.generators[0].ifs:
            pred = ast.BoolOp(op=ast.And(), values=[pred] + node.generators[0].ifs) \
                if not (isinstance(pred, ast.Constant) and pred.value == 1) else \
                (node.generators[0].ifs[0] if len(node.generators[0].ifs) == 1 else
                 ast.BoolOp(op=ast.And(), values=node.generators[0].ifs))
    else:
        ifs = [s for s in node.body if isinstance(s, ast.If)]
        ctx.require(len(ifs) == 1, 'Prior.dimensionality: unrecognised loop body')
        pred = ifs[0].test
    for cat in CATEGORIES:
        v = eval_pred(pred, names[0], cat)
        ctx.require(v is not None, 'Prior.dimensionality: predicate `%s` cannot be evaluated '
                    'for category %s' % (unparse(pred), cat))
        ctx.ob(rid, 'Prior.dimensionality:counts(%s)' % cat, v == (cat == 'free'), f.where(node),
               'dimensionality %s a %s entry' % ('counts' if v else 'does not count', cat))

    # --- the two transforms
    for qn, attrs in (('Prior.unit_to_physical', ['dists']),
                      ('Prior.physical_to_dictionary', ['keys', 'dists'])):
        f = prog.func(qn)
        cfg = cfg_of(f)
        loops = [l for l in _loop_over(f, attrs) if isinstance(l[0], ast.For)]
        ctx.require(loops, '%s: no forward loop over self.%s found' % (qn, '/'.join(attrs)))
        first, names = loops[0]
        dvar = names[-1]
        handled = {}
        counter_incs = 0
        for st in first.body:
            if not isinstance(st, ast.If):
                continue
            for conds, body in _branches(st):
                cats, exact = _cats_of(conds, dvar)
                stores = [s for s in body if isinstance(s, ast.Assign) and
                          isinstance(s.targets[0], ast.Subscript)]
                incs = [s for s in body for v in _counter_vars(body) if _is_counter_inc(s, v)]
                for cat in cats:
                    handled.setdefault(cat, []).append((bool(stores), bool(incs), st))
                counter_incs += len(incs)
        # free entries: stored and counter advanced; others: counter not advanced
        for cat in CATEGORIES:
            hs = handled.get(cat, [])
            if cat == 'free':
                ok = len(hs) == 1 and hs[0][0] and hs[0][1]
                ctx.ob(rid, '%s:free-consumes-one-coordinate' % qn, ok, f.where(first),
                       'a free entry is transformed and advances the coordinate counter exactly '
                       'once' if ok else 'a free entry is not (uniquely) transformed with a '
                       'counter increment: %r' % [(a, b) for a, b, _ in hs])
            else:
                ok = not any(h[1] for h in hs)
                ctx.ob(rid, '%s:%s-consumes-no-coordinate' % (qn, cat), ok, f.where(first),
                       'a %s entry %s the coordinate counter' % (
                           cat, 'does not advance' if ok else 'advances'))
        # the index used on both sides of the free store is the one counter
        for st in ast.walk(first):
            if isinstance(st, ast.Assign) and isinstance(st.targets[0], ast.Subscript):
                cvars = _counter_vars(first.body)
                used_t = names_loaded(st.targets[0].slice) & cvars
                used_v = set()
                for sub in ast.walk(st.value):
                    if isinstance(sub, ast.Subscript):
                        used_v |= names_loaded(sub.slice) & cvars
                if used_t or used_v:
                    if qn.endswith('unit_to_physical'):
                        ok = used_t == used_v and len(used_t) == 1
                        ctx.ob(rid, '%s:same-coordinate-in-and-out' % qn, ok, f.where(st),
                               'free entry reads and writes the same coordinate index'
                               if ok else 'free entry reads coordinate %s but writes %s'
                               % (sorted(used_v), sorted(used_t)))
        # forward iteration in declaration order
        it = first.iter
        ok = not any(isinstance(s, ast.Call) and isinstance(s.func, ast.Name) and
                     s.func.id in ('reversed', 'sorted', 'set') for s in ast.walk(it))
        ctx.ob(rid, '%s:declaration-order' % qn, ok, f.where(first),
               'entries are visited in declaration order' if ok else
               'entries are not visited in declaration order: %s' % unparse(it))
        if qn.endswith('physical_to_dictionary'):
            # zip pairs key with its own dist
            ok = isinstance(first.target, ast.Tuple) and len(names) == 2
            ctx.ob(rid, '%s:key-dist-pairing' % qn, ok, f.where(first),
                   'keys and dists are zipped positionally')
            # link entries: a later loop copies from the target entry
            link_ok = False
            for lp, nm in loops[1:]:
                for st in lp.body:
                    if isinstance(st, ast.If):
                        cats, _ = _cats_of([(st.test, True)], nm[-1])
                        if cats == ['link'] and cfg.dominates(cfg.node_of(first).id,
                                                              cfg.node_of(lp).id):
                            for s in st.body:
                                if isinstance(s, ast.Assign) and \
                                        isinstance(s.targets[0], ast.Subscript) and \
                                        isinstance(s.value, ast.Subscript) and \
                                        names_loaded(s.targets[0].slice) == {nm[0]} and \
                                        names_loaded(s.value.slice) == {nm[-1]} and \
                                        dotted(s.targets[0].value) == dotted(s.value.value):
                                    link_ok = True
            h_link_first = any(h[0] for h in handled.get('link', []))
            ctx.ob(rid, '%s:link-copies-target' % qn, link_ok or h_link_first, f.where(first),
                   'a link entry receives the value of its target after all free/fixed entries '
                   'are filled' if (link_ok or h_link_first) else
                   'no pass assigns link entries from their target entry')
            ok = any(h[0] for h in handled.get('fixed', []))
            ctx.ob(rid, '%s:fixed-gets-entry' % qn, ok, f.where(first),
                   'a fixed entry receives a dictionary entry' if ok else
                   'fixed entries receive no dictionary entry')


def _counter_vars(stmts):
    out = set()
    for st in stmts:
        for sub in ast.walk(st):
            if isinstance(sub, (ast.Assign, ast.AugAssign)):
                t = sub.targets[0] if isinstance(sub, ast.Assign) else sub.target
                if isinstance(t, ast.Name) and _is_counter_inc(sub, t.id):
                    out.add(t.id)
    return out

"""E7 AGREE / E8 DEPEND rules: sibling implementations agree (DESIGN.md E7/E8)."""
import ast

from .core import AnalysisError
from .cfg import cfg_of
from .exprs import dotted, unparse, walk_no_nested, root_attr, ekey, names_loaded, aug_nodes

# ---------------------------------------------------------------------------
# A1  the three classifiers of a prior entry agree on every storable category
# ---------------------------------------------------------------------------

# what add_parameter can store in self.dists, as truth values of the atoms used by
# the classifiers: (has 'isf', is numbers.Number, is str, is tuple)
CATEGORIES = {
    'free':  {'isf': True,  'number': False, 'str': False, 'tuple': False},
    'fixed': {'isf': False, 'number': True,  'str': False, 'tuple': False},
    'link':  {'isf': False, 'number': False, 'str': True,  'tuple': False},
}


def _type_atoms(t):
    """Type expression of an isinstance call -> set of atom names (or None)."""
    if isinstance(t, ast.Tuple):
        out = set()
        for e in t.elts:
            a = _type_atoms(e)
            if a is None:
                return None
            out |= a
        return out
    d = dotted(t)
    if d in ('numbers.Number', 'Number', 'numbers.Real', 'numbers.Integral', 'int', 'float'):
        return {'number'}
    if d == 'str':
        return {'str'}
    if d == 'tuple':
        return {'tuple'}
    return None


def eval_pred(e, var, cat):
    """Three-valued evaluation of a classifier predicate about `var` for a category."""
    if isinstance(e, ast.UnaryOp) and isinstance(e.op, ast.Not):
        v = eval_pred(e.operand, var, cat)
        return None if v is None else (not v)
    if isinstance(e, ast.BoolOp):
        vals = [eval_pred(v, var, cat) for v in e.values]
        if isinstance(e.op, ast.And):
            if any(v is False for v in vals):
                return False
            return None if any(v is None for v in vals) else True
        if any(v is True for v in vals):
            return True
        return None if any(v is None for v in vals) else False
    if isinstance(e, ast.Call) and isinstance(e.func, ast.Name):
        if e.func.id == 'hasattr' and len(e.args) == 2 and isinstance(e.args[0], ast.Name) and \
                e.args[0].id == var and isinstance(e.args[1], ast.Constant):
            if e.args[1].value == 'isf':
                return CATEGORIES[cat]['isf']
            if e.args[1].value in ('ppf', 'cdf', 'pdf', 'rvs', 'sf', 'logpdf'):
                # a declared distribution is only required to have `isf` (add_parameter's
                # contract): other methods may or may not exist on a free entry; numbers and
                # strings have none of them
                return None if CATEGORIES[cat]['isf'] else False
            return None
        if e.func.id == 'isinstance' and len(e.args) == 2 and \
                isinstance(e.args[0], ast.Name) and e.args[0].id == var:
            atoms = _type_atoms(e.args[1])
            if atoms is None:
                return None
            return any(CATEGORIES[cat][a] for a in atoms)
        if e.func.id == 'callable':
            return None
    if isinstance(e, ast.Constant):
        return bool(e.value)
    return None


def _loop_over(func, attr_names):
    """The For loops / generator expressions of func iterating over self.<attr>
    (or zip of several).  -> list of (node, target names tuple, kind, iter_ok)."""
    selfn = func.self_name
    out = []
    for n in walk_no_nested(func.node):
        target = it = None
        if isinstance(n, ast.For):
            target, it = n.target, n.iter
        elif isinstance(n, ast.GeneratorExp) or isinstance(n, ast.ListComp):
            if len(n.generators) != 1:
                continue
            target, it = n.generators[0].target, n.generators[0].iter
        if it is None:
            continue
        while isinstance(it, ast.Call) and isinstance(it.func, ast.Name) and \
                it.func.id in ('reversed', 'sorted', 'list', 'tuple') and it.args:
            it = it.args[0]      # the order check looks at the original iterator
        attrs = None
        if isinstance(it, ast.Call) and isinstance(it.func, ast.Name) and it.func.id == 'zip':
            attrs = []
            for a in it.args:
                ra = root_attr(a, selfn)
                attrs.append(ra[0] if ra and not ra[1] else None)
        else:
            ra = root_attr(it, selfn)
            if ra and not ra[1]:
                attrs = [ra[0]]
        if attrs and tuple(attrs) == tuple(attr_names):
            names = [t.id for t in (target.elts if isinstance(target, ast.Tuple) else [target])
                     if isinstance(t, ast.Name)]
            out.append((n, names))
    out.sort(key=lambda x: (x[0].lineno, x[0].col_offset))
    return out


def _is_counter_inc(st, var):
    if isinstance(st, ast.AugAssign) and isinstance(st.target, ast.Name) and \
            st.target.id == var and isinstance(st.op, ast.Add) and \
            isinstance(st.value, ast.Constant) and st.value.value == 1:
        return True
    if isinstance(st, ast.Assign) and len(st.targets) == 1 and \
            isinstance(st.targets[0], ast.Name) and st.targets[0].id == var and \
            isinstance(st.value, ast.BinOp) and isinstance(st.value.op, ast.Add):
        l, r = st.value.left, st.value.right
        if isinstance(l, ast.Name) and l.id == var and isinstance(r, ast.Constant) and \
                r.value == 1:
            return True
        if isinstance(r, ast.Name) and r.id == var and isinstance(l, ast.Constant) and \
                l.value == 1:
            return True
    return False


def _branches(if_node):
    """Flatten an if/elif/else chain -> [(list of (test, polarity) path conditions, body)]."""
    out = []
    conds = []
    node = if_node
    while True:
        out.append((conds + [(node.test, True)], node.body))
        conds = conds + [(node.test, False)]
        if len(node.orelse) == 1 and isinstance(node.orelse[0], ast.If):
            node = node.orelse[0]
            continue
        if node.orelse:
            out.append((conds, node.orelse))
        break
    return out


def _cats_of(conds, var):
    """Categories that can satisfy all path conditions (None values keep a category)."""
    keep = []
    exact = True
    for cat in CATEGORIES:
        ok = True
        for test, pol in conds:
            v = eval_pred(test, var, cat)
            if v is None:
                exact = False
                continue
            if v != pol:
                ok = False
        if ok:
            keep.append(cat)
    return keep, exact


def rule_A1(ctx, rid='A1'):
    ctx.rule(rid, 'classifier agreement: dimensionality, unit_to_physical and '
             'physical_to_dictionary classify every storable entry (free / fixed / link) the '
             'same way, consume free parameters with one forward counter, and every category '
             'receives its dictionary entry')
    prog = ctx.program
    # --- dimensionality: counts exactly the free entries
    f = prog.func('Prior.dimensionality')
    loops = _loop_over(f, ['dists'])
    ctx.require(len(loops) == 1, 'Prior.dimensionality: expected one pass over self.dists, '
                'found %d' % len(loops))
    node, names = loops[0]
    pred = None
    if isinstance(node, (ast.GeneratorExp, ast.ListComp)):
        pred = node.elt
        if node.generators[0].ifs:
            pred = ast.BoolOp(op=ast.And(), values=[pred] + node.generators[0].ifs) \
                if not (isinstance(pred, ast.Constant) and pred.value == 1) else \
                (node.generators[0].ifs[0] if len(node.generators[0].ifs) == 1 else
                 ast.BoolOp(op=ast.And(), values=node.generators[0].ifs))
    else:
        ifs = [s for s in node.body if isinstance(s, ast.If)]
        ctx.require(len(ifs) == 1, 'Prior.dimensionality: unrecognised loop body')
        pred = ifs[0].test
    for cat in CATEGORIES:
        v = eval_pred(pred, names[0], cat)
        ctx.require(v is not None, 'Prior.dimensionality: predicate `%s` cannot be evaluated '
                    'for category %s' % (unparse(pred), cat))
        ctx.ob(rid, 'Prior.dimensionality:counts(%s)' % cat, v == (cat == 'free'), f.where(node),
               'dimensionality %s a %s entry' % ('counts' if v else 'does not count', cat))

    # --- the two transforms
    for qn, attrs in (('Prior.unit_to_physical', ['dists']),
                      ('Prior.physical_to_dictionary', ['keys', 'dists'])):
        f = prog.func(qn)
        cfg = cfg_of(f)
        loops = [l for l in _loop_over(f, attrs) if isinstance(l[0], ast.For)]
        ctx.require(loops, '%s: no forward loop over self.%s found' % (qn, '/'.join(attrs)))
        first, names = loops[0]
        dvar = names[-1]
        handled = {}
        counter_incs = 0
        for st in first.body:
            if not isinstance(st, ast.If):
                continue
            for conds, body in _branches(st):
                cats, exact = _cats_of(conds, dvar)
                stores = [s for s in body if isinstance(s, ast.Assign) and
                          isinstance(s.targets[0], ast.Subscript)]
                incs = [s for s in body for v in _counter_vars(body) if _is_counter_inc(s, v)]
                for cat in cats:
                    handled.setdefault(cat, []).append((bool(stores), bool(incs), st))
                counter_incs += len(incs)
                # the branch that consumes a coordinate must be taken by EVERY free entry: its
                # condition may only rely on what a declared distribution is required to have
                if incs and 'free' in cats:
                    und = [t for t, pol in conds if eval_pred(t, dvar, 'free') is None]
                    ctx.ob(rid, '%s:free-branch-decided' % qn, not und, f.where(st),
                           'every free entry takes the branch that consumes its coordinate'
                           if not und else
                           'whether a free entry takes the branch that consumes its coordinate '
                           'depends on `%s`, which a declared distribution (only required to '
                           'have `isf`) may or may not satisfy: such an entry is counted by '
                           'dimensionality() but skipped here, shifting every later parameter'
                           % unparse(und[0])[:50])
        # free entries: stored and counter advanced; others: counter not advanced
        for cat in CATEGORIES:
            hs = handled.get(cat, [])
            if cat == 'free':
                ok = len(hs) == 1 and hs[0][0] and hs[0][1]
                ctx.ob(rid, '%s:free-consumes-one-coordinate' % qn, ok, f.where(first),
                       'a free entry is transformed and advances the coordinate counter exactly '
                       'once' if ok else 'a free entry is not (uniquely) transformed with a '
                       'counter increment: %r' % [(a, b) for a, b, _ in hs])
            else:
                ok = not any(h[1] for h in hs)
                ctx.ob(rid, '%s:%s-consumes-no-coordinate' % (qn, cat), ok, f.where(first),
                       'a %s entry %s the coordinate counter' % (
                           cat, 'does not advance' if ok else 'advances'))
        # the index used on both sides of the free store is the one counter
        for st in ast.walk(first):
            if isinstance(st, ast.Assign) and isinstance(st.targets[0], ast.Subscript):
                cvars = _counter_vars(first.body)
                used_t = names_loaded(st.targets[0].slice) & cvars
                used_v = set()
                for sub in ast.walk(st.value):
                    if isinstance(sub, ast.Subscript):
                        used_v |= names_loaded(sub.slice) & cvars
                if used_t or used_v:
                    if qn.endswith('unit_to_physical'):
                        ok = used_t == used_v and len(used_t) == 1
                        ctx.ob(rid, '%s:same-coordinate-in-and-out' % qn, ok, f.where(st),
                               'free entry reads and writes the same coordinate index'
                               if ok else 'free entry reads coordinate %s but writes %s'
                               % (sorted(used_v), sorted(used_t)))
        # forward iteration in declaration order
        it = first.iter
        ok = not any(isinstance(s, ast.Call) and isinstance(s.func, ast.Name) and
                     s.func.id in ('reversed', 'sorted', 'set') for s in ast.walk(it))
        ctx.ob(rid, '%s:declaration-order' % qn, ok, f.where(first),
               'entries are visited in declaration order' if ok else
               'entries are not visited in declaration order: %s' % unparse(it))
        if qn.endswith('physical_to_dictionary'):
            # zip pairs key with its own dist
            ok = isinstance(first.target, ast.Tuple) and len(names) == 2
            ctx.ob(rid, '%s:key-dist-pairing' % qn, ok, f.where(first),
                   'keys and dists are zipped positionally')
            # link entries: a later loop copies from the target entry
            link_ok = False
            for lp, nm in loops[1:]:
                for st in lp.body:
                    if isinstance(st, ast.If):
                        cats, _ = _cats_of([(st.test, True)], nm[-1])
                        if cats == ['link'] and cfg.dominates(cfg.node_of(first).id,
                                                              cfg.node_of(lp).id):
                            for s in st.body:
                                if isinstance(s, ast.Assign) and \
                                        isinstance(s.targets[0], ast.Subscript) and \
                                        isinstance(s.value, ast.Subscript) and \
                                        names_loaded(s.targets[0].slice) == {nm[0]} and \
                                        names_loaded(s.value.slice) == {nm[-1]} and \
                                        dotted(s.targets[0].value) == dotted(s.value.value):
                                    link_ok = True
            h_link_first = any(h[0] for h in handled.get('link', []))
            ctx.ob(rid, '%s:link-copies-target' % qn, link_ok or h_link_first, f.where(first),
                   'a link entry receives the value of its target after all free/fixed entries '
                   'are filled' if (link_ok or h_link_first) else
                   'no pass assigns link entries from their target entry')
            ok = any(h[0] for h in handled.get('fixed', []))
            ctx.ob(rid, '%s:fixed-gets-entry' % qn, ok, f.where(first),
                   'a fixed entry receives a dictionary entry' if ok else
                   'fixed entries receive no dictionary entry')


def _counter_vars(stmts):
    out = set()
    for st in stmts:
        for sub in ast.walk(st):
            if isinstance(sub, (ast.Assign, ast.AugAssign)):
                t = sub.targets[0] if isinstance(sub, ast.Assign) else sub.target
                if isinstance(t, ast.Name) and _is_counter_inc(sub, t.id):
                    out.add(t.id)
    return out


# ---------------------------------------------------------------------------
# A2 / A6 exploration boundary
# ---------------------------------------------------------------------------

def _boundary_tests(func):
    """Test nodes of func that decide whether exploration samples are discarded, with the
    label of the discarding branch and the atoms that hold on it.
    -> cfg, [(node, discard label, {atom texts})]"""
    from .cfg import edge_facts
    cfg = cfg_of(func)
    out = []
    for t in cfg.nodes:
        if t.kind == 'test' and '_discard_exploration' in unparse(t.expr):
            for lab in (True, False):
                facts = edge_facts(t.expr, lab)
                if facts and all(tr is True for _, _, tr in facts) and any(
                        '_discard_exploration' in tx for _, tx, _ in facts):
                    out.append((t, lab, {tx for _, tx, _ in facts}))
    return cfg, out


def _conj_set(e):
    if isinstance(e, ast.BoolOp) and isinstance(e.op, ast.And):
        s = set()
        for v in e.values:
            s |= _conj_set(v)
        return s
    return {unparse(e)}


def rule_A2_view(ctx, rid='A2'):
    """View-consistent pairing: `np.repeat(<per-shell>, self.shell_n)` has one entry per sample
    of the *current view* (shell_n counts the rows after the exploration boundary when the
    exploration is discarded); `np.concatenate(self.log_l)` has one entry per *stored* row.  A
    method that pairs the two is only right where the view is the full set: under a
    `not self.explored` guard, or with the rows taken through the boundary slices as in
    posterior()."""
    prog = ctx.program
    S = prog.cls('Sampler')
    rows = {'log_l', 'points', 'blobs'}
    n = 0
    for name, f in sorted(S.methods.items()):
        cfg = cfg_of(f)
        sn = f.self_name
        reps = [c for c in walk_no_nested(f.node) if isinstance(c, ast.Call) and
                dotted(c.func) == 'np.repeat' and len(c.args) >= 2 and
                dotted(c.args[1]) == '%s.shell_n' % sn and cfg.has(c)]
        if not reps:
            continue
        cats = [c for c in walk_no_nested(f.node) if isinstance(c, ast.Call) and
                dotted(c.func) in ('np.concatenate', 'np.hstack', 'np.vstack') and c.args and
                isinstance(c.args[0], ast.Attribute) and isinstance(c.args[0].value, ast.Name)
                and c.args[0].value.id == sn and c.args[0].attr in rows and cfg.has(c)]
        for c in cats:
            nid = cfg.node_of(c).id
            ok = cfg.has_fact(nid, '%s.explored' % sn, False)
            n += 1
            ctx.ob(rid, '%s:rows-match-view-counts(%s)' % (f.qualname, c.args[0].attr), ok,
                   f.where(c),
                   'all stored rows are paired with the view counts only while the exploration '
                   'is not finished (the view is the full set)' if ok else
                   '`%s` takes every stored row, `np.repeat(.., %s.shell_n)` one entry per row '
                   'of the current view: with the exploration discarded the two have different '
                   'lengths and `%s` pairs values of different samples or raises IndexError'
                   % (unparse(c)[:40], sn, name))
    return n


def rule_A2_A6(ctx, rid2='A2', rid6='A6'):
    ctx.rule(rid2, 'posterior() and update_shell_info select the exploration boundary with the '
             'same predicate over the same attributes')
    ctx.rule(rid6, 'exploration-boundary pair: the row boundary (shell_end_exp) and the proposal '
             'boundary (shell_n_sample_exp) are assigned together and applied together')
    prog = ctx.program
    rule_A2_view(ctx, rid2)
    post = prog.func('Sampler.posterior')
    usi = prog.func('Sampler.update_shell_info')
    cp, tp = _boundary_tests(post)
    cu, tu = _boundary_tests(usi)
    if not tp:
        # the view taken by counting from the END of each shell: p[-k:] with k = shell_n
        neg = [x for x in ast.walk(post.node) if isinstance(x, ast.Subscript) and
               isinstance(x.slice, ast.Slice) and x.slice.upper is None and
               isinstance(x.slice.lower, ast.UnaryOp) and isinstance(x.slice.lower.op, ast.USub)]
        if neg:
            ctx.ob(rid2, 'boundary-rows(posterior)', False, post.where(neg[0]),
                   'posterior() takes the rows in view as `%s`, the last k rows of each shell: '
                   'for a shell with NO row in view (k = 0, e.g. right after the exploration '
                   'was discarded) `x[-0:]` is the WHOLE shell - every exploration sample comes '
                   'back with the weight of a shell that holds none; slice from the exploration '
                   'boundary (`x[shell_end_exp[i]:]`) as update_shell_info does'
                   % unparse(neg[0])[:40])
            return
    ctx.require(len(tp) == 1 and len(tu) == 1, 'exploration-boundary tests not found '
                '(posterior %d, update_shell_info %d)' % (len(tp), len(tu)))
    sp, su = tp[0][2], tu[0][2]
    ctx.ob(rid2, 'boundary-predicate', sp == su, post.where(tp[0][0].ast),
           'both use the predicate %s' % sorted(sp) if sp == su else
           'posterior() discards under %s but the statistics under %s: weights and volumes '
           'describe different sample sets' % (sorted(sp), sorted(su)))
    want = {'self._discard_exploration', 'self.explored'}
    ctx.ob(rid2, 'boundary-predicate-content', sp == want, post.where(tp[0][0].ast),
           'the predicate is `_discard_exploration and explored`' if sp == want else
           'the predicate is %s' % sorted(sp))

    def branch_uses(cfg, t, label, func):
        nodes = set()
        for s, lab in t.succ:
            if lab is label:
                # nodes control dependent on this edge
                for n in cfg.nodes:
                    if (t.id, label) in cfg.control_deps(n.id):
                        nodes.add(n.id)
        attrs = set()
        for nid in nodes:
            a = cfg.nodes[nid].ast
            for sub in ast.walk(a) if cfg.nodes[nid].kind == 'stmt' else []:
                if isinstance(sub, ast.Attribute) and isinstance(sub.value, ast.Name) and \
                        sub.value.id == func.self_name:
                    attrs.add(sub.attr)
        return attrs
    ap = branch_uses(cp, tp[0][0], tp[0][1], post)
    au = branch_uses(cu, tu[0][0], tu[0][1], usi)
    ctx.ob(rid2, 'boundary-rows(posterior)', 'shell_end_exp' in ap, post.where(tp[0][0].ast),
           'posterior() starts each shell at shell_end_exp when discarding')
    ctx.ob(rid6, 'Sampler.update_shell_info:applied-together', {
        'shell_end_exp', 'shell_n_sample_exp'} <= au, usi.where(tu[0][0].ast),
           'the discarding branch slices rows by shell_end_exp and subtracts shell_n_sample_exp'
           if {'shell_end_exp', 'shell_n_sample_exp'} <= au else
           'the discarding branch uses %s only: rows and proposal counts refer to different '
           'phases' % sorted(au & {'shell_end_exp', 'shell_n_sample_exp'}))
    ape = branch_uses(cp, tp[0][0], not tp[0][1], post) | \
        branch_uses(cu, tu[0][0], not tu[0][1], usi)
    ctx.ob(rid6, 'boundary-not-applied-when-keeping', not (ape & {
        'shell_end_exp', 'shell_n_sample_exp'}), usi.where(tu[0][0].ast),
           'the keeping branch does not use the exploration boundaries')
    # the slice in update_shell_info uses the start selected above, for this shell
    run = prog.func('Sampler.run')
    cr = cfg_of(run)
    asg = {}
    for n in cr.nodes:
        if n.kind == 'stmt' and isinstance(n.ast, ast.Assign):
            d = dotted(n.ast.targets[0])
            if d in ('self.shell_end_exp', 'self.shell_n_sample_exp'):
                asg.setdefault(d, []).append(n)
    ok = len(asg) == 2 and all(len(v) == 1 for v in asg.values())
    if ok:
        a, b = asg['self.shell_end_exp'][0], asg['self.shell_n_sample_exp'][0]
        ok = cr.guards(a.id) == cr.guards(b.id)
        # row boundary from the stored arrays, proposal boundary from the proposal counts
        ok = ok and 'self.points' in unparse(a.ast.value) or 'self.log_l' in unparse(a.ast.value)
        ok = ok and 'self.shell_n_sample' in unparse(b.ast.value)
    ctx.ob(rid6, 'Sampler.run:assigned-together', ok, run.where(),
           'both boundaries are recorded in the same block at the end of exploration: rows from '
           'the stored arrays, proposals from shell_n_sample' if ok else
           'the two exploration boundaries are not recorded together from the matching '
           'quantities')


# ---------------------------------------------------------------------------
# A3 pool merge
# ---------------------------------------------------------------------------

def rule_A3(ctx, rid='A3'):
    ctx.rule(rid, 'pool merge: in NautilusBound.sample the pool branch accumulates exactly the '
             'counters that the serial branch advances (transitively), each from the same '
             'attribute path of the worker result, plus the proposal cache')
    from .resolve import resolver
    prog = ctx.program
    res = resolver(prog)
    f = prog.func('NautilusBound.sample')
    cfg = cfg_of(f)
    # serial counters: aug-assigned numeric attributes reachable from the serial loop
    serial = set()
    for c, a, k in res.direct(f).writes:
        if k == 'aug' and c == 'NautilusBound':
            serial.add(('self', a))
    # callee on the outer bound
    for node, callees, status in res.direct(f).calls:
        for cal in callees:
            if cal.qualname == 'Union.sample':
                for c, a, k in res.direct(cal).writes:
                    if k == 'aug' and c == 'Union':
                        serial.add(('self.outer_bound', a))
    # pool branch: statements inside `for bound in bounds` over the map result
    merged = set()
    crossed = []
    # workers may return the object itself or a tuple of its fields: map tuple positions
    # of the loop target to the attribute paths the worker returns
    worker_returns = []
    for c in walk_no_nested(f.node):
        if isinstance(c, ast.Call):
            for a in c.args:
                if isinstance(a, ast.Attribute) and isinstance(a.value, ast.Name) and \
                        a.value.id == f.self_name and f.cls is not None and \
                        a.attr in f.cls.methods:
                    wf = f.cls.methods[a.attr]
                    for r in walk_no_nested(wf.node):
                        if isinstance(r, ast.Return) and isinstance(r.value, ast.Tuple):
                            worker_returns.append([dotted(e) for e in r.value.elts])
    for lp in walk_no_nested(f.node):
        if not isinstance(lp, ast.For):
            continue
        alias = {}
        if isinstance(lp.target, ast.Name):
            w = lp.target.id
        elif isinstance(lp.target, ast.Tuple) and all(isinstance(e, ast.Name)
                                                       for e in lp.target.elts):
            w = '<worker>'
            for wr in worker_returns:
                if len(wr) == len(lp.target.elts):
                    for nme, path in zip(lp.target.elts, wr):
                        if path and path.startswith('self.'):
                            alias[nme.id] = w + path[len('self'):]
        else:
            continue
        from .exprs import as_aug
        for st0 in lp.body:
            r_ = as_aug(st0)
            if r_ is not None and isinstance(r_[1], ast.Add):
                st = ast.AugAssign(target=r_[0], op=r_[1], value=r_[2])
                tp = dotted(st.target)
                vp = dotted(st.value)
                if vp in alias:
                    vp = alias[vp]
                if tp and vp and tp.startswith('self.') and vp.startswith(w + '.'):
                    path, attr = tp.rsplit('.', 1)
                    merged.add((path, attr))
                    if vp[len(w):] != tp[len('self'):]:
                        crossed.append((tp, vp))
    ctx.require(merged, 'NautilusBound.sample: pool merge loop not found')
    # the serial branch advances its own counters once per round with the same K; the
    # pool branch must add the workers' counters
    serial_cnt = {(p, a) for p, a in serial if a in ('n_sample', 'n_reject')}
    for p, a in sorted(serial_cnt | merged):
        ok = (p, a) in merged and (p, a) in serial_cnt
        ctx.ob(rid, 'NautilusBound.sample:merge(%s.%s)' % (p, a), ok, f.where(),
               'counter %s.%s is advanced serially and merged from the workers' % (p, a) if ok
               else ('counter %s.%s is advanced by the serial branch but not merged from the '
                     'pool workers: volumes differ between serial and pooled sampling' % (p, a)
                     if (p, a) in serial_cnt else
                     'counter %s.%s is merged from the workers but never advanced serially'
                     % (p, a)))
    ctx.ob(rid, 'NautilusBound.sample:merge-paths', not crossed, f.where(),
           'each counter is merged from the same attribute path of the worker' if not crossed
           else 'crossed merge: %s' % crossed)
    # the cache
    okc = any(isinstance(st, ast.Assign) and dotted(st.targets[0]) == 'self.points' and
              'self.points' in unparse(st.value) and (
                  (isinstance(lp.target, ast.Name) and
                   (lp.target.id + '.points') in unparse(st.value)) or
                  (isinstance(lp.target, ast.Tuple) and any(
                      isinstance(x, ast.Name) and x.id in {e.id for e in lp.target.elts
                                                           if isinstance(e, ast.Name)}
                      for x in ast.walk(st.value))))
              for lp in walk_no_nested(f.node) if isinstance(lp, ast.For) for st in lp.body)
    ctx.ob(rid, 'NautilusBound.sample:merge(cache)', okc, f.where(),
           'worker proposals are stacked into the cache after the existing ones')


# ---------------------------------------------------------------------------
# A5 transfer pairing, Q3
# ---------------------------------------------------------------------------

def rule_A5(ctx, rid='A5'):
    ctx.rule(rid, 'transfer pairing in sample_shell: candidates and replaced proposals are '
             'selected by equality with the same shell index, both draws use the same count n = '
             'min(len, len) without replacement, consumed candidates are marked on the same '
             'path, replaced proposals are removed before anything is returned, and transfer '
             'candidates are only accepted for the newest shell')
    prog = ctx.program
    f = prog.func('Sampler.sample_shell')
    cfg = cfg_of(f)
    # guard at the top
    params = [p for p in f.params if p != f.self_name]
    idx_p, st_p = params[0], params[1]
    guard_ok = False
    for t in cfg.nodes:
        if t.kind == 'test' and st_p in names_loaded(t.expr) and idx_p in names_loaded(t.expr) \
                and _has_value(cfg, t.id, t.expr, 'len(self.bounds) - 1'):
            for s, lab in t.succ:
                if lab is True and isinstance(cfg.nodes[s].ast, ast.Raise):
                    guard_ok = True
    ctx.ob(rid, 'Sampler.sample_shell:newest-shell-only', guard_ok, f.where(),
           'transfer candidates for any shell but the newest are rejected' if guard_ok else
           'transfer candidates are accepted for shells other than the newest')
    # the inner loop over earlier shells
    loops = [lp for lp in walk_no_nested(f.node) if isinstance(lp, ast.For) and
             isinstance(lp.target, ast.Name) and isinstance(lp.iter, ast.Call) and
             dotted(lp.iter.func) == 'range' and len(lp.iter.args) == 1 and
             _has_value(cfg, cfg.node_of(lp).id, lp.iter.args[0], 'len(self.bounds) - 1')]
    ctx.require(len(loops) == 1, 'sample_shell: loop over the earlier shells not found')
    lp = loops[0]
    sv = lp.target.id
    eq = {}
    for st in lp.body:
        if isinstance(st, ast.Assign) and isinstance(st.targets[0], ast.Name):
            for sub in ast.walk(st.value):
                if isinstance(sub, ast.Compare) and len(sub.ops) == 1 and \
                        isinstance(sub.ops[0], ast.Eq) and \
                        isinstance(sub.comparators[0], ast.Name) and \
                        sub.comparators[0].id == sv and isinstance(sub.left, ast.Name):
                    eq[st.targets[0].id] = sub.left.id
    ok = len(eq) == 2 and st_p in eq.values()
    ctx.ob(rid, 'Sampler.sample_shell:same-shell-both-sides', ok, f.where(lp),
           'candidates (%s == %s) and proposals are matched on the same shell index' % (st_p, sv)
           if ok else 'candidates and replaced proposals are not both selected by equality with '
           'the loop shell (found %s)' % eq)
    # provenance of the proposals' shells: shell_association with n_max = len(bounds) - 1
    other = [v for v in eq.values() if v != st_p]
    okp = False
    if other:
        for st in walk_no_nested(f.node):
            if isinstance(st, ast.Assign) and isinstance(st.targets[0], ast.Name) and \
                    st.targets[0].id == other[0] and isinstance(st.value, ast.Call) and \
                    dotted(st.value.func) == 'self.shell_association':
                nm = [k.value for k in st.value.keywords if k.arg == 'n_max']
                if len(st.value.args) > 1:
                    nm = [st.value.args[1]]
                okp = bool(nm) and cfg.has(st) and _has_value(
                    cfg, cfg.node_of(st).id, nm[0], 'len(self.bounds) - 1')
    ctx.ob(rid, 'Sampler.sample_shell:provenance-before-newest-bound', okp, f.where(lp),
           'the provenance of fresh proposals is their shell before the newest bound existed')
    # choices
    ch = [c for c in ast.walk(lp) if isinstance(c, ast.Call) and isinstance(c.func, ast.Attribute)
          and c.func.attr == 'choice' and dotted(c.func.value) == 'self.rng']
    okc = len(ch) == 2
    sizes = set()
    for c in ch:
        size = [k.value for k in c.keywords if k.arg == 'size']
        rep = [k.value for k in c.keywords if k.arg == 'replace']
        if not (size and rep and isinstance(rep[0], ast.Constant) and rep[0].value is False):
            okc = False
        if size:
            sizes.add(unparse(size[0]))
        if not (c.args and isinstance(c.args[0], ast.Name) and c.args[0].id in eq):
            okc = False
    okc = okc and len(sizes) == 1
    nname = next(iter(sizes)) if sizes else None
    okn = False
    for st in lp.body:
        if isinstance(st, ast.Assign) and isinstance(st.targets[0], ast.Name) and \
                st.targets[0].id == nname and isinstance(st.value, ast.Call) and \
                dotted(st.value.func) == 'min' and \
                {unparse(a) for a in st.value.args} == {'len(%s)' % k for k in eq}:
            okn = True
    ctx.ob(rid, 'Sampler.sample_shell:same-count-no-replacement', okc and okn, f.where(lp),
           'both sides draw n = min(len, len) distinct elements' if okc and okn else
           'the two draws do not use one count n = min(len(candidates), len(proposals)) without '
           'replacement')
    # mark consumed candidates
    marks = [st for st in ast.walk(lp) if isinstance(st, ast.Assign) and
             isinstance(st.targets[0], ast.Subscript) and
             isinstance(st.targets[0].value, ast.Name) and st.targets[0].value.id == st_p and
             isinstance(st.value, ast.UnaryOp) or
             (isinstance(st, ast.Assign) and isinstance(st.targets[0], ast.Subscript) and
              isinstance(st.targets[0].value, ast.Name) and st.targets[0].value.id == st_p)]
    okm = False
    if ch and marks:
        cn = [cfg.node_of(c).id for c in ch if c.args[0].id != [k for k, v in eq.items()
                                                               if v != st_p][0]]
        okm = all(any(cfg.guards(cfg.node_of(m).id) == cfg.guards(x) and
                      const_like(m.value) == -1 for m in marks) for x in cn)
    ctx.ob(rid, 'Sampler.sample_shell:consumed-candidates-marked', okm, f.where(lp),
           'consumed candidates are marked (-1) on the path that draws them' if okm else
           'drawn transfer candidates are not marked as consumed: a candidate could be '
           'transferred twice')
    # replaced proposals removed before the rows are counted
    rep_names = set()
    for st in ast.walk(lp):
        if isinstance(st, ast.Assign) and isinstance(st.targets[0], ast.Subscript) and \
                isinstance(st.targets[0].value, ast.Name) and \
                isinstance(st.value, ast.Constant) and st.value.value is True:
            rep_names.add(st.targets[0].value.id)
    okr = False
    for st in walk_no_nested(f.node):
        if isinstance(st, ast.Assign) and isinstance(st.value, ast.Subscript) and \
                isinstance(st.value.slice, ast.UnaryOp) and \
                isinstance(st.value.slice.op, ast.Invert) and \
                isinstance(st.value.slice.operand, ast.Name) and \
                st.value.slice.operand.id in rep_names and cfg.has(st):
            nid = cfg.node_of(st).id
            if all(cfg.must_pass(cfg.node_of(c).id, x.id, {nid}) for c in ch
                   for x in aug_nodes(cfg) if 'len(' in unparse(x.ast.value)):
                okr = True
    ctx.ob(rid, 'Sampler.sample_shell:replaced-proposals-removed', okr, f.where(),
           'proposals replaced by transfer candidates are removed before the rows are counted '
           'and returned' if okr else
           'replaced proposals are still counted / returned: the batch would contain both the '
           'transfer candidate and the proposal it replaces')


def _has_value(cfg, nid, expr, template):
    """Does `expr` (evaluated at nid, single-definition locals inlined) contain a
    sub-expression equal to `template`?"""
    want = ekey(cfg, nid, ast.parse(template, mode='eval').body)
    import copy
    from .exprs import _Keyer
    inl = _Keyer(cfg, nid, True).visit(copy.deepcopy(expr))
    for sub in ast.walk(inl):
        if isinstance(sub, ast.expr) and ast.dump(sub, annotate_fields=False) == want:
            return True
    return False


def const_like(e):
    from .exprs import const_value
    return const_value(e)


def rule_Q3(ctx, rid='Q3'):
    ctx.rule(rid, 'the number added to shell_n_sample[shell] in add_samples is the proposal '
             'count returned by the sample_shell call on the same path (not the number of rows '
             'kept), and the index is the shell that was sampled')
    prog = ctx.program
    f = prog.func('Sampler.add_samples')
    cfg = cfg_of(f)
    augs = [n for n in aug_nodes(cfg) if
            root_attr(n.ast.target, f.self_name) and
            root_attr(n.ast.target, f.self_name)[0] == 'shell_n_sample']
    if not augs:
        ctx.ob(rid, 'Sampler.add_samples:proposal-count-source', False, f.where(),
               'add_samples never advances shell_n_sample: the proposals of a batch are not '
               'counted, so the shell volume V_b n/N uses a stale N')
        return
    ctx.require(len(augs) == 1, 'add_samples: several updates of shell_n_sample')
    a = augs[0]
    okv = isinstance(a.ast.op, ast.Add) and isinstance(a.ast.value, ast.Name)
    src_ok = False
    if okv:
        defs = cfg.defs_at(a.id, a.ast.value.id)
        src_ok = bool(defs)
        for d in defs:
            dn = cfg.nodes[d]
            if not (dn.kind == 'stmt' and isinstance(dn.ast, ast.Assign) and
                    isinstance(dn.ast.value, ast.Call) and
                    dotted(dn.ast.value.func) == 'self.sample_shell' and
                    isinstance(dn.ast.targets[0], ast.Tuple) and
                    len(dn.ast.targets[0].elts) >= 2 and
                    isinstance(dn.ast.targets[0].elts[1], ast.Name) and
                    dn.ast.targets[0].elts[1].id == a.ast.value.id):
                src_ok = False
    ctx.ob(rid, 'Sampler.add_samples:proposal-count-source', okv and src_ok, f.where(a.ast),
           'shell_n_sample grows by the second value returned by sample_shell (the proposal '
           'count)' if okv and src_ok else
           'shell_n_sample grows by `%s`, which is not the proposal count returned by '
           'sample_shell' % unparse(a.ast.value))
    # every sample_shell call samples the shell that is then updated
    shell = [p for p in f.params if p != f.self_name][0]
    ra = root_attr(a.ast.target, f.self_name)
    oki = ra[1] and isinstance(ra[1][0][1], ast.Name) and ra[1][0][1].id == shell
    for c in walk_no_nested(f.node):
        if isinstance(c, ast.Call) and dotted(c.func) == 'self.sample_shell' and cfg.has(c):
            arg = c.args[0]
            from .pathrules import _guarded_equal
            same = (isinstance(arg, ast.Name) and arg.id == shell) or _guarded_equal(
                cfg, cfg.node_of(c).id, arg, ast.Name(id=shell, ctx=ast.Load()))
            ctx.ob(rid, 'Sampler.add_samples:sampled-shell-is-counted-shell', bool(oki and same),
                   f.where(c), 'proposals drawn for shell `%s` are counted for shell `%s`' % (
                       unparse(arg), shell))


# ---------------------------------------------------------------------------
# Q1 / Q2 union sampling dependencies
# ---------------------------------------------------------------------------

def _depends(cfg, nid, expr, pred, depth=0, seen=None):
    """Does the value of `expr` at node nid depend (through local def-use chains) on a
    sub-expression satisfying pred?"""
    seen = seen if seen is not None else set()
    for sub in ast.walk(expr):
        if pred(sub):
            return True
    if depth > 8:
        return False
    for sub in ast.walk(expr):
        if isinstance(sub, ast.Name) and isinstance(sub.ctx, ast.Load):
            for d in cfg.defs_at(nid, sub.id):
                if (d, sub.id) in seen:
                    continue
                seen.add((d, sub.id))
                dn = cfg.nodes[d]
                if dn.kind == 'stmt' and isinstance(dn.ast, (ast.Assign, ast.AugAssign)):
                    if _depends(cfg, d, dn.ast.value, pred, depth + 1, seen):
                        return True
    return False


def rule_Q1_Q2(ctx, rid1='Q1', rid2='Q2'):
    ctx.rule(rid1, 'overlap correction: the acceptance mask applied to union proposals depends '
             'on the multiplicity of each proposal counted over ALL members of the union')
    ctx.rule(rid2, 'volume allocation: the per-member proposal counts depend on the member '
             'volumes (log_v_all) and are paired with the members in the same order')
    prog = ctx.program
    f = prog.func('Union.sample')
    cfg = cfg_of(f)

    def is_multiplicity(e):
        # np.sum([b.contains(points) for b in self.bounds], axis=0)
        if isinstance(e, ast.Call) and dotted(e.func) in ('np.sum', 'sum', 'np.count_nonzero') \
                and e.args and isinstance(e.args[0], (ast.ListComp, ast.GeneratorExp)):
            lc = e.args[0]
            g = lc.generators[0]
            if dotted(g.iter) == 'self.bounds' and not g.ifs and \
                    isinstance(lc.elt, ast.Call) and isinstance(lc.elt.func, ast.Attribute) and \
                    lc.elt.func.attr == 'contains':
                return True
        return False
    # last row selection of the proposals before they are cached
    caches = [n for n in cfg.nodes if n.kind == 'stmt' and isinstance(n.ast, ast.Assign) and
              dotted(n.ast.targets[0]) == 'self.points' and
              any(dotted(x) == 'self.points' for x in ast.walk(n.ast.value)) and
              any(isinstance(x, ast.Name) and x.id not in ('np', 'self')
                  for x in ast.walk(n.ast.value))]
    ctx.require(caches, 'Union.sample: cache update not found')
    cache = caches[0]
    pname = [s.id for s in ast.walk(cache.ast.value) if isinstance(s, ast.Name) and
             s.id not in ('np', 'self')][0]
    sels = [n for n in cfg.nodes if n.kind == 'stmt' and isinstance(n.ast, ast.Assign) and
            isinstance(n.ast.targets[0], ast.Name) and n.ast.targets[0].id == pname and
            isinstance(n.ast.value, ast.Subscript) and
            isinstance(n.ast.value.value, ast.Name) and n.ast.value.value.id == pname]
    # a selection is `p = p[mask]` before the cache update or `p[mask]` inside it
    cands = [(s.id, s.ast.value.slice, s.ast) for s in sels]
    cands += [(cache.id, x.slice, cache.ast) for x in ast.walk(cache.ast.value)
              if isinstance(x, ast.Subscript) and isinstance(x.value, ast.Name) and
              x.value.id == pname]
    dep = [c for c in cands if _depends(cfg, c[0], c[1], is_multiplicity)]
    ok = bool(dep) and any(cfg.dominates(c[0], cache.id) for c in dep)
    ctx.ob(rid1, 'Union.sample:acceptance-depends-on-multiplicity', ok, f.where(cache.ast),
           'the proposals that are cached were thinned by a mask that depends on their '
           'multiplicity over all members of self.bounds' if ok else
           'no thinning by multiplicity over all members precedes the cache update: overlapping '
           'ellipsoids are over-represented')
    # the multiplicity is evaluated on the proposals being thinned (same value)
    if dep:
        sid, _, sast = dep[0]
        mult_on = False
        for d in cfg.nodes:
            if d.kind == 'stmt' and isinstance(d.ast, ast.Assign) and \
                    is_multiplicity(d.ast.value):
                arg = d.ast.value.args[0].elt.args[0]
                if isinstance(arg, ast.Name) and arg.id == pname and \
                        cfg.defs_at(d.id, pname) == cfg.defs_at(sid, pname):
                    mult_on = True
        ctx.ob(rid1, 'Union.sample:multiplicity-of-same-proposals', mult_on, f.where(sast),
               'the multiplicity is counted for the very proposals that are thinned')
    # the acceptance probability is exactly 1 / multiplicity: evaluated as a rational function
    # of the multiplicity m for the comparison that builds the mask
    from .volumes import ratfun, p_mul, p_sym, p_const, p_add, Undecided as _Und
    if dep:
        sid, sl, sast = dep[0]
        cmp_ = sl
        seen = 0
        while isinstance(cmp_, ast.Name) and seen < 4:
            seen += 1
            ds = cfg.defs_at(sid, cmp_.id)
            if len(ds) != 1 or not isinstance(cfg.nodes[next(iter(ds))].ast, ast.Assign):
                break
            sid = next(iter(ds))
            cmp_ = cfg.nodes[sid].ast.value
        neg = False
        while isinstance(cmp_, ast.UnaryOp) and isinstance(cmp_.op, (ast.Invert, ast.Not)):
            neg = not neg
            cmp_ = cmp_.operand
        if isinstance(cmp_, ast.Compare) and len(cmp_.ops) == 1 and \
                isinstance(cmp_.ops[0], (ast.Lt, ast.LtE, ast.Gt, ast.GtE)):
            l, r = cmp_.left, cmp_.comparators[0]

            def is_draw(e):
                return isinstance(e, ast.Call) and (dotted(e.func) or '').split('.')[-1] in (
                    'random', 'uniform') and 'rng' in (dotted(e.func) or '')
            thr = r if is_draw(l) else (l if is_draw(r) else None)
            if thr is not None:
                draw_left = is_draw(l)
                less = isinstance(cmp_.ops[0], (ast.Lt, ast.LtE))
                # P(U < t) = t ; P(U > t) = 1 - t
                prob_is_t = (draw_left and less) or ((not draw_left) and not less)
                if neg:
                    prob_is_t = not prob_is_t

                def msym(e, _sid=sid):
                    if is_multiplicity(e):
                        return 'm'
                    if isinstance(e, ast.Name):
                        for d in cfg.defs_at(_sid, e.id):
                            dn = cfg.nodes[d]
                            if dn.kind == 'stmt' and isinstance(dn.ast, ast.Assign) and \
                                    is_multiplicity(dn.ast.value):
                                return 'm'
                    return None

                def expand(e, at, depth=0):
                    """inline single-definition locals that are not the multiplicity"""
                    if depth > 4 or not isinstance(e, ast.Name) or msym(e) is not None:
                        return e
                    ds = cfg.defs_at(at, e.id)
                    if len(ds) == 1 and isinstance(cfg.nodes[next(iter(ds))].ast, ast.Assign):
                        return cfg.nodes[next(iter(ds))].ast.value
                    return e
                try:
                    num, den = ratfun(expand(thr, sid), msym)
                    if not prob_is_t:
                        num, den = p_add(den, num, -1), den
                    oka = p_mul(num, p_sym('m')) == den and bool(den)
                    ctx.ob(rid1, 'Union.sample:acceptance-is-inverse-multiplicity', oka,
                           f.where(sast),
                           'a proposal covered by m members is kept with probability 1/m: every '
                           'point of the union is proposed with the same density' if oka else
                           'a proposal covered by m members is kept with a probability that is '
                           'not 1/m (threshold `%s`): overlapping regions are over- or '
                           'under-represented' % unparse(thr)[:40])
                except _Und as exc:
                    ctx.note('Q1 acceptance probability not decided: %s' % exc)
    # Q2
    mults = [n for n in cfg.nodes if n.kind == 'stmt' and isinstance(n.ast, ast.Assign) and
             isinstance(n.ast.value, ast.Call) and
             dotted(n.ast.value.func) == 'self.rng.multinomial']
    ctx.ob(rid2, 'Union.sample:allocation-is-random-draw', bool(mults), f.where(),
           'the number of proposals per member is a multinomial draw from the sampler\'s '
           'generator (unbiased for every member, however small)' if mults else
           'the number of proposals per member is not drawn with self.rng.multinomial: a '
           'deterministic or rounded allocation starves members with a small share of the '
           'volume, so proposals are not uniform over the union')
    if not mults:
        return
    m = mults[0]
    okv = _depends(cfg, m.id, m.ast.value.args[1],
                   lambda e: isinstance(e, ast.Attribute) and dotted(e) == 'self.log_v_all')
    ctx.ob(rid2, 'Union.sample:allocation-depends-on-volumes', okv, f.where(m.ast),
           'the per-member proposal counts are drawn with probabilities derived from log_v_all'
           if okv else 'the allocation of proposals to members ignores the member volumes')
    cname = m.ast.targets[0].id if isinstance(m.ast.targets[0], ast.Name) else None
    okz = False
    for lc in ast.walk(f.node):
        if isinstance(lc, (ast.ListComp, ast.GeneratorExp)):
            g = lc.generators[0]
            if isinstance(g.iter, ast.Call) and dotted(g.iter.func) == 'zip' and \
                    len(g.iter.args) == 2 and dotted(g.iter.args[0]) == 'self.bounds' and \
                    isinstance(g.iter.args[1], ast.Name) and g.iter.args[1].id == cname and \
                    isinstance(g.target, ast.Tuple) and isinstance(lc.elt, ast.Call) and \
                    isinstance(lc.elt.func, ast.Attribute) and lc.elt.func.attr == 'sample' and \
                    isinstance(lc.elt.func.value, ast.Name) and \
                    lc.elt.func.value.id == g.target.elts[0].id and lc.elt.args and \
                    isinstance(lc.elt.args[0], ast.Name) and \
                    lc.elt.args[0].id == g.target.elts[1].id:
                okz = True
    ctx.ob(rid2, 'Union.sample:counts-paired-with-members', okz, f.where(m.ast),
           'member k draws the k-th count (zip(self.bounds, counts))' if okz else
           'the counts are not paired positionally with the members')

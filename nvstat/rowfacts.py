"""E4 ROWFACTS: membership facts carried by arrays and masks (DESIGN.md E4, M1-M5).

The general guarded-fact lattice of the design is instantiated here as targeted
obligations on the four classes that have both `sample` and `contains`, on the two
mask-narrowing `contains` implementations, and on the three Sampler functions that move
rows between shells.  Index domains ("all later bounds", "all earlier shells") are
decided by evaluating the extracted slice / range arithmetic on symbolic lists of length
1..6 for every admissible index -- arithmetic on an index expression, never execution of
program code.
"""
import ast

from .core import AnalysisError
from .cfg import cfg_of, assume
from .exprs import dotted, unparse, walk_no_nested, root_attr, ekey, strip_not, const_value
from .lockstep import Tracker
from .resolve import resolver

# ---------------------------------------------------------------------------
# tiny evaluator for index arithmetic
# ---------------------------------------------------------------------------


class _Cannot(Exception):
    pass


def eval_index_expr(e, env):
    """Evaluate an expression made of integer constants, names in env, + - * //,
    unary minus, len(), range(), list slicing/indexing, list concatenation, reversed/list/
    enumerate.  Raises _Cannot for anything else."""
    if isinstance(e, ast.Constant) and isinstance(e.value, int):
        return e.value
    if isinstance(e, ast.Name):
        if e.id in env:
            return env[e.id]
        raise _Cannot(e.id)
    if isinstance(e, ast.Attribute):
        d = dotted(e)
        if d in env:
            return env[d]
        raise _Cannot(d)
    if isinstance(e, ast.UnaryOp) and isinstance(e.op, ast.USub):
        return -eval_index_expr(e.operand, env)
    if isinstance(e, ast.BinOp):
        a, b = eval_index_expr(e.left, env), eval_index_expr(e.right, env)
        if isinstance(e.op, ast.Add):
            return a + b
        if isinstance(e.op, ast.Sub):
            return a - b
        if isinstance(e.op, ast.Mult):
            return a * b
        if isinstance(e.op, ast.FloorDiv):
            return a // b
        if isinstance(e.op, ast.Mod):
            return a % b
        raise _Cannot('op')
    if isinstance(e, ast.Call):
        d = dotted(e.func)
        if d == 'len' and len(e.args) == 1:
            return len(eval_index_expr(e.args[0], env))
        if d == 'range':
            return list(range(*[eval_index_expr(a, env) for a in e.args]))
        if d in ('list', 'tuple') and len(e.args) == 1:
            return list(eval_index_expr(e.args[0], env))
        if d == 'reversed' and len(e.args) == 1:
            return list(reversed(eval_index_expr(e.args[0], env)))
        if d == 'enumerate' and len(e.args) == 1:
            return list(eval_index_expr(e.args[0], env))     # elements only
        raise _Cannot(d)
    if isinstance(e, ast.Subscript):
        v = eval_index_expr(e.value, env)
        sl = e.slice
        if isinstance(sl, ast.Slice):
            lo = eval_index_expr(sl.lower, env) if sl.lower is not None else None
            hi = eval_index_expr(sl.upper, env) if sl.upper is not None else None
            st = eval_index_expr(sl.step, env) if sl.step is not None else None
            return v[lo:hi:st]
        return v[eval_index_expr(sl, env)]
    raise _Cannot(type(e).__name__)


def domain_check(expr, list_name, index_name, want, lengths=range(1, 7), neg_index=True,
                 extra_env=None):
    """Evaluate `expr` with list_name := [0..L-1] for every L and admissible index;
    `want(L, i)` gives the expected set of positions (i normalised to >= 0).
    -> (ok, counterexample or None, evaluations)"""
    n = 0
    for L in lengths:
        idxs = list(range(L)) + ([-1] if neg_index else [])
        if index_name is None:
            idxs = [None]
        for i in idxs:
            env = {list_name: list(range(L))}
            if extra_env:
                env.update(extra_env)
            if index_name is not None:
                env[index_name] = i
            try:
                got = eval_index_expr(expr, env)
            except _Cannot as exc:
                raise AnalysisError('index expression `%s` outside the evaluable subset (%s)'
                                    % (unparse(expr), exc))
            except (IndexError, ValueError, TypeError):
                return False, (L, i, 'raises'), n
            n += 1
            ni = None if i is None else (i if i >= 0 else L + i)
            if sorted(got) != sorted(want(L, ni)) or len(got) != len(set(got)):
                return False, (L, i, got), n
    return True, None, n


# ---------------------------------------------------------------------------
# M2 outer dominance (meet-only narrowing)
# ---------------------------------------------------------------------------

def _contains_calls(fn_node):
    return [n for n in walk_no_nested(fn_node) if isinstance(n, ast.Call) and
            isinstance(n.func, ast.Attribute) and n.func.attr == 'contains']


def rule_M2(ctx, qualname, outer_attr='outer_bound', rid='M2'):
    ctx.rule(rid, 'outer dominance: the mask returned by a composite contains() starts as '
             'outer_bound.contains(points) and is afterwards only narrowed (m & x, m &= x, '
             'm[m] = x); every member test sees the same (shifted) points')
    f = ctx.program.func(qualname)
    cfg = cfg_of(f)
    selfn = f.self_name
    rets = [n for n in walk_no_nested(f.node) if isinstance(n, ast.Return)]
    ctx.require(rets, '%s: contains() has no return' % qualname)
    # the mask variable: a returned name, or the name that is met in a returned `m & x`
    names = []
    other = []
    for r in rets:
        v = r.value
        if isinstance(v, ast.Name):
            names.append(v.id)
        elif isinstance(v, ast.BinOp) and isinstance(v.op, ast.BitAnd) and any(
                isinstance(s_, ast.Name) for s_ in (v.left, v.right)):
            names.append([s_.id for s_ in (v.left, v.right) if isinstance(s_, ast.Name)][0])
        else:
            other.append(r)
    if other or len(set(names)) != 1:
        ctx.ob(rid, '%s:returns-narrowed-outer-mask' % qualname, False,
               f.where(other[0] if other else rets[0]),
               'contains() returns `%s`, which is not the mask of outer_bound.contains() '
               'narrowed by further tests: a point outside the outer bound can be reported as '
               'contained' % (unparse(other[0].value)[:60] if other else 'different masks'))
        return 0
    m = names[0]
    inits, narrows, bad = [], [], []
    for n in cfg.nodes:
        if n.kind != 'stmt':
            continue
        a = n.ast
        if isinstance(a, ast.Assign) and len(a.targets) == 1:
            t = a.targets[0]
            if isinstance(t, ast.Name) and t.id == m:
                v = a.value
                if isinstance(v, ast.Call) and isinstance(v.func, ast.Attribute) and \
                        v.func.attr == 'contains' and \
                        dotted(v.func.value) == '%s.%s' % (selfn, outer_attr):
                    inits.append(n)
                elif isinstance(v, ast.BinOp) and isinstance(v.op, ast.BitAnd) and (
                        (isinstance(v.left, ast.Name) and v.left.id == m) or
                        (isinstance(v.right, ast.Name) and v.right.id == m)):
                    narrows.append(n)
                else:
                    bad.append((n, 'mask is rebound to `%s`' % unparse(v)[:50]))
            elif isinstance(t, ast.Subscript) and isinstance(t.value, ast.Name) and \
                    t.value.id == m:
                if isinstance(t.slice, ast.Name) and t.slice.id == m:
                    narrows.append(n)
                else:
                    bad.append((n, 'mask is written at `%s`, not only where it is already True'
                                % unparse(t.slice)))
        elif isinstance(a, ast.AugAssign) and isinstance(a.target, ast.Name) and \
                a.target.id == m:
            if isinstance(a.op, ast.BitAnd):
                narrows.append(n)
            else:
                bad.append((n, 'mask is combined with %s' % type(a.op).__name__))
    ok_init = len(inits) == 1 and all(cfg.dominates(inits[0].id, x.id)
                                      for x in narrows + [cfg.node_of(r) for r in rets])
    ctx.ob(rid, '%s:returns-narrowed-outer-mask' % qualname, True, f.where(),
           'every return hands back the mask variable `%s`' % m)
    ctx.ob(rid, '%s:starts-from-outer-bound' % qualname, ok_init, f.where(),
           'the mask is initialised by self.%s.contains(points), which dominates every later '
           'use' % outer_attr if ok_init else
           'the returned mask is not initialised (once, dominating) from self.%s.contains'
           % outer_attr)
    ctx.ob(rid, '%s:meet-only' % qualname, not bad, f.where(bad[0][0].ast) if bad else f.where(),
           'after initialisation the mask is only narrowed (%d narrowing updates)' % len(narrows)
           if not bad else '%s: a point outside the outer bound can be reported as contained'
           % bad[0][1])
    # all contains() calls see the same points value
    calls = _contains_calls(f.node)
    keys = set()
    for c in calls:
        if c.args and cfg.has(c):
            a = c.args[0]
            base = a
            while isinstance(base, ast.Subscript):
                base = base.value
            if isinstance(base, ast.Name):
                keys.add((base.id, cfg.defs_at(cfg.node_of(c).id, base.id)))
    ok = len({k for k in keys}) <= 1 or len({d for _, d in keys}) == 1
    ctx.ob(rid, '%s:same-frame' % qualname, ok, f.where(),
           'every member test is applied to the same points value' if ok else
           'member tests see different points values (frames mixed): %s' % sorted(
               n for n, _ in keys))
    return len(narrows)


# ---------------------------------------------------------------------------
# A4 mixture pairing  (component <-> column polarity)
# ---------------------------------------------------------------------------

def rule_A4(ctx, rid='A4'):
    ctx.rule(rid, 'mixture pairing: transform, contains and sample of the cube/ellipsoid '
             'mixture pair the cube with the columns selected by dim_cube and the ellipsoid with '
             'the complementary columns, each under the presence test of that component')
    prog = ctx.program
    n = 0
    for meth in ('transform', 'contains', 'sample'):
        f = prog.func('UnitCubeEllipsoidMixture.' + meth)
        cfg = cfg_of(f)
        selfn = f.self_name
        for comp, want_neg in (('cube', False), ('ellipsoid', True)):
            uses = [c for c in walk_no_nested(f.node) if isinstance(c, ast.Call) and
                    isinstance(c.func, ast.Attribute) and
                    dotted(c.func.value) == '%s.%s' % (selfn, comp) and cfg.has(c)]
            if meth == 'transform' and comp == 'cube':
                # the cube part of transform is an affine map written inline: find the store
                uses = [st for st in walk_no_nested(f.node) if isinstance(st, ast.Assign) and
                        isinstance(st.targets[0], ast.Subscript) and cfg.has(st) and
                        cfg.has_fact(cfg.node_of(st).id, '%s.cube is None' % selfn, False)]
            if not uses:
                # the component is consulted by the sibling methods but not here
                others = [m2 for m2 in ('contains', 'sample') if m2 != meth and any(
                    isinstance(c, ast.Call) and isinstance(c.func, ast.Attribute) and
                    dotted(c.func.value) == '%s.%s' % (selfn, comp)
                    for c in walk_no_nested(prog.func('UnitCubeEllipsoidMixture.' + m2).node))]
                ctx.require(others, 'UnitCubeEllipsoidMixture.%s: use of %s not found'
                            % (meth, comp))
                n += 1
                ctx.ob(rid, 'UnitCubeEllipsoidMixture.%s:%s-columns' % (meth, comp), False,
                       f.where(), '%s() consults the %s for its columns but %s() does not: the '
                       'two methods describe different regions' % (others[0], comp, meth))
                continue
            for u in uses:
                nid = cfg.node_of(u).id
                st = cfg.nodes[nid].ast
                # presence guard
                g_ok = cfg.has_fact(nid, '%s.%s is None' % (selfn, comp), False)
                # index names used in the statement and their polarity
                pol = set()
                for sub in ast.walk(st):
                    if isinstance(sub, ast.Name) and isinstance(sub.ctx, ast.Load):
                        for d in cfg.defs_at(nid, sub.id):
                            dn = cfg.nodes[d]
                            if dn.kind == 'stmt' and isinstance(dn.ast, ast.Assign):
                                for s2 in ast.walk(dn.ast.value):
                                    if isinstance(s2, ast.Subscript):
                                        inner, neg = strip_not(s2.slice)
                                        if dotted(inner) == '%s.dim_cube' % selfn:
                                            pol.add(neg)
                    if isinstance(sub, ast.Subscript):
                        inner, neg = strip_not(sub.slice)
                        if dotted(inner) == '%s.dim_cube' % selfn:
                            pol.add(neg)
                n += 1
                ok = g_ok and pol == {want_neg}
                ctx.ob(rid, 'UnitCubeEllipsoidMixture.%s:%s-columns' % (meth, comp), ok,
                       f.where(u),
                       'the %s acts on the %s columns under `self.%s is not None`' % (
                           comp, '~dim_cube' if want_neg else 'dim_cube', comp) if ok else
                       'the %s is paired with column polarity %s (expected %s) / presence guard '
                       '%s' % (comp, sorted(pol), want_neg, g_ok))
    # contains() is the conjunction of the component tests and of nothing else: any further
    # narrowing would have to be enforced by sample() as well
    f = prog.func('UnitCubeEllipsoidMixture.contains')
    selfn = f.self_name
    rets = [r for r in walk_no_nested(f.node) if isinstance(r, ast.Return) and
            isinstance(r.value, ast.Name)]
    if rets:
        mname = rets[0].value.id
        extra = []

        def operands(e):
            if isinstance(e, ast.BinOp) and isinstance(e.op, ast.BitAnd):
                return operands(e.left) + operands(e.right)
            return [e]
        for st in walk_no_nested(f.node):
            v = None
            if isinstance(st, ast.Assign) and isinstance(st.targets[0], ast.Name) and \
                    st.targets[0].id == mname:
                v = st.value
            elif isinstance(st, ast.AugAssign) and isinstance(st.target, ast.Name) and \
                    st.target.id == mname and isinstance(st.op, ast.BitAnd):
                v = st.value
            if v is None:
                continue
            for o in operands(v):
                if isinstance(o, ast.Name) and o.id == mname:
                    continue
                if isinstance(o, ast.Call) and dotted(o.func) in ('np.ones', 'np.full') :
                    continue
                if isinstance(o, ast.Call) and isinstance(o.func, ast.Attribute) and \
                        o.func.attr == 'contains' and dotted(o.func.value) in (
                            '%s.cube' % selfn, '%s.ellipsoid' % selfn):
                    continue
                extra.append(o)
        n += 1
        ctx.ob(rid, 'UnitCubeEllipsoidMixture.contains:only-component-tests', not extra,
               f.where(extra[0]) if extra else f.where(),
               'the mask is the conjunction of the cube test and the ellipsoid test' if not extra
               else 'contains() also demands `%s`, which sample() does not enforce: sample() '
               'can return points that contains() of the same bound rejects'
               % unparse(extra[0])[:60])
    return n


# ---------------------------------------------------------------------------
# M1 sample establishes contains
# ---------------------------------------------------------------------------

def _local_ops(f, name):
    """Structural events on local `name` (Tracker)."""
    tr = Tracker(f, [], locals_=[name])
    out = []
    for nid in sorted(tr.all_events()):
        for e in tr.all_events()[nid]:
            if e.member == name:
                out.append(e)
    return tr, out


def rule_M1(ctx, rid='M1'):
    ctx.rule(rid, 'sample establishes contains: for every class with both methods, the rows '
             'returned by sample() went through a selection for each conjunct of contains() '
             '(same guards, same frame), and between that selection and the return only '
             'row-preserving operations (selection, shuffle, stacking, slicing) occur')
    prog = ctx.program
    # ---- UnitCube
    f = prog.func('UnitCube.sample')
    rets = [n for n in walk_no_nested(f.node) if isinstance(n, ast.Return)]
    cfg = cfg_of(f)
    src = rets[0].value
    if isinstance(src, ast.Name):
        for d in cfg.defs_at(cfg.node_of(rets[0]).id, src.id):
            if cfg.nodes[d].kind == 'stmt':
                src = cfg.nodes[d].ast.value
    ok = isinstance(src, ast.Call) and isinstance(src.func, ast.Attribute) and \
        src.func.attr == 'random' and dotted(src.func.value) == 'self.rng'
    ctx.ob(rid, 'UnitCube.sample:uniform-unit', ok, f.where(),
           'rows are Generator.random() values, i.e. in [0,1)' if ok else
           'rows are `%s`, not Generator.random(): not known to lie in [0,1)' % unparse(src)[:60])
    c = prog.func('UnitCube.contains')
    cmps = [n for n in walk_no_nested(c.node) if isinstance(n, ast.Compare) and len(n.ops) == 1]
    lo = [x for x in cmps if isinstance(x.ops[0], ast.GtE) and const_value(x.comparators[0]) == 0]
    hi = [x for x in cmps if isinstance(x.ops[0], ast.Lt) and const_value(x.comparators[0]) == 1]
    okc = len(cmps) == 2 and lo and hi and any(
        isinstance(n, ast.BinOp) and isinstance(n.op, ast.BitAnd) for n in walk_no_nested(c.node))
    ctx.ob(rid, 'UnitCube.contains:half-open-unit', bool(okc), c.where(),
           'contains() is (x >= 0) & (x < 1): exactly the range of Generator.random()' if okc
           else 'contains() is not the half-open unit interval test')
    # ---- Union
    f = prog.func('Union.sample')
    cfg = cfg_of(f)
    # member sampling
    ms = None
    for n in cfg.nodes:
        if n.kind == 'stmt' and isinstance(n.ast, ast.Assign) and \
                isinstance(n.ast.targets[0], ast.Name):
            for lc in ast.walk(n.ast.value):
                if isinstance(lc, (ast.ListComp, ast.GeneratorExp)) and \
                        isinstance(lc.elt, ast.Call) and isinstance(lc.elt.func, ast.Attribute) \
                        and lc.elt.func.attr == 'sample':
                    it = lc.generators[0].iter
                    srcs = [dotted(a) for a in (it.args if isinstance(it, ast.Call) else [it])]
                    if 'self.bounds' in srcs:
                        ms = n
    ctx.ob(rid, 'Union.sample:rows-from-members', ms is not None, f.where(),
           'every proposal is drawn by a member of self.bounds' if ms is not None else
           'proposals are not drawn from the members of self.bounds')
    if ms is not None:
        pname = ms.ast.targets[0].id
        tr, ops = _local_ops(f, pname)
        cache0 = [n.id for n in cfg.nodes if n.kind == 'stmt' and isinstance(n.ast, ast.Assign)
                  and dotted(n.ast.targets[0]) == 'self.points' and
                  any(isinstance(s, ast.Name) and s.id == pname for s in ast.walk(n.ast.value))]
        after = [e for e in ops if e.nid != ms.id and cfg.can_reach(ms.id, e.nid) and
                 any(cfg.can_reach(e.nid, c0) for c0 in cache0)]
        bad = [e for e in after if not (e.op == 'SELECT' or (e.op == 'REORDER' and
                                                             e.sel == 'shuffle'))]
        ctx.ob(rid, 'Union.sample:row-preserving-only', not bad, f.where(bad[0].ast) if bad else
               f.where(), 'after member sampling the proposals are only selected and shuffled'
               if not bad else 'proposals are changed by %s after member sampling: rows may '
               'leave the members that produced them' % [e.op for e in bad])
        # cube conjunct
        cube_sel = [e for e in after if e.op == 'SELECT' and
                    'self.cube.contains' in unparse(e.extra.get('selector'))]
        g_ok = False
        for e in cube_sel:
            if cfg.has_fact(e.nid, 'self.cube is None', False):
                g_ok = True
        cache = [n for n in cfg.nodes if n.kind == 'stmt' and isinstance(n.ast, ast.Assign) and
                 dotted(n.ast.targets[0]) == 'self.points' and
                 any(isinstance(s, ast.Name) and s.id == pname for s in ast.walk(n.ast.value))]
        ok = bool(cube_sel) and g_ok and bool(cache) and all(
            cfg.must_pass(ms.id, cn.id, {e.nid for e in cube_sel},
                          edge_ok=assume(('self.cube is None', False))) for cn in cache)
        ctx.ob(rid, 'Union.sample:cube-filter', ok, f.where(),
               'when the union is restricted to the unit cube, proposals are filtered by '
               'cube.contains() before they are cached' if ok else
               'proposals outside the unit cube can reach the cache of a cube-restricted union')
        # selection uses the very proposals being filtered
        for e in cube_sel:
            sel = e.extra.get('selector')
            argok = isinstance(sel, ast.Call) and sel.args and isinstance(sel.args[0], ast.Name) \
                and sel.args[0].id == pname
            ctx.ob(rid, 'Union.sample:cube-filter-argument', bool(argok), f.where(e.ast),
                   'the cube test is applied to the proposals it filters')
    c = prog.func('Union.contains')
    ccfg = cfg_of(c)
    txt_any = any(isinstance(n, ast.Call) and dotted(n.func) in ('np.any', 'any') and n.args and
                  isinstance(n.args[0], (ast.ListComp, ast.GeneratorExp)) and
                  dotted(n.args[0].generators[0].iter) == 'self.bounds'
                  for n in walk_no_nested(c.node))
    ctx.ob(rid, 'Union.contains:any-member', txt_any, c.where(),
           'contains() is true where any member of self.bounds contains the point' if txt_any
           else 'contains() is not an any-of over all members of self.bounds')
    cube_conj = False
    for n in ccfg.nodes:
        if n.kind == 'stmt' and isinstance(n.ast, (ast.Assign, ast.AugAssign)) and \
                'self.cube.contains' in unparse(n.ast.value):
            v = n.ast.value
            is_and = (isinstance(n.ast, ast.AugAssign) and isinstance(n.ast.op, ast.BitAnd)) or \
                (isinstance(v, ast.BinOp) and isinstance(v.op, ast.BitAnd))
            if ccfg.has_fact(n.id, 'self.cube is None', False) and is_and:
                cube_conj = True
    ctx.ob(rid, 'Union.contains:cube-conjunct', cube_conj, c.where(),
           'contains() is additionally restricted by cube.contains() under the same guard as '
           'sample()' if cube_conj else
           'contains() does not apply the cube restriction (as a conjunction) under '
           '`self.cube is not None`')
    # ---- NautilusBound
    f = prog.func('NautilusBound.sample')
    cfg = cfg_of(f)
    draws = [n for n in cfg.nodes if n.kind == 'stmt' and isinstance(n.ast, ast.Assign) and
             isinstance(n.ast.value, ast.Call) and
             dotted(n.ast.value.func) == 'self.outer_bound.sample']
    ctx.require(len(draws) == 1, 'NautilusBound.sample: outer_bound.sample call not found')
    d0 = draws[0]
    pname = d0.ast.targets[0].id
    tr, ops = _local_ops(f, pname)
    cache0 = [n.id for n in cfg.nodes if n.kind == 'stmt' and isinstance(n.ast, ast.Assign)
              and dotted(n.ast.targets[0]) == 'self.points' and
              any(isinstance(s, ast.Name) and s.id == pname for s in ast.walk(n.ast.value))]
    after = [e for e in ops if e.nid != d0.id and cfg.can_reach(d0.id, e.nid) and
             any(cfg.can_reach(e.nid, c0) for c0 in cache0)]
    sel = [e for e in after if e.op == 'SELECT']
    neural = []
    for e in sel:
        s = e.extra.get('selector')
        if isinstance(s, ast.Name):
            for dd in cfg.defs_at(e.nid, s.id):
                v = cfg.nodes[dd].ast.value if cfg.nodes[dd].kind == 'stmt' else None
                if v is not None and isinstance(v, ast.Call) and \
                        dotted(v.func) in ('np.any', 'any') and v.args and \
                        isinstance(v.args[0], (ast.ListComp, ast.GeneratorExp)) and \
                        dotted(v.args[0].generators[0].iter) == 'self.neural_bounds' and \
                        isinstance(v.args[0].elt, ast.Call) and \
                        v.args[0].elt.func.attr == 'contains' and \
                        isinstance(v.args[0].elt.args[0], ast.Name) and \
                        v.args[0].elt.args[0].id == pname and \
                        cfg.defs_at(dd, pname) == cfg.defs_at(e.nid, pname):
                    neural.append(e)
    cache = [n for n in cfg.nodes if n.kind == 'stmt' and isinstance(n.ast, ast.Assign) and
             dotted(n.ast.targets[0]) == 'self.points' and
             any(isinstance(s, ast.Name) and s.id == pname for s in ast.walk(n.ast.value))]
    ok = bool(neural) and bool(cache) and all(
        cfg.must_pass(d0.id, cn.id, {e.nid for e in neural}) for cn in cache)
    ctx.ob(rid, 'NautilusBound.sample:neural-filter', ok, f.where(),
           'proposals of the outer bound are kept only where some neural bound contains them, '
           'before they are cached' if ok else
           'proposals can reach the cache without passing the any-of test of the neural bounds')
    bad = [e for e in after if e.op not in ('SELECT',)]
    ctx.ob(rid, 'NautilusBound.sample:row-preserving-only', not bad, f.where(),
           'outer proposals are only reduced by row selection before caching' if not bad else
           'outer proposals are changed by %s before caching' % [e.op for e in bad])
    # frames
    rets = [n for n in cfg.nodes if n.kind == 'stmt' and isinstance(n.ast, ast.Return) and
            n.ast.value is not None]
    ctx.require(rets, 'NautilusBound.sample: no value-returning exit')
    inv = [n for n in cfg.nodes if n.kind == 'stmt' and isinstance(n.ast, ast.Assign) and
           isinstance(n.ast.value, ast.Call) and
           dotted(n.ast.value.func) == 'self.shift.transform' and
           any(k.arg == 'inverse' and isinstance(k.value, ast.Constant) and k.value.value is True
               for k in n.ast.value.keywords)]
    okf = bool(inv)
    for r in rets:
        rn = r.ast.value.id if isinstance(r.ast.value, ast.Name) else None
        for i in inv:
            if not (isinstance(i.ast.targets[0], ast.Name) and i.ast.targets[0].id == rn and
                    i.ast.value.args and isinstance(i.ast.value.args[0], ast.Name) and
                    i.ast.value.args[0].id == rn):
                okf = False
            if not cfg.has_fact(i.id, 'self.shift is None', False):
                okf = False
        # every return is preceded by the inverse shift when a shift exists
        if inv and not cfg.must_pass(cfg.entry.id, r.id, {i.id for i in inv},
                                     edge_ok=assume(('self.shift is None', False))):
            okf = False
    ctx.ob(rid, 'NautilusBound.sample:returned-in-original-frame', okf, f.where(),
           'returned points pass through the inverse phase shift whenever a shift exists' if okf
           else 'with a phase shift, points can be returned in the shifted frame: they need not '
           'satisfy contains() nor lie where the likelihood expects them')
    # the returned rows are a slice of the cache
    okr = False
    for r in rets:
        if isinstance(r.ast.value, ast.Name):
            for dd in cfg.defs_at(r.id, r.ast.value.id):
                dn = cfg.nodes[dd]
                if dn.kind == 'stmt' and isinstance(dn.ast.value, ast.Subscript) and \
                        dotted(dn.ast.value.value) == 'self.points':
                    okr = True
                if dn in inv:
                    for d2 in cfg.defs_at(dn.id, r.ast.value.id):
                        d2n = cfg.nodes[d2]
                        if d2n.kind == 'stmt' and isinstance(d2n.ast.value, ast.Subscript) and \
                                dotted(d2n.ast.value.value) == 'self.points':
                            okr = True
    ctx.ob(rid, 'NautilusBound.sample:returns-cached-rows', okr, f.where(),
           'the returned rows are a slice of the filtered cache')
    c = prog.func('NautilusBound.contains')
    ccfg = cfg_of(c)
    fw = [n for n in ccfg.nodes if n.kind == 'stmt' and isinstance(n.ast, ast.Assign) and
          isinstance(n.ast.value, ast.Call) and
          dotted(n.ast.value.func) == 'self.shift.transform' and
          not any(k.arg == 'inverse' for k in n.ast.value.keywords) and
          len(n.ast.value.args) == 1]
    calls = [ccfg.node_of(x).id for x in _contains_calls(c.node) if ccfg.has(x)]
    okc = bool(fw) and all(
        ccfg.must_pass(ccfg.entry.id, x, {n.id for n in fw},
                       edge_ok=assume(('self.shift is None', False))) for x in calls) and all(
        ccfg.has_fact(n.id, 'self.shift is None', False) for n in fw)
    ctx.ob(rid, 'NautilusBound.contains:tests-in-shifted-frame', okc, c.where(),
           'contains() applies the forward phase shift before any member test, under the same '
           'guard as sample() applies the inverse' if okc else
           'member tests of contains() can see unshifted points although the members live in '
           'the shifted frame')
    # the neural conjunct of contains
    anyn = any(isinstance(n, ast.Call) and dotted(n.func) in ('np.any', 'any') and n.args and
               isinstance(n.args[0], (ast.ListComp, ast.GeneratorExp)) and
               dotted(n.args[0].generators[0].iter) == 'self.neural_bounds'
               for n in walk_no_nested(c.node))
    ctx.ob(rid, 'NautilusBound.contains:any-neural', anyn, c.where(),
           'contains() requires membership in some neural bound, as sample() does')
    # pool path: workers use the serial path
    w = prog.func('NautilusBound._reset_and_sample')
    okw = any(isinstance(n, ast.Call) and
              dotted(n.func) in ['%s.sample' % r for r in worker_receivers(w)] and
              not any(k.arg == 'pool' for k in n.keywords) and
              any(k.arg == 'return_points' and isinstance(k.value, ast.Constant) and
                  k.value.value is False for k in n.keywords)
              for n in walk_no_nested(w.node))
    ctx.ob(rid, 'NautilusBound._reset_and_sample:serial-path', okw, w.where(),
           'pool workers fill their cache through the serial (filtered) path')


def _assume_true(text):
    def edge_ok(node, lab):
        if node.kind == 'test' and lab is False and unparse(node.expr) == text:
            return False
        return True
    return edge_ok


# ---------------------------------------------------------------------------
# M3 unit-cube provenance
# ---------------------------------------------------------------------------

def rule_M3(ctx, rid='M3'):
    ctx.rule(rid, 'unit-cube provenance: every bound the sampler draws from is either the unit '
             'cube or a nautilus bound whose outer union is restricted to the unit cube; the '
             'restriction is created whenever requested; proposals reach the likelihood only '
             'through row selections')
    prog = ctx.program
    res = resolver(prog)
    types = res.attr_types.get(('Sampler', 'bounds'), set())
    ctx.ob(rid, 'Sampler.bounds:classes', types <= {'UnitCube', 'NautilusBound'}, 'nautilus/'
           'sampler.py:0', 'Sampler.bounds holds %s' % sorted(types))
    # outer_bound of NautilusBound is unit-restricted
    f = prog.func('NautilusBound.compute')
    n = 0
    for st in walk_no_nested(f.node):
        if isinstance(st, ast.Assign) and isinstance(st.targets[0], ast.Attribute) and \
                st.targets[0].attr == 'outer_bound' and isinstance(st.value, ast.Call):
            n += 1
            c = st.value
            unit = [k.value for k in c.keywords if k.arg == 'unit']
            ok = dotted(c.func) == 'Union.compute' and (
                not unit or (isinstance(unit[0], ast.Constant) and unit[0].value is True))
            ctx.ob(rid, 'NautilusBound.compute:outer-bound-unit-restricted', ok, f.where(st),
                   'the sampling bound is a Union restricted to the unit cube' if ok else
                   'the sampling bound is built with `%s`: its proposals can leave the unit '
                   'hypercube' % unparse(c)[:60])
    ctx.require(n >= 1, 'NautilusBound.compute: construction of outer_bound not found')
    # Union.compute honours unit=True
    f = prog.func('Union.compute')
    cfg = cfg_of(f)
    d = None
    a = f.node.args
    allp = a.posonlyargs + a.args
    defaults = [None] * (len(allp) - len(a.defaults)) + list(a.defaults)
    for p, dv in zip(allp, defaults):
        if p.arg == 'unit':
            d = dv
    okd = isinstance(d, ast.Constant) and d.value is True
    ctx.ob(rid, 'Union.compute:unit-default', okd, f.where(),
           'Union.compute restricts to the unit cube by default')
    cube_set = [n for n in cfg.nodes if n.kind == 'stmt' and isinstance(n.ast, ast.Assign) and
                isinstance(n.ast.targets[0], ast.Attribute) and n.ast.targets[0].attr == 'cube']
    ok = False
    for nn in cube_set:
        if isinstance(nn.ast.value, ast.Call) and dotted(nn.ast.value.func) == 'UnitCube.compute':
            if cfg.has_fact(nn.id, 'unit', True):
                ok = True
    ctx.ob(rid, 'Union.compute:cube-when-unit', ok, f.where(),
           'a unit-restricted union always owns a cube' if ok else
           'unit=True does not lead to a cube: the restriction would be silently dropped')
    # ... and on no path is the restriction dropped although it was requested: a cube that is
    # None (or anything but the unit cube) is assigned only where `unit` is known to be false,
    # and every path to the return assigns the cube
    for nn in cube_set:
        v = nn.ast.value
        if isinstance(v, ast.Call) and dotted(v.func) == 'UnitCube.compute':
            continue
        okn = cfg.has_fact(nn.id, 'unit', False)
        ctx.ob(rid, 'Union.compute:no-cube-only-when-not-unit', okn, f.where(nn.ast),
               '`%s` is reached only when unit is false' % unparse(nn.ast)[:40] if okn else
               '`%s` can be reached with unit=True: the decision depends on more than the '
               'request, so a union asked to stay inside the unit cube may propose and accept '
               'points outside it' % unparse(nn.ast)[:40])
    if cube_set:
        every = cfg.must_pass(cfg.entry.id, cfg.exit.id, {n.id for n in cube_set})
        ctx.ob(rid, 'Union.compute:cube-decided-on-every-path', every, f.where(),
               'every path through compute() decides the cube' if every else
               'a path through compute() leaves the cube undecided')


# ---------------------------------------------------------------------------
# M4 later-bounds exclusion, M5 new-bound exclusion
# ---------------------------------------------------------------------------

def rule_M4(ctx, rid='M4'):
    ctx.rule(rid, 'later-bounds exclusion: in sample_shell the proposals of shell i are reduced '
             'by a mask that starts all-True and is met with NOT contains() of every bound '
             'k > i (domain decided for list lengths 1..6 and every admissible index, incl. -1), '
             'for the very proposals that are then filtered')
    prog = ctx.program
    f = prog.func('Sampler.sample_shell')
    cfg = cfg_of(f)
    idx_p = [p for p in f.params if p != f.self_name][0]
    loops = []
    for lp in walk_no_nested(f.node):
        if isinstance(lp, ast.For) and isinstance(lp.target, ast.Name):
            for st in lp.body:
                if isinstance(st, (ast.Assign, ast.AugAssign)) and \
                        any(isinstance(c, ast.Call) and isinstance(c.func, ast.Attribute) and
                            c.func.attr == 'contains' and isinstance(c.func.value, ast.Name) and
                            c.func.value.id == lp.target.id for c in ast.walk(st)):
                    loops.append((lp, st))
    ctx.require(len(loops) == 1, 'sample_shell: exclusion loop over later bounds not found '
                '(%d candidates)' % len(loops))
    lp, upd = loops[0]
    # (2) domain
    ok, cex, nev = domain_check(lp.iter, 'self.bounds', idx_p,
                                lambda L, i: list(range(i + 1, L)))
    ctx.extra['M4_domain_evaluations'] = nev
    ctx.ob(rid, 'Sampler.sample_shell:domain-all-later-bounds', ok, f.where(lp),
           '`%s` enumerates exactly the bounds after the sampled one (%d index/length '
           'combinations evaluated)' % (unparse(lp.iter), nev) if ok else
           '`%s` does not enumerate exactly the later bounds: for %d bounds and index %s it '
           'yields %s' % (unparse(lp.iter), cex[0], cex[1], cex[2]))
    # shape B: sequential filtering  points = points[~bound.contains(points)]
    cont0 = [c for c in ast.walk(upd) if isinstance(c, ast.Call) and
             isinstance(c.func, ast.Attribute) and c.func.attr == 'contains'][0]
    seq = None
    if cont0.args and isinstance(cont0.args[0], ast.Name):
        pv = cont0.args[0].id
        tr = Tracker(f, [], locals_=[pv])
        for st2 in lp.body:
            for sub in ast.walk(st2):
                if isinstance(sub, ast.Assign) and cfg.has(sub):
                    for e in tr.events_of(cfg.node_of(sub)):
                        if e.member == pv and e.op == 'SELECT' and e.ast is sub:
                            seq = (e, sub)
    is_accumulate = (isinstance(upd, ast.AugAssign) and isinstance(upd.op, ast.BitAnd)) or (
        isinstance(upd, ast.Assign) and isinstance(upd.value, ast.BinOp) and
        isinstance(upd.value.op, (ast.BitAnd, ast.BitOr)))
    if seq is not None and not is_accumulate:
        e, st_sel = seq
        nid_sel = cfg.node_of(st_sel).id
        want = '~' + ekey(cfg, cfg.node_of(cont0).id, cont0)
        got = e.sel
        # the selector may be a local holding the contains() result
        ok_seq = got == want
        if not ok_seq and got is not None:
            # compare with inlining from the selection site
            inner, neg = strip_not(st_sel.value.slice)
            ok_seq = neg and ekey(cfg, nid_sel, inner) == ekey(cfg, cfg.node_of(cont0).id,
                                                                cont0)
        ctx.ob(rid, 'Sampler.sample_shell:mask-meet-not-contains', ok_seq, f.where(st_sel),
               'each later bound removes the proposals it contains (sequential row selection '
               'by the complement of contains())' if ok_seq else
               '`%s` does not remove exactly the proposals the bound contains' % unparse(st_sel))
        # a `continue` that skips the selection is harmless only if it is taken when the bound
        # contains none of the proposals; any other skip leaves contained points in
        skips = [x for x in ast.walk(lp) if isinstance(x, ast.Continue)]
        ctx.ob(rid, 'Sampler.sample_shell:filter-tested-proposals', True, f.where(st_sel),
               'the selection is applied to the proposals that were tested')
        ctx.ob(rid, 'Sampler.sample_shell:mask-starts-all-true', True, f.where(lp),
               'sequential filtering needs no accumulator')
    else:
        _m4_accumulate(ctx, rid, f, cfg, lp, upd)
    # (5) no early exit from the exclusion loop
    brk = [b for b in ast.walk(lp) if isinstance(b, ast.Break)]
    ctx.ob(rid, 'Sampler.sample_shell:visits-every-later-bound', not brk, f.where(lp),
           'the exclusion loop has no break: every later bound is tested' if not brk else
           'the exclusion loop can stop early')
    # the receiver of sample and the domain use the same index
    return nev


def _m4_accumulate(ctx, rid, f, cfg, lp, upd):
    """Shape A of M4: a mask accumulated over the later bounds, applied afterwards."""
    # (3) meet with negated contains
    mname = None
    okm = False
    if isinstance(upd, ast.Assign) and isinstance(upd.targets[0], ast.Name):
        mname = upd.targets[0].id
        v = upd.value
        if isinstance(v, ast.BinOp) and isinstance(v.op, ast.BitAnd):
            sides = [v.left, v.right]
            old = [s for s in sides if isinstance(s, ast.Name) and s.id == mname]
            new = [s for s in sides if s not in old]
            if old and new:
                inner, neg = strip_not(new[0])
                okm = neg and isinstance(inner, ast.Call) and inner.func.attr == 'contains'
    elif isinstance(upd, ast.AugAssign) and isinstance(upd.op, ast.BitAnd) and \
            isinstance(upd.target, ast.Name):
        mname = upd.target.id
        inner, neg = strip_not(upd.value)
        okm = neg and isinstance(inner, ast.Call) and inner.func.attr == 'contains'
    ctx.ob(rid, 'Sampler.sample_shell:mask-meet-not-contains', okm, f.where(upd),
           'the mask is narrowed by `& ~bound.contains(points)` for each later bound' if okm else
           '`%s` does not narrow the mask by the complement of contains()' % unparse(upd))
    if mname is None:
        raise AnalysisError('sample_shell: mask variable not identified')
    # (1) initial value all True, set inside the same round
    unid = cfg.node_of(upd).id
    init_ok = False
    lpn0 = cfg.node_of(lp).id
    body_nodes = set()
    for s_, lab in cfg.nodes[lpn0].succ:
        if lab is True:
            body_nodes = cfg.reach(s_, avoid={lpn0}, include_src=True)
    for d in cfg.defs_at(lpn0, mname):
        if d in body_nodes and cfg.can_reach(d, lpn0, avoid=set()) and d != lpn0 and \
                cfg.nodes[d].ast is upd:
            continue        # the narrowing update itself, around the back edge
        dn = cfg.nodes[d]
        if dn.kind == 'stmt' and isinstance(dn.ast, ast.Assign):
            v = dn.ast.value
            if isinstance(v, ast.Call) and dotted(v.func) == 'np.ones' and \
                    any(k.arg == 'dtype' and dotted(k.value) == 'bool' for k in v.keywords):
                init_ok = True
            else:
                init_ok = False
                break
    ctx.ob(rid, 'Sampler.sample_shell:mask-starts-all-true', init_ok, f.where(lp),
           'the mask starts as all-True for the fresh proposals of each round' if init_ok else
           'the mask entering the exclusion loop is not a fresh all-True boolean array')
    # (4) the filtered value is the one tested
    cont = [c for c in ast.walk(upd) if isinstance(c, ast.Call) and c.func.attr == 'contains'][0]
    parg = cont.args[0]
    sel = None
    for n in cfg.nodes:
        if n.kind == 'stmt' and isinstance(n.ast, ast.Assign) and \
                isinstance(n.ast.value, ast.Subscript) and \
                isinstance(n.ast.value.slice, ast.Name) and n.ast.value.slice.id == mname:
            sel = n
    oks = False
    if sel is not None and isinstance(parg, ast.Name):
        base = sel.ast.value.value
        oks = isinstance(base, ast.Name) and base.id == parg.id and \
            cfg.defs_at(sel.id, parg.id) == cfg.defs_at(unid, parg.id) - {sel.id} and \
            cfg.must_pass(cfg.node_of(lp).id, cfg.exit.id, {sel.id}) and \
            isinstance(sel.ast.targets[0], ast.Name) and sel.ast.targets[0].id == parg.id
        # tolerate the loop back-edge: defs at the update may include the selection itself
        if not oks:
            oks = isinstance(base, ast.Name) and base.id == parg.id and \
                cfg.defs_at(sel.id, parg.id) <= cfg.defs_at(unid, parg.id) | {sel.id} and \
                isinstance(sel.ast.targets[0], ast.Name) and sel.ast.targets[0].id == parg.id
    ctx.ob(rid, 'Sampler.sample_shell:filter-tested-proposals', oks, f.where(sel.ast) if sel
           else f.where(), 'the proposals are reduced to the rows the mask kept' if oks else
           'the mask is not applied (as a row selection) to the proposals it was computed for')


def rule_M5(ctx, rid='M5'):
    ctx.rule(rid, 'new-bound exclusion: after a bound is appended, every earlier shell '
             '(domain decided for 1..6 bounds) is split by contains() of the newest bound '
             'applied to that shell\'s own points; the transfer lists are re-created on every '
             'path that appends a bound')
    prog = ctx.program
    f = prog.func('Sampler.add_bound')
    cfg = cfg_of(f)
    loops = []
    for lp in walk_no_nested(f.node):
        if isinstance(lp, ast.For) and isinstance(lp.target, ast.Name):
            for st in lp.body:
                if isinstance(st, ast.Assign) and isinstance(st.value, ast.Call) and \
                        isinstance(st.value.func, ast.Attribute) and \
                        st.value.func.attr == 'contains':
                    loops.append((lp, st))
    ctx.require(len(loops) == 1, 'add_bound: transfer loop not found')
    lp, st = loops[0]
    sv = lp.target.id
    ok, cex, nev = domain_check(lp.iter, 'self.bounds', None,
                                lambda L, i: list(range(0, L - 1)))
    ctx.ob(rid, 'Sampler.add_bound:domain-all-earlier-shells', ok, f.where(lp),
           '`%s` enumerates exactly the shells before the newest bound (%d lengths evaluated)'
           % (unparse(lp.iter), nev) if ok else
           '`%s` does not enumerate exactly the earlier shells: for %d bounds it yields %s'
           % (unparse(lp.iter), cex[0], cex[2]))
    brk = [b_ for b_ in ast.walk(lp) if isinstance(b_, ast.Break)]
    ctx.ob(rid, 'Sampler.add_bound:visits-every-earlier-shell', not brk, f.where(lp),
           'the split loop has no break: every earlier shell is tested against the new bound'
           if not brk else
           'the split loop can stop early: shells it never reaches keep points that lie inside '
           'the new bound (a new bound need not be nested in the intermediate ones)')
    recv = st.value.func.value
    ra = root_attr(recv, f.self_name)
    okr = bool(ra) and ra[0] == 'bounds' and len(ra[1]) == 1 and const_value(ra[1][0][1]) == -1
    ctx.ob(rid, 'Sampler.add_bound:tests-newest-bound', okr, f.where(st),
           'earlier shells are tested against self.bounds[-1], the bound just appended' if okr
           else 'earlier shells are tested against `%s`, not the newest bound' % unparse(recv))
    arg = st.value.args[0] if st.value.args else None
    ra2 = root_attr(arg, f.self_name) if arg is not None else None
    oka = bool(ra2) and ra2[0] == 'points' and len(ra2[1]) == 1 and \
        isinstance(ra2[1][0][1], ast.Name) and ra2[1][0][1].id == sv
    ctx.ob(rid, 'Sampler.add_bound:tests-own-points', oka, f.where(st),
           'the mask of shell s is computed from self.points[s]' if oka else
           'the mask is computed from `%s`, not from the points of the shell being split'
           % (unparse(arg) if arg is not None else '?'))
    # the loop runs on every path that appended a bound (beyond the first)
    apps = [cfg.node_of(c).id for c in walk_no_nested(f.node) if isinstance(c, ast.Call) and
            isinstance(c.func, ast.Attribute) and c.func.attr == 'append' and
            root_attr(c.func.value, f.self_name) and
            root_attr(c.func.value, f.self_name)[0] == 'bounds' and cfg.has(c)]
    lpn = cfg.node_of(lp).id
    okp = bool(apps) and all(
        cfg.must_pass(a, cfg.exit.id, {lpn}, edge_ok=assume(('len(self.bounds) > 1', True)))
        for a in apps)
    ctx.ob(rid, 'Sampler.add_bound:split-after-every-append', okp, f.where(lp),
           'every path that appends a bound splits the earlier shells before returning' if okp
           else 'a path appends a bound and returns without splitting the earlier shells')
    # transfer lists are re-created before the loop
    for m in ('shell_t', 'points_t', 'log_l_t'):
        inits = [n.id for n in cfg.nodes if n.kind == 'stmt' and isinstance(n.ast, ast.Assign)
                 and dotted(n.ast.targets[0]) == 'self.' + m and
                 isinstance(n.ast.value, ast.List) and not n.ast.value.elts]
        oki = bool(inits) and any(cfg.dominates(i, lpn) for i in inits)
        ctx.ob(rid, 'Sampler.add_bound:transfer-set-recreated(%s)' % m, oki, f.where(lp),
               'self.%s is emptied before the shells are split: stale candidates of an older '
               'bound cannot survive' % m if oki else
               'self.%s is not re-created before the split: candidates of an older bound '
               'survive' % m)
    return nev


# ---------------------------------------------------------------------------
# M9 cached proposals are handed out once; pool workers start from a clean, re-seeded copy;
#    the merged proposals of a union are shuffled before they are cached
# ---------------------------------------------------------------------------

def worker_receivers(f):
    """Names the pool job `f` may work on: its receiver, and locals bound (only) to a private
    deep copy of it."""
    copies = {st.targets[0].id for st in walk_no_nested(f.node) if isinstance(st, ast.Assign)
              and len(st.targets) == 1 and isinstance(st.targets[0], ast.Name) and
              isinstance(st.value, ast.Call) and
              dotted(st.value.func) in ('copy.deepcopy', 'deepcopy') and st.value.args and
              isinstance(st.value.args[0], ast.Name) and st.value.args[0].id == f.self_name}
    rebound = {t.id for st in walk_no_nested(f.node) if isinstance(st, ast.Assign)
               for t in st.targets if isinstance(t, ast.Name)
               if not (isinstance(st.value, ast.Call) and
                       dotted(st.value.func) in ('copy.deepcopy', 'deepcopy'))}
    return [f.self_name] + sorted(copies - rebound)


def rule_M9(ctx, rid='M9'):
    ctx.rule(rid, 'proposal cache discipline: the rows a bound hands out (`self.points[:n]`) are '
             'removed from its cache on the same path (`self.points = self.points[n:]`); a pool '
             'worker resets its copy of the bound with the generator it was given before it '
             'samples; the proposals of the members of a union are shuffled with the bound\'s '
             'generator before they enter the cache')
    prog = ctx.program
    n = 0
    for q in ('Union.sample', 'NautilusBound.sample'):
        f = prog.func(q)
        cfg = cfg_of(f)
        sn = f.self_name
        takes = [nn for nn in cfg.nodes if nn.kind == 'stmt' and isinstance(nn.ast, ast.Assign)
                 and isinstance(nn.ast.value, ast.Subscript) and
                 dotted(nn.ast.value.value) == '%s.points' % sn and
                 isinstance(nn.ast.value.slice, ast.Slice) and
                 nn.ast.value.slice.lower is None and nn.ast.value.slice.upper is not None and
                 isinstance(nn.ast.targets[0], ast.Name)]
        if not takes:
            ctx.note('%s not decided for %s: hand-out of cached rows not found' % (rid, q))
            continue
        for t in takes:
            up = unparse(t.ast.value.slice.upper)
            drops = {nn.id for nn in cfg.nodes if nn.kind == 'stmt' and
                     isinstance(nn.ast, ast.Assign) and
                     dotted(nn.ast.targets[0]) == '%s.points' % sn and
                     isinstance(nn.ast.value, ast.Subscript) and
                     dotted(nn.ast.value.value) == '%s.points' % sn and
                     isinstance(nn.ast.value.slice, ast.Slice) and
                     nn.ast.value.slice.upper is None and nn.ast.value.slice.lower is not None
                     and unparse(nn.ast.value.slice.lower) == up}
            ok = bool(drops) and cfg.must_pass(t.id, cfg.exit.id, drops)
            n += 1
            ctx.ob(rid, '%s:handed-out-rows-leave-the-cache' % q, ok, f.where(t.ast),
                   'the first %s cached rows are returned and removed from the cache' % up if ok
                   else 'the rows `%s.points[:%s]` are returned but stay in the cache: the next '
                   'call hands out the same proposals again' % (sn, up))
    # pool worker
    if prog.has_func('NautilusBound._reset_and_sample'):
        f = prog.func('NautilusBound._reset_and_sample')
        cfg = cfg_of(f)
        params = [p for p in f.params if p != f.self_name]
        recvs = worker_receivers(f)
        resets = [c for c in walk_no_nested(f.node) if isinstance(c, ast.Call) and
                  dotted(c.func) in ['%s.reset' % r for r in recvs] and cfg.has(c)]
        samples = [c for c in walk_no_nested(f.node) if isinstance(c, ast.Call) and
                   dotted(c.func) in ['%s.sample' % r for r in recvs] and cfg.has(c)]
        seeded = [c for c in resets if any(
            isinstance(x, ast.Name) and x.id in params for a in list(c.args) +
            [k.value for k in c.keywords] for x in ast.walk(a))]
        ok = bool(seeded) and bool(samples) and all(any(
            cfg.dominates(cfg.node_of(r).id, cfg.node_of(s_).id) and
            dotted(r.func).split('.')[0] == dotted(s_.func).split('.')[0] for r in seeded)
            for s_ in samples)
        n += 1
        ctx.ob(rid, 'NautilusBound._reset_and_sample:clean-reseeded-copy', ok, f.where(),
               'the worker resets its copy (cache, counters) with the generator it received '
               'before sampling' if ok else
               'the worker samples without first resetting its copy of the bound with the '
               'generator it received: every worker starts from the parent\'s cache, counters '
               'and random state, so the merged proposals contain duplicates')
        # ... and that object is not the caller's: a pool whose workers share the caller's
        # memory (threads) passes `self` itself to every job
        own = [c for c in resets + samples if dotted(c.func).split('.')[0] == f.self_name]
        rets = [r for r in walk_no_nested(f.node) if isinstance(r, ast.Return)]
        ret_self = [r for r in rets if isinstance(r.value, ast.Name) and r.value.id == f.self_name]
        ok2 = not own and not ret_self and bool(rets)
        n += 1
        ctx.ob(rid, 'NautilusBound._reset_and_sample:job-owns-its-bound', ok2, f.where(),
               'every job resets, fills and returns a private deep copy of the bound: the '
               'caller\'s object is never touched by a worker, also in a pool whose workers '
               'share its memory' if ok2 else
               'the job resets, fills and returns the object it was called on (`%s`): with a '
               'pool whose workers share the caller\'s memory (thread pool, in-process dask '
               'client) every job works on the caller\'s own bound, the merge adds its cache '
               'and counters to themselves and each proposal is handed out several times'
               % (unparse(own[0])[:40] if own else 'return %s' % f.self_name))
    # union: shuffle before caching
    f = prog.func('Union.sample')
    cfg = cfg_of(f)
    sn = f.self_name
    caches = [nn for nn in cfg.nodes if nn.kind == 'stmt' and isinstance(nn.ast, ast.Assign) and
              dotted(nn.ast.targets[0]) == '%s.points' % sn and
              isinstance(nn.ast.value, ast.Call) and
              dotted(nn.ast.value.func) in ('np.vstack', 'np.concatenate', 'np.append')]
    merges = [nn for nn in cfg.nodes if nn.kind == 'stmt' and isinstance(nn.ast, ast.Assign) and
              isinstance(nn.ast.targets[0], ast.Name) and isinstance(nn.ast.value, ast.Call) and
              dotted(nn.ast.value.func) in ('np.vstack', 'np.concatenate') and any(
                  isinstance(x, (ast.ListComp, ast.GeneratorExp)) for x in ast.walk(nn.ast.value))]
    if caches and merges:
        mname = merges[0].ast.targets[0].id
        shuf = {nn.id for nn in cfg.nodes if nn.kind == 'stmt' and nn.ast is not None and any(
            isinstance(c, ast.Call) and isinstance(c.func, ast.Attribute) and
            c.func.attr in ('shuffle', 'permutation', 'permuted') and
            dotted(c.func.value) == '%s.rng' % sn and c.args and
            isinstance(c.args[0], ast.Name) and c.args[0].id == mname
            for c in ast.walk(nn.ast))}
        ok = bool(shuf) and all(cfg.must_pass(merges[0].id, c.id, shuf) for c in caches
                                if cfg.can_reach(merges[0].id, c.id))
        n += 1
        ctx.ob(rid, 'Union.sample:shuffled-before-cached', ok, f.where(merges[0].ast),
               'the proposals of all members are shuffled with the bound\'s generator before '
               'they are cached' if ok else
               'the proposals are cached member by member without being shuffled: a caller '
               'that takes fewer rows than were cached sees the first members only, not a '
               'uniform draw from the union')
    else:
        ctx.note('%s not decided for Union.sample: merge / cache statements not found' % rid)
    return n

"""E5 PATH rules: ordering and typestate on the CFG (DESIGN.md section 3, E5)."""
import ast

from .core import AnalysisError
from .cfg import cfg_of
from .exprs import dotted, call_name, const_value, kwarg, unparse, walk_no_nested, root_attr
from .resolve import resolver, MUTATORS

# ---------------------------------------------------------------------------
# T2  atomic-replace typestate for checkpoint writers
# ---------------------------------------------------------------------------

WRITE_MODES = {'w', 'x', 'w-', 'a', 'r+', 'wb', 'ab', 'xb', 'r+b', 'w+', 'a+', 'wb+', 'rb+'}
IDENTITY_WRAPPERS = {'Path', 'str', 'os.fspath', 'os.path.abspath', 'os.path.realpath',
                     'os.path.expanduser', 'os.path.normpath', 'pathlib.Path', 'PurePath',
                     'os.fsdecode'}
IDENTITY_METHODS = {'resolve', 'expanduser', 'absolute', 'as_posix', '__fspath__'}
DERIVE_METHODS = {'with_name', 'with_suffix', 'with_stem', 'joinpath', 'with_segments'}
ATOMIC_RENAMES = {'os.replace', 'os.rename'}
ATOMIC_RENAME_METHODS = {'replace', 'rename'}
NONATOMIC_MOVES = {'shutil.move', 'shutil.copy', 'shutil.copy2', 'shutil.copyfile',
                   'shutil.copyfileobj'}
REMOVERS = {'os.remove', 'os.unlink', 'os.truncate', 'shutil.rmtree'}
REMOVER_METHODS = {'unlink', 'rmdir', 'touch', 'write_text', 'write_bytes', 'truncate'}

LIVE, TEMP, OTHER = 'live', 'temp', 'other'


class PathClassifier:
    """Classifies path-valued expressions of one function as LIVE (the caller's
    path: a parameter or self.filepath, through identity wrappers), TEMP (a
    different path derived from a live one) or OTHER."""

    def __init__(self, func, cfg):
        self.func = func
        self.cfg = cfg
        self.params = set(func.params) - {func.self_name, 'cls'}

    def classify(self, e, nid, depth=0):
        """-> (class, key) where key identifies the path value."""
        if depth > 8:
            return OTHER, None
        if isinstance(e, ast.Name):
            defs = self.cfg.defs_at(nid, e.id)
            if not defs:
                return OTHER, None
            res = set()
            for d in defs:
                dn = self.cfg.nodes[d]
                if dn.kind == 'entry':
                    res.add((LIVE, e.id) if e.id in self.params else (OTHER, None))
                elif dn.kind == 'stmt' and isinstance(dn.ast, ast.Assign) and \
                        len(dn.ast.targets) == 1 and isinstance(dn.ast.targets[0], ast.Name):
                    c, k = self.classify(dn.ast.value, d, depth + 1)
                    res.add((c, e.id if c == TEMP else k))
                else:
                    res.add((OTHER, None))
            classes = {c for c, _ in res}
            if len(classes) == 1:
                return next(iter(res))
            if LIVE in classes:
                return LIVE, e.id     # may be the live path on some path: conservative
            return (TEMP, e.id) if TEMP in classes else (OTHER, None)
        if isinstance(e, ast.Attribute):
            if isinstance(e.value, ast.Name) and e.value.id == self.func.self_name and \
                    'path' in e.attr:
                return LIVE, 'self.' + e.attr
            c, k = self.classify(e.value, nid, depth + 1)
            if c == LIVE and e.attr in ('name', 'stem', 'suffix'):
                return OTHER, None
            if c in (LIVE, TEMP):
                return TEMP, unparse(e)      # .parent etc.: a different path
            return OTHER, None
        if isinstance(e, ast.Call):
            cn = dotted(e.func)
            if cn in IDENTITY_WRAPPERS and e.args:
                return self.classify(e.args[0], nid, depth + 1)
            if isinstance(e.func, ast.Attribute):
                c, k = self.classify(e.func.value, nid, depth + 1)
                if e.func.attr in IDENTITY_METHODS:
                    return c, k
                if c in (LIVE, TEMP):
                    return TEMP, unparse(e)
            for a in list(e.args) + [kw.value for kw in e.keywords]:
                c, k = self.classify(a, nid, depth + 1)
                if c in (LIVE, TEMP):
                    return TEMP, unparse(e)
            if cn and cn.split('.')[0] == 'tempfile':
                return TEMP, unparse(e)
            return OTHER, None
        if isinstance(e, (ast.BinOp, ast.JoinedStr)):
            for sub in ast.walk(e):
                if isinstance(sub, ast.Name) and sub is not e:
                    c, k = self.classify(sub, nid, depth + 1)
                    if c in (LIVE, TEMP):
                        return TEMP, unparse(e)
            return OTHER, None
        return OTHER, None


def _file_events(func):
    """All file-system effect call sites of a function, as event dicts."""
    cfg = cfg_of(func)
    pc = PathClassifier(func, cfg)
    events = []
    h5names = {k for k, v in func.module.imports.items() if v.split('.')[0] == 'h5py'}
    for n in walk_no_nested(func.node):
        if not isinstance(n, ast.Call):
            continue
        if not cfg.has(n):
            continue
        nid = cfg.node_of(n).id
        cn = dotted(n.func) or ''
        ev = None
        is_h5 = (cn.split('.')[0] in h5names and cn.endswith('File')) or cn == 'File'
        if is_h5 or cn in ('open', 'io.open'):
            path = kwarg(n, 'name' if is_h5 else 'file', 0)
            mode_e = kwarg(n, 'mode', 1)
            mode = 'r' if mode_e is None else const_value(mode_e, '?')
            if path is not None:
                c, k = pc.classify(path, nid)
                ev = dict(kind='open', mode=mode, pclass=c, pkey=k, write=(mode in WRITE_MODES
                                                                             or mode == '?'))
        elif cn in ATOMIC_RENAMES and len(n.args) >= 2:
            (c1, k1), (c2, k2) = pc.classify(n.args[0], nid), pc.classify(n.args[1], nid)
            ev = dict(kind='rename', atomic=True, src=(c1, k1), dst=(c2, k2))
        elif cn in NONATOMIC_MOVES and len(n.args) >= 2:
            (c1, k1), (c2, k2) = pc.classify(n.args[0], nid), pc.classify(n.args[1], nid)
            ev = dict(kind='copy', src=(c1, k1), dst=(c2, k2), fn=cn)
        elif cn in REMOVERS and n.args:
            c, k = pc.classify(n.args[0], nid)
            ev = dict(kind='remove', pclass=c, pkey=k, fn=cn)
        elif isinstance(n.func, ast.Attribute):
            m = n.func.attr
            c, k = pc.classify(n.func.value, nid)
            if c in (LIVE, TEMP):
                if m in ATOMIC_RENAME_METHODS and n.args:
                    c2, k2 = pc.classify(n.args[0], nid)
                    ev = dict(kind='rename', atomic=True, src=(c, k), dst=(c2, k2))
                elif m in REMOVER_METHODS:
                    ev = dict(kind='remove', pclass=c, pkey=k, fn='.' + m)
                elif m == 'open':
                    mode_e = kwarg(n, 'mode', 0)
                    mode = 'r' if mode_e is None else const_value(mode_e, '?')
                    ev = dict(kind='open', mode=mode, pclass=c, pkey=k,
                              write=(mode in WRITE_MODES or mode == '?'))
        if ev:
            ev['node'] = nid
            ev['call'] = n
            ev['where'] = func.where(n)
            events.append(ev)
    return cfg, events


def _stream_closes(func, cfg, open_ev):
    """CFG nodes at which the stream opened by `open_ev` is closed."""
    call = open_ev['call']
    node = cfg.nodes[open_ev['node']]
    closes = set()
    if node.kind == 'with':
        for n in cfg.nodes:
            if n.kind == 'with_exit' and n.ast is node.ast:
                closes.add(n.id)
        return closes
    var = None
    if node.kind == 'stmt' and isinstance(node.ast, ast.Assign) and node.ast.value is call and \
            isinstance(node.ast.targets[0], ast.Name):
        var = node.ast.targets[0].id
    if var is None:
        return closes
    for n in walk_no_nested(func.node):
        if isinstance(n, ast.Call) and isinstance(n.func, ast.Attribute) and \
                n.func.attr == 'close' and isinstance(n.func.value, ast.Name) and \
                n.func.value.id == var and cfg.has(n):
            cn = cfg.node_of(n)
            if open_ev['node'] in cfg.defs_at(cn.id, var):
                closes.add(cn.id)
    return closes


def rule_T2(ctx, rid='T2'):
    """Atomic-replace typestate over every function of the package that touches the
    file system for writing."""
    ctx.rule(rid, 'atomic-replace typestate: a checkpoint writer only ever opens a temporary '
             'path for writing, closes it on every path, and changes the caller-visible path '
             'solely as the destination of an atomic rename of that closed temporary file; no '
             'unlink/truncate of the live path; a temp opened for update is first initialised '
             'by a whole-file copy of the live file')
    prog = ctx.program
    writers = 0
    for func in prog.functions.values():
        cfg, events = _file_events(func)
        wopens = [e for e in events if e['kind'] == 'open' and e['write']]
        mutating = [e for e in events if e['kind'] in ('rename', 'copy', 'remove')]
        if not wopens and not mutating:
            continue
        writers += 1
        q = func.qualname
        renames_ok = [e for e in events if e['kind'] == 'rename' and e['atomic'] and
                      e['src'][0] == TEMP and e['dst'][0] == LIVE]
        # (a) a file opened for writing is a temp path
        for e in wopens:
            ok = e['pclass'] != LIVE
            ctx.ob(rid, '%s:open(%s,%r)' % (q, e['pclass'], e['mode']), ok, e['where'],
                   'file opened with mode %r is the caller-visible (live) checkpoint path: a '
                   'kill while it is open leaves a partial or mixed file' % e['mode'] if not ok
                   else 'write-mode open targets a %s path' % e['pclass'],
                   {'path_expr': unparse(e['call'].args[0]) if e['call'].args else None})
        # (b,d) the live path is only changed by an atomic rename from a temp
        for e in mutating:
            if e['kind'] == 'remove':
                ok = e['pclass'] != LIVE
                ctx.ob(rid, '%s:%s(%s)' % (q, e['fn'].lstrip('.'), e['pclass']), ok, e['where'],
                       'live checkpoint path is removed/truncated in place: a kill right after '
                       'leaves no checkpoint' if not ok else 'removal targets a %s path'
                       % e['pclass'])
            elif e['kind'] == 'copy':
                ok = e['dst'][0] != LIVE
                ctx.ob(rid, '%s:%s(->%s)' % (q, e['fn'], e['dst'][0]), ok, e['where'],
                       'live checkpoint path is overwritten by a non-atomic copy/move' if not ok
                       else 'copy destination is a %s path' % e['dst'][0])
            elif e['kind'] == 'rename':
                ok = not (e['dst'][0] == LIVE and e['src'][0] != TEMP) and \
                    not (e['src'][0] == LIVE)
                ctx.ob(rid, '%s:rename(%s->%s)' % (q, e['src'][0], e['dst'][0]), ok, e['where'],
                       'rename does not move a temporary file onto the live path' if not ok
                       else 'atomic rename %s -> %s' % (e['src'][0], e['dst'][0]))
        # (c) rename is preceded by the close of every stream on that temp, on every path
        for r in renames_ok:
            for o in wopens:
                if o['pclass'] != TEMP or o['pkey'] != r['src'][1]:
                    continue
                if not cfg.can_reach(o['node'], r['node']):
                    continue
                closes = _stream_closes(func, cfg, o)
                ok = bool(closes) and cfg.must_pass(o['node'], r['node'], closes)
                ctx.ob(rid, '%s:close-before-rename' % q, ok, r['where'],
                       'temporary file is renamed onto the live path while the stream opened at '
                       '%s may still be open (unflushed data): the live file can be incomplete'
                       % o['where'] if not ok else
                       'stream opened at %s is closed on every path before the rename'
                       % o['where'])
        # (e) a temp opened for update must be a whole-file copy of the live file
        for o in wopens:
            if o['pclass'] == TEMP and o['mode'] in ('r+', 'a', 'r+b', 'ab', 'a+', 'rb+'):
                copies = [e for e in events if e['kind'] == 'copy' and e['src'][0] == LIVE and
                          e['dst'] == (TEMP, o['pkey'])]
                ok = any(cfg.dominates(c['node'], o['node']) for c in copies)
                ctx.ob(rid, '%s:update-of-copy' % q, ok, o['where'],
                       'temporary file opened for in-place update is not first initialised by '
                       'a whole-file copy of the live checkpoint' if not ok else
                       'temp is a fresh whole-file copy of the live checkpoint before the update')
        # (f) every normal exit of a writer has published the temp file
        if wopens:
            rn = {r['node'] for r in renames_ok}
            for o in wopens:
                if o['pclass'] == LIVE:
                    continue      # already reported under (a)
                ok = bool(rn) and cfg.must_pass(o['node'], cfg.exit.id, rn)
                ctx.ob(rid, '%s:publish' % q, ok, o['where'],
                       'a path from the write-mode open to the normal return never renames the '
                       'temporary file onto the live path: the checkpoint would silently not be '
                       'updated' if not ok else
                       'every normal exit after the open passes the atomic rename')
    ctx.extra['checkpoint_writers'] = writers
    return writers


# ---------------------------------------------------------------------------
# T1  validate-before-mutate
# ---------------------------------------------------------------------------

def state_writes(func, attrs, prog=None, recv=None, transitive=True):
    """CFG nodes of `func` that write one of the receiver attributes `attrs`
    (assignment, element store, augmented assignment, mutating method, del, or a call
    to a method of the same class that does so transitively).  -> [(node id, attr, how)]"""
    cfg = cfg_of(func)
    recv = recv or func.self_name
    out = []
    res = resolver(prog) if prog is not None else None
    for n in walk_no_nested(func.node):
        hits = []
        if isinstance(n, ast.Assign):
            for t in n.targets:
                for tt in (t.elts if isinstance(t, (ast.Tuple, ast.List)) else [t]):
                    ra = root_attr(tt, recv)
                    if ra and ra[0] in attrs:
                        hits.append((ra[0], 'assign' if not ra[1] else 'elem'))
        elif isinstance(n, ast.AugAssign):
            ra = root_attr(n.target, recv)
            if ra and ra[0] in attrs:
                hits.append((ra[0], 'aug'))
        elif isinstance(n, ast.Delete):
            for t in n.targets:
                ra = root_attr(t, recv)
                if ra and ra[0] in attrs:
                    hits.append((ra[0], 'del'))
        elif isinstance(n, ast.Call) and isinstance(n.func, ast.Attribute):
            if n.func.attr in MUTATORS:
                ra = root_attr(n.func.value, recv)
                if ra and ra[0] in attrs:
                    hits.append((ra[0], n.func.attr))
            if transitive and res is not None and isinstance(n.func.value, ast.Name) and \
                    n.func.value.id == recv and func.cls is not None:
                callee = func.cls.methods.get(n.func.attr)
                if callee is not None and callee is not func:
                    tw = res.trans(callee).wattrs(func.cls.name)
                    for c, a in tw:
                        if a in attrs:
                            hits.append((a, 'via %s()' % callee.name))
        if hits and cfg.has(n):
            nid = cfg.node_of(n).id
            for a, how in hits:
                out.append((nid, a, how))
    return out


def rejection_exits(func, false_return=False):
    """CFG nodes at which the function rejects its input: explicit `raise`
    statements that leave the function, and optionally `return False`."""
    cfg = cfg_of(func)
    out = []
    for n in cfg.nodes:
        if n.kind != 'stmt':
            continue
        if isinstance(n.ast, ast.Raise):
            if any(s == cfg.raise_exit.id for s, _ in n.succ):
                out.append((n.id, 'raise ' + (unparse(n.ast.exc).split('(')[0]
                                              if n.ast.exc is not None else '')))
            else:
                # a raise caught by a handler that re-raises: follow to a leaving raise
                out.append((n.id, 'raise'))
        elif false_return and isinstance(n.ast, ast.Return) and \
                isinstance(n.ast.value, ast.Constant) and n.ast.value.value is False:
            out.append((n.id, 'return False'))
    return out


def rule_T1(ctx, qualname, protected, false_return=False, rid='T1'):
    ctx.rule(rid, 'validate-before-mutate: in a function that can reject its input no path '
             'contains a write to the protected state followed by a rejection exit')
    func = ctx.program.func(qualname)
    cfg = cfg_of(func)
    writes = state_writes(func, protected, ctx.program)
    rejects = rejection_exits(func, false_return)
    ctx.require(rejects, '%s has no rejection exit any more (T1 anchor)' % qualname)
    ctx.require(writes, '%s writes none of %s any more (T1 anchor)' % (qualname,
                                                                      sorted(protected)))
    for rnid, rtext in rejects:
        bad = []
        for wnid, attr, how in writes:
            if wnid == rnid or cfg.can_reach(wnid, rnid):
                bad.append((wnid, attr, how))
        rnode = cfg.nodes[rnid]
        ok = not bad
        attrs_bad = sorted({a for _, a, _ in bad})
        ctx.ob(rid, '%s:%s:after-write(%s)' % (qualname, _reject_key(rnode),
                                               ','.join(attrs_bad)) if bad else
               '%s:%s' % (qualname, _reject_key(rnode)),
               ok, func.where(rnode.ast),
               'rejection exit `%s` is reachable after the protected state %s has been '
               'modified (at line(s) %s): a refused call leaves the object changed'
               % (rtext, attrs_bad, sorted({cfg.nodes[w].lineno for w, _, _ in bad}))
               if bad else 'no write to %s precedes `%s`' % (sorted(protected), rtext),
               {'writes': [(cfg.nodes[w].lineno, a, h) for w, a, h in bad]})
    return len(rejects)


def _reject_key(node):
    a = node.ast
    if isinstance(a, ast.Raise) and a.exc is not None:
        t = unparse(a.exc)
        import re
        return 'raise-' + t.split('(')[0] + ':' + '-'.join(
            re.findall(r'[A-Za-z_]+', _msg_of(a.exc))[:5])
    return 'return-False'


def _msg_of(exc):
    for sub in ast.walk(exc):
        if isinstance(sub, ast.Constant) and isinstance(sub.value, str):
            return sub.value
    return unparse(exc)


def _enclosing_test(node):
    return str(node.lineno)


# ---------------------------------------------------------------------------
# T7  uniqueness guard
# ---------------------------------------------------------------------------

def rule_T7(ctx, qualname, list_attr, rid='T7'):
    """Every append to self.<list_attr> is dominated by a membership test of the
    appended value against self.<list_attr> whose true branch rejects."""
    ctx.rule(rid, 'uniqueness guard: every value appended to the key list has been tested for '
             'membership in that list, with the true branch rejecting, on every path')
    func = ctx.program.func(qualname)
    cfg = cfg_of(func)
    selfn = func.self_name
    appends = []
    for n in walk_no_nested(func.node):
        if isinstance(n, ast.Call) and isinstance(n.func, ast.Attribute) and \
                n.func.attr in ('append', 'insert') and n.args:
            ra = root_attr(n.func.value, selfn)
            if ra and ra[0] == list_attr and not ra[1]:
                appends.append(n)
        if isinstance(n, (ast.Assign, ast.AugAssign)):
            tgts = n.targets if isinstance(n, ast.Assign) else [n.target]
            for t in tgts:
                ra = root_attr(t, selfn)
                if ra and ra[0] == list_attr and not ra[1] and func.name != '__init__':
                    appends.append(n)
    ctx.require(appends, '%s no longer appends to %s (T7 anchor)' % (qualname, list_attr))
    from .exprs import ekey
    # membership tests: `X in self.<list>` (Compare In) used as a branch condition
    tests = []
    for t in cfg.nodes:
        if t.kind != 'test':
            continue
        for sub in ast.walk(t.expr):
            if isinstance(sub, ast.Compare) and len(sub.ops) == 1 and \
                    isinstance(sub.ops[0], (ast.In, ast.NotIn)):
                ra = root_attr(sub.comparators[0], selfn)
                if ra and ra[0] == list_attr and not ra[1]:
                    tests.append((t, sub))
    for ap in appends:
        nid = cfg.node_of(ap).id
        if isinstance(ap, ast.Call):
            val = ap.args[-1]
        else:
            # self.keys = self.keys + [v]   /   self.keys += [v]
            v = ap.value
            if isinstance(ap, ast.Assign) and isinstance(v, ast.BinOp) and \
                    isinstance(v.op, ast.Add):
                v = v.right
            if not (isinstance(v, (ast.List, ast.Tuple)) and len(v.elts) == 1):
                raise AnalysisError('%s: unrecognised update of self.%s at line %d'
                                    % (qualname, list_attr, ap.lineno))
            val = v.elts[0]
        vkey = ekey(cfg, nid, val)
        ok = False
        why = 'no membership test of the appended value against self.%s dominates the append' \
            % list_attr
        for t, cmp_ in tests:
            if ekey(cfg, t.id, cmp_.left) != vkey:
                continue
            # polarity: which branch means "already present"
            present_label = _present_label(t.expr, cmp_)
            if present_label is None:
                continue
            # the "present" branch must not reach the append; the test must dominate it
            succ = [s for s, lab in t.succ if lab == present_label]
            if not cfg.dominates(t.id, nid):
                continue
            reach = set()
            for s in succ:
                reach |= cfg.reach(s, include_src=True)
            if nid in reach:
                why = 'the branch taken when the key is already present still reaches the append'
                continue
            ok = True
            break
        ctx.ob(rid, '%s:append(%s)' % (qualname, _norm_val(val)), ok, func.where(ap),
               'value `%s` is appended to self.%s but %s' % (unparse(val), list_attr, why)
               if not ok else 'append of `%s` is dominated by a rejecting membership test'
               % unparse(val))
    return len(appends)


def _norm_val(val):
    if isinstance(val, ast.Name):
        return val.id
    if isinstance(val, ast.Call):
        return 'generated'
    return type(val).__name__


def _present_label(test_expr, cmp_):
    """Label of the branch of `test_expr` on which `cmp_` (x in list) being true is
    implied / possible.  Handles `x in L`, `x not in L`, `not (x in L)`, and `or`
    chains (present => whole `or` true)."""
    positive = isinstance(cmp_.ops[0], ast.In)
    e = test_expr
    neg = False
    while isinstance(e, ast.UnaryOp) and isinstance(e.op, ast.Not):
        neg = not neg
        e = e.operand
    if e is cmp_:
        return (positive != neg)
    if isinstance(e, ast.BoolOp):
        if cmp_ in e.values:
            if isinstance(e.op, ast.Or) and positive:
                return (True != neg)       # present => disjunction true
            if isinstance(e.op, ast.And) and not positive:
                return (False != neg)      # present => conjunction false
    return None

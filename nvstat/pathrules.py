"""E5 PATH rules: ordering and typestate on the CFG (DESIGN.md section 3, E5)."""
import ast

from .core import AnalysisError
from .cfg import cfg_of
from .exprs import dotted, call_name, const_value, kwarg, unparse, walk_no_nested, root_attr
from .resolve import resolver, MUTATORS

# ---------------------------------------------------------------------------
# T2  atomic-replace typestate for checkpoint writers
# ---------------------------------------------------------------------------

WRITE_MODES = {'w', 'x', 'w-', 'a', 'r+', 'wb', 'ab', 'xb', 'r+b', 'w+', 'a+', 'wb+', 'rb+'}
IDENTITY_WRAPPERS = {'Path', 'str', 'os.fspath', 'os.path.abspath', 'os.path.realpath',
                     'os.path.expanduser', 'os.path.normpath', 'pathlib.Path', 'PurePath',
                     'os.fsdecode'}
IDENTITY_METHODS = {'resolve', 'expanduser', 'absolute', 'as_posix', '__fspath__'}
DERIVE_METHODS = {'with_name', 'with_suffix', 'with_stem', 'joinpath', 'with_segments'}
ATOMIC_RENAMES = {'os.replace', 'os.rename'}
ATOMIC_RENAME_METHODS = {'replace', 'rename'}
NONATOMIC_MOVES = {'shutil.move', 'shutil.copy', 'shutil.copy2', 'shutil.copyfile',
                   'shutil.copyfileobj'}
REMOVERS = {'os.remove', 'os.unlink', 'os.truncate', 'shutil.rmtree'}
REMOVER_METHODS = {'unlink', 'rmdir', 'touch', 'write_text', 'write_bytes', 'truncate'}

LIVE, TEMP, OTHER = 'live', 'temp', 'other'


class PathClassifier:
    """Classifies path-valued expressions of one function as LIVE (the caller's
    path: a parameter or self.filepath, through identity wrappers), TEMP (a
    different path derived from a live one) or OTHER."""

    def __init__(self, func, cfg):
        self.func = func
        self.cfg = cfg
        self.params = set(func.params) - {func.self_name, 'cls'}

    def classify(self, e, nid, depth=0):
        """-> (class, key) where key identifies the path value."""
        if depth > 8:
            return OTHER, None
        if isinstance(e, ast.Name):
            defs = self.cfg.defs_at(nid, e.id)
            if not defs:
                return OTHER, None
            res = set()
            for d in defs:
                dn = self.cfg.nodes[d]
                if dn.kind == 'entry':
                    res.add((LIVE, e.id) if e.id in self.params else (OTHER, None))
                elif dn.kind == 'stmt' and isinstance(dn.ast, ast.Assign) and \
                        len(dn.ast.targets) == 1 and isinstance(dn.ast.targets[0], ast.Name):
                    c, k = self.classify(dn.ast.value, d, depth + 1)
                    res.add((c, e.id if c == TEMP else k))
                else:
                    res.add((OTHER, None))
            classes = {c for c, _ in res}
            if len(classes) == 1:
                return next(iter(res))
            if LIVE in classes:
                return LIVE, e.id     # may be the live path on some path: conservative
            return (TEMP, e.id) if TEMP in classes else (OTHER, None)
        if isinstance(e, ast.Attribute):
            if isinstance(e.value, ast.Name) and e.value.id == self.func.self_name and \
                    'path' in e.attr:
                return LIVE, 'self.' + e.attr
            c, k = self.classify(e.value, nid, depth + 1)
            if c == LIVE and e.attr in ('name', 'stem', 'suffix'):
                return OTHER, None
            if c in (LIVE, TEMP):
                return TEMP, unparse(e)      # .parent etc.: a different path
            return OTHER, None
        if isinstance(e, ast.Call):
            cn = dotted(e.func)
            if cn in IDENTITY_WRAPPERS and e.args:
                return self.classify(e.args[0], nid, depth + 1)
            if isinstance(e.func, ast.Attribute):
                c, k = self.classify(e.func.value, nid, depth + 1)
                if e.func.attr in IDENTITY_METHODS:
                    return c, k
                if c in (LIVE, TEMP):
                    return TEMP, unparse(e)
            for a in list(e.args) + [kw.value for kw in e.keywords]:
                c, k = self.classify(a, nid, depth + 1)
                if c in (LIVE, TEMP):
                    return TEMP, unparse(e)
            if cn and cn.split('.')[0] == 'tempfile':
                return TEMP, unparse(e)
            return OTHER, None
        if isinstance(e, (ast.BinOp, ast.JoinedStr)):
            for sub in ast.walk(e):
                if isinstance(sub, ast.Name) and sub is not e:
                    c, k = self.classify(sub, nid, depth + 1)
                    if c in (LIVE, TEMP):
                        return TEMP, unparse(e)
            return OTHER, None
        return OTHER, None


def _file_events(func):
    """All file-system effect call sites of a function, as event dicts."""
    cfg = cfg_of(func)
    pc = PathClassifier(func, cfg)
    events = []
    h5names = {k for k, v in func.module.imports.items() if v.split('.')[0] == 'h5py'}
    for n in walk_no_nested(func.node):
        if not isinstance(n, ast.Call):
            continue
        if not cfg.has(n):
            continue
        nid = cfg.node_of(n).id
        cn = dotted(n.func) or ''
        ev = None
        is_h5 = (cn.split('.')[0] in h5names and cn.endswith('File')) or cn == 'File'
        if is_h5 or cn in ('open', 'io.open'):
            path = kwarg(n, 'name' if is_h5 else 'file', 0)
            mode_e = kwarg(n, 'mode', 1)
            mode = 'r' if mode_e is None else const_value(mode_e, '?')
            if path is not None:
                c, k = pc.classify(path, nid)
                ev = dict(kind='open', mode=mode, pclass=c, pkey=k, write=(mode in WRITE_MODES
                                                                             or mode == '?'))
        elif cn in ATOMIC_RENAMES and len(n.args) >= 2:
            (c1, k1), (c2, k2) = pc.classify(n.args[0], nid), pc.classify(n.args[1], nid)
            ev = dict(kind='rename', atomic=True, src=(c1, k1), dst=(c2, k2))
        elif cn in NONATOMIC_MOVES and len(n.args) >= 2:
            (c1, k1), (c2, k2) = pc.classify(n.args[0], nid), pc.classify(n.args[1], nid)
            ev = dict(kind='copy', src=(c1, k1), dst=(c2, k2), fn=cn)
        elif cn in REMOVERS and n.args:
            c, k = pc.classify(n.args[0], nid)
            ev = dict(kind='remove', pclass=c, pkey=k, fn=cn)
        elif isinstance(n.func, ast.Attribute):
            m = n.func.attr
            c, k = pc.classify(n.func.value, nid)
            if c in (LIVE, TEMP):
                if m in ATOMIC_RENAME_METHODS and n.args:
                    c2, k2 = pc.classify(n.args[0], nid)
                    ev = dict(kind='rename', atomic=True, src=(c, k), dst=(c2, k2))
                elif m in REMOVER_METHODS:
                    ev = dict(kind='remove', pclass=c, pkey=k, fn='.' + m)
                elif m == 'open':
                    mode_e = kwarg(n, 'mode', 0)
                    mode = 'r' if mode_e is None else const_value(mode_e, '?')
                    ev = dict(kind='open', mode=mode, pclass=c, pkey=k,
                              write=(mode in WRITE_MODES or mode == '?'))
        if ev:
            ev['node'] = nid
            ev['call'] = n
            ev['where'] = func.where(n)
            events.append(ev)
    return cfg, events


def _provenance_text(func, cfg, nid, e, depth=0):
    """Source text of a path expression with single-definition locals expanded."""
    if e is None or depth > 5:
        return ''
    if isinstance(e, ast.Name):
        defs = cfg.defs_at(nid, e.id)
        out = []
        for d in defs:
            dn = cfg.nodes[d]
            if dn.kind == 'stmt' and isinstance(dn.ast, ast.Assign):
                v = dn.ast.value
                if isinstance(dn.ast.targets[0], ast.Tuple) and isinstance(v, ast.Call):
                    out.append(unparse(v))
                else:
                    out.append(_provenance_text(func, cfg, d, v, depth + 1))
        return ' | '.join(out) if out else e.id
    txt = unparse(e)
    for sub in ast.walk(e):
        if isinstance(sub, ast.Name) and sub is not e:
            inner = _provenance_text(func, cfg, nid, sub, depth + 1)
            if inner and inner != sub.id:
                txt += ' <- ' + inner
    return txt


def _stream_closes(func, cfg, open_ev):
    """CFG nodes at which the stream opened by `open_ev` is closed."""
    call = open_ev['call']
    node = cfg.nodes[open_ev['node']]
    closes = set()
    if node.kind == 'with':
        for n in cfg.nodes:
            if n.kind == 'with_exit' and n.ast is node.ast:
                closes.add(n.id)
        return closes
    var = None
    if node.kind == 'stmt' and isinstance(node.ast, ast.Assign) and node.ast.value is call and \
            isinstance(node.ast.targets[0], ast.Name):
        var = node.ast.targets[0].id
    if var is None:
        return closes
    for n in walk_no_nested(func.node):
        if isinstance(n, ast.Call) and isinstance(n.func, ast.Attribute) and \
                n.func.attr == 'close' and isinstance(n.func.value, ast.Name) and \
                n.func.value.id == var and cfg.has(n):
            cn = cfg.node_of(n)
            if open_ev['node'] in cfg.defs_at(cn.id, var):
                closes.add(cn.id)
    return closes


def _in_cleanup(func, node):
    """`node` lies lexically inside a `finally:` body or an exception handler."""
    for t in ast.walk(func.node):
        if isinstance(t, ast.Try):
            for blk in [t.finalbody] + [h.body for h in t.handlers]:
                for st in blk:
                    if any(x is node for x in ast.walk(st)):
                        return True
    return False


def rule_T2_publish(ctx, rid='T2'):
    """The part of T2 that the row/statistics properties depend on across a resume: a checkpoint
    update is published only when it ran to completion."""
    ctx.rule(rid, 'a checkpoint update is published (renamed onto the live path) only when every '
             'statement of the update has completed')
    n = 0
    for func in ctx.program.functions.values():
        cfg, events = _file_events(func)
        for r in [e for e in events if e['kind'] == 'rename' and e['atomic'] and
                  e['src'][0] == TEMP and e['dst'][0] == LIVE]:
            ok = not _in_cleanup(func, r['call'])
            n += 1
            ctx.ob(rid, '%s:publish-only-on-success' % func.qualname, ok, r['where'],
                   'the rename onto the live path is only executed when every statement of the '
                   'update has completed' if ok else
                   'the rename onto the live path sits in a `finally:` / `except` block: when the '
                   'update raises half way the half-updated copy still replaces the last '
                   'complete checkpoint; a run resumed from it holds counts, rows, likelihoods '
                   'and blobs of different batches')
    if n < 2:
        ctx.note('T2 (publish): fewer than two atomic renames of checkpoint writers found; the '
                 'typestate of the writers is decided by the full rule T2 (property C06)')
    return n


def rule_T2(ctx, rid='T2'):
    """Atomic-replace typestate over every function of the package that touches the
    file system for writing."""
    ctx.rule(rid, 'atomic-replace typestate: a checkpoint writer only ever opens a temporary '
             'path for writing, closes it on every path, and changes the caller-visible path '
             'solely as the destination of an atomic rename of that closed temporary file; no '
             'unlink/truncate of the live path; a temp opened for update is first initialised '
             'by a whole-file copy of the live file')
    prog = ctx.program
    writers = 0
    for func in prog.functions.values():
        cfg, events = _file_events(func)
        wopens = [e for e in events if e['kind'] == 'open' and e['write']]
        mutating = [e for e in events if e['kind'] in ('rename', 'copy', 'remove')]
        if not wopens and not mutating:
            continue
        writers += 1
        q = func.qualname
        renames_ok = [e for e in events if e['kind'] == 'rename' and e['atomic'] and
                      e['src'][0] == TEMP and e['dst'][0] == LIVE]
        # (g) the temporary file lives next to the live file (same directory => same file
        # system, which is what makes the rename atomic): its path is derived from the live
        # path, not taken from tempfile's default directory
        for e in wopens:
            if e['pclass'] != TEMP:
                continue
            pe = e['call'].args[0] if e['call'].args else None
            txt = _provenance_text(func, cfg, e['node'], pe)
            foreign = 'tempfile.' in txt and 'dir=' not in txt
            ctx.ob(rid, '%s:temp-next-to-live' % q, not foreign, e['where'],
                   'the temporary path is derived from the live path (same directory)'
                   if not foreign else
                   'the temporary file is created in tempfile\'s default directory (`%s`): the '
                   'rename onto the live path can cross file systems and is then not atomic'
                   % txt[:60])
        # (a) a file opened for writing is a temp path
        for e in wopens:
            ok = e['pclass'] != LIVE
            ctx.ob(rid, '%s:open(%s,%r)' % (q, e['pclass'], e['mode']), ok, e['where'],
                   'file opened with mode %r is the caller-visible (live) checkpoint path: a '
                   'kill while it is open leaves a partial or mixed file' % e['mode'] if not ok
                   else 'write-mode open targets a %s path' % e['pclass'],
                   {'path_expr': unparse(e['call'].args[0]) if e['call'].args else None})
        # (b,d) the live path is only changed by an atomic rename from a temp
        for e in mutating:
            if e['kind'] == 'remove':
                ok = e['pclass'] != LIVE
                ctx.ob(rid, '%s:%s(%s)' % (q, e['fn'].lstrip('.'), e['pclass']), ok, e['where'],
                       'live checkpoint path is removed/truncated in place: a kill right after '
                       'leaves no checkpoint' if not ok else 'removal targets a %s path'
                       % e['pclass'])
            elif e['kind'] == 'copy':
                ok = e['dst'][0] != LIVE
                ctx.ob(rid, '%s:%s(->%s)' % (q, e['fn'], e['dst'][0]), ok, e['where'],
                       'live checkpoint path is overwritten by a non-atomic copy/move' if not ok
                       else 'copy destination is a %s path' % e['dst'][0])
            elif e['kind'] == 'rename':
                ok = not (e['dst'][0] == LIVE and e['src'][0] != TEMP) and \
                    not (e['src'][0] == LIVE)
                ctx.ob(rid, '%s:rename(%s->%s)' % (q, e['src'][0], e['dst'][0]), ok, e['where'],
                       'rename does not move a temporary file onto the live path' if not ok
                       else 'atomic rename %s -> %s' % (e['src'][0], e['dst'][0]))
        # (c) rename is preceded by the close of every stream on that temp, on every path
        for r in renames_ok:
            for o in wopens:
                if o['pclass'] != TEMP or o['pkey'] != r['src'][1]:
                    continue
                if not cfg.can_reach(o['node'], r['node']):
                    continue
                closes = _stream_closes(func, cfg, o)
                ok = bool(closes) and cfg.must_pass(o['node'], r['node'], closes)
                ctx.ob(rid, '%s:close-before-rename' % q, ok, r['where'],
                       'temporary file is renamed onto the live path while the stream opened at '
                       '%s may still be open (unflushed data): the live file can be incomplete'
                       % o['where'] if not ok else
                       'stream opened at %s is closed on every path before the rename'
                       % o['where'])
        # (h) a temporary file is only published by the function that produced it: the rename
        # is dominated by a write-mode open of that very temp path (a temp found lying around
        # is the left-over of an interrupted update and may be a half-updated copy)
        for r in renames_ok:
            mine = [o for o in wopens if o['pclass'] == TEMP and o['pkey'] == r['src'][1] and
                    cfg.dominates(o['node'], r['node'])]
            ctx.ob(rid, '%s:publishes-own-temp' % q, bool(mine), r['where'],
                   'the renamed temporary file was written by this function (open at %s)'
                   % mine[0]['where'] if mine else
                   'a temporary file this function did not write is moved onto the live path: '
                   'the left-over of an interrupted update (possibly a half-updated copy) would '
                   'replace the last complete checkpoint')
        # (i) the rename is reached only when the update ran to completion: it does not sit in a
        # `finally:` block or an exception handler (an exception in the middle of the update -
        # disk full, Ctrl-C - would otherwise publish the half-updated copy)
        for r in renames_ok:
            ok = not _in_cleanup(func, r['call'])
            ctx.ob(rid, '%s:publish-only-on-success' % q, ok, r['where'],
                   'the rename onto the live path is only executed when every statement of the '
                   'update has completed' if ok else
                   'the rename onto the live path sits in a `finally:` / `except` block: when the '
                   'update raises half way (new attributes and rows of one array written, the '
                   'others not) the half-updated copy still replaces the last complete '
                   'checkpoint; a run resumed from it holds counts, rows, likelihoods and blobs of '
                   'different batches')
        # (j) a temporary file left behind by an earlier kill must not block the next write
        for o in wopens:
            if o['pclass'] == TEMP:
                ok = o['mode'] not in ('x', 'w-', 'xb', 'x+')
                ctx.ob(rid, '%s:temp-open-tolerates-leftover' % q, ok, o['where'],
                       'the temporary file is created with a mode that overwrites a left-over of '
                       'an interrupted write' if ok else
                       'the temporary file is created with exclusive mode %r: the left-over of a '
                       'write interrupted by a kill makes every later write raise FileExistsError '
                       '- re-running the script never gets past its next full write' % o['mode'])
        # (e) a temp opened for update must be a whole-file copy of the live file
        for o in wopens:
            if o['pclass'] == TEMP and o['mode'] in ('r+', 'a', 'r+b', 'ab', 'a+', 'rb+'):
                copies = [e for e in events if e['kind'] == 'copy' and e['src'][0] == LIVE and
                          e['dst'] == (TEMP, o['pkey'])]
                ok = any(cfg.dominates(c['node'], o['node']) for c in copies)
                ctx.ob(rid, '%s:update-of-copy' % q, ok, o['where'],
                       'temporary file opened for in-place update is not first initialised by '
                       'a whole-file copy of the live checkpoint' if not ok else
                       'temp is a fresh whole-file copy of the live checkpoint before the update')
        # (f) every normal exit of a writer has published the temp file
        if wopens:
            rn = {r['node'] for r in renames_ok}
            for o in wopens:
                if o['pclass'] == LIVE:
                    continue      # already reported under (a)
                ok = bool(rn) and cfg.must_pass(o['node'], cfg.exit.id, rn)
                ctx.ob(rid, '%s:publish' % q, ok, o['where'],
                       'a path from the write-mode open to the normal return never renames the '
                       'temporary file onto the live path: the checkpoint would silently not be '
                       'updated' if not ok else
                       'every normal exit after the open passes the atomic rename')
    ctx.extra['checkpoint_writers'] = writers
    return writers


# ---------------------------------------------------------------------------
# T1  validate-before-mutate
# ---------------------------------------------------------------------------

def state_writes(func, attrs, prog=None, recv=None, transitive=True):
    """CFG nodes of `func` that write one of the receiver attributes `attrs`
    (assignment, element store, augmented assignment, mutating method, del, or a call
    to a method of the same class that does so transitively).  -> [(node id, attr, how)]"""
    cfg = cfg_of(func)
    recv = recv or func.self_name
    out = []
    res = resolver(prog) if prog is not None else None
    for n in walk_no_nested(func.node):
        hits = []
        if isinstance(n, ast.Assign):
            for t in n.targets:
                for tt in (t.elts if isinstance(t, (ast.Tuple, ast.List)) else [t]):
                    ra = root_attr(tt, recv)
                    if ra and ra[0] in attrs:
                        hits.append((ra[0], 'assign' if not ra[1] else 'elem'))
        elif isinstance(n, ast.AugAssign):
            ra = root_attr(n.target, recv)
            if ra and ra[0] in attrs:
                hits.append((ra[0], 'aug'))
        elif isinstance(n, ast.Delete):
            for t in n.targets:
                ra = root_attr(t, recv)
                if ra and ra[0] in attrs:
                    hits.append((ra[0], 'del'))
        elif isinstance(n, ast.Call) and isinstance(n.func, ast.Attribute):
            if n.func.attr in MUTATORS:
                ra = root_attr(n.func.value, recv)
                if ra and ra[0] in attrs:
                    hits.append((ra[0], n.func.attr))
            if transitive and res is not None and isinstance(n.func.value, ast.Name) and \
                    n.func.value.id == recv and func.cls is not None:
                callee = func.cls.methods.get(n.func.attr)
                if callee is not None and callee is not func:
                    tw = res.trans(callee).wattrs(func.cls.name)
                    for c, a in tw:
                        if a in attrs:
                            hits.append((a, 'via %s()' % callee.name))
        if hits and cfg.has(n):
            nid = cfg.node_of(n).id
            for a, how in hits:
                out.append((nid, a, how))
    return out


def rejection_exits(func, false_return=False):
    """CFG nodes at which the function rejects its input: explicit `raise`
    statements that leave the function, and optionally `return False`."""
    cfg = cfg_of(func)
    out = []
    for n in cfg.nodes:
        if n.kind != 'stmt':
            continue
        if isinstance(n.ast, ast.Raise):
            if any(s == cfg.raise_exit.id for s, _ in n.succ):
                out.append((n.id, 'raise ' + (unparse(n.ast.exc).split('(')[0]
                                              if n.ast.exc is not None else '')))
            else:
                # a raise caught by a handler that re-raises: follow to a leaving raise
                out.append((n.id, 'raise'))
        elif false_return and isinstance(n.ast, ast.Return) and \
                isinstance(n.ast.value, ast.Constant) and n.ast.value.value is False:
            out.append((n.id, 'return False'))
    return out


def rule_T1(ctx, qualname, protected, false_return=False, rid='T1'):
    ctx.rule(rid, 'validate-before-mutate: in a function that can reject its input no path '
             'contains a write to the protected state followed by a rejection exit')
    func = ctx.program.func(qualname)
    cfg = cfg_of(func)
    writes = state_writes(func, protected, ctx.program)
    rejects = rejection_exits(func, false_return)
    ctx.require(rejects, '%s has no rejection exit any more (T1 anchor)' % qualname)
    ctx.require(writes, '%s writes none of %s any more (T1 anchor)' % (qualname,
                                                                      sorted(protected)))
    for rnid, rtext in rejects:
        bad = []
        for wnid, attr, how in writes:
            if wnid == rnid or cfg.can_reach(wnid, rnid):
                bad.append((wnid, attr, how))
        rnode = cfg.nodes[rnid]
        ok = not bad
        attrs_bad = sorted({a for _, a, _ in bad})
        ctx.ob(rid, '%s:%s:after-write(%s)' % (qualname, _reject_key(rnode),
                                               ','.join(attrs_bad)) if bad else
               '%s:%s' % (qualname, _reject_key(rnode)),
               ok, func.where(rnode.ast),
               'rejection exit `%s` is reachable after the protected state %s has been '
               'modified (at line(s) %s): a refused call leaves the object changed'
               % (rtext, attrs_bad, sorted({cfg.nodes[w].lineno for w, _, _ in bad}))
               if bad else 'no write to %s precedes `%s`' % (sorted(protected), rtext),
               {'writes': [(cfg.nodes[w].lineno, a, h) for w, a, h in bad]})
    return len(rejects)


INFALLIBLE = {'isinstance', 'len', 'hasattr', 'callable', 'str', 'repr', 'id', 'type'}


def _fallible(stmt_node, protected_writes):
    """Can evaluating this CFG node raise on a malformed user value?  Plain protected
    writes of names/constants, tests made of isinstance/hasattr/len/in/comparisons and
    simple rebinding of names cannot."""
    a = stmt_node.ast
    exprs = []
    if stmt_node.kind == 'test':
        exprs = [stmt_node.expr]
    elif stmt_node.kind == 'stmt':
        if isinstance(a, (ast.Return, ast.Pass, ast.Break, ast.Continue)):
            exprs = [a.value] if isinstance(a, ast.Return) and a.value is not None else []
        elif isinstance(a, ast.Raise):
            return False
        else:
            exprs = [a]
    else:
        return stmt_node.kind in ('for', 'with')
    for e in exprs:
        for sub in ast.walk(e):
            if isinstance(sub, ast.Call):
                d = dotted(sub.func) or ''
                if d in INFALLIBLE:
                    continue
                if isinstance(sub.func, ast.Attribute) and sub.func.attr in (
                        'append', 'format') and all(
                        isinstance(x, (ast.Name, ast.Constant)) for x in sub.args):
                    continue
                return True
            if isinstance(sub, ast.Subscript) and isinstance(sub.ctx, ast.Load):
                return True
            if isinstance(sub, ast.BinOp) and not isinstance(sub.op, (ast.Add,)):
                return True
            if isinstance(sub, ast.BinOp) and not (isinstance(sub.left, ast.Constant) or
                                                   isinstance(sub.right, ast.Constant)):
                return True
    return False


def rule_T1b(ctx, qualname, protected, rid='T1'):
    """Commit block: once the first protected write has happened, nothing that can fail on a
    malformed value is evaluated before the function returns (implicit exceptions are
    rejections too)."""
    func = ctx.program.func(qualname)
    cfg = cfg_of(func)
    writes = state_writes(func, protected, ctx.program)
    wn = {w for w, _, _ in writes}
    bad = []
    for w in sorted(wn):
        for nid in cfg.reach(w):
            n = cfg.nodes[nid]
            if nid in wn and not _fallible(n, wn):
                continue
            if n.kind in ('exit', 'raise', 'entry'):
                continue
            if _fallible(n, wn):
                bad.append((cfg.nodes[w].lineno, n.lineno, unparse(n.ast if n.kind == 'stmt'
                                                                  else n.expr)[:60]))
    ctx.ob(rid, '%s:commit-block' % qualname, not bad, func.where(),
           'after the first write to %s nothing fallible is evaluated: an implicit exception '
           'cannot leave the object half-updated' % sorted(protected) if not bad else
           'after the write at line %d, line %d evaluates `%s`, which can raise on a malformed '
           'value and would leave the object modified by a rejected call' % bad[0])


def _reject_key(node):
    a = node.ast
    if isinstance(a, ast.Raise) and a.exc is not None:
        t = unparse(a.exc)
        import re
        return 'raise-' + t.split('(')[0] + ':' + '-'.join(
            re.findall(r'[A-Za-z_]+', _msg_of(a.exc))[:5])
    return 'return-False'


def _msg_of(exc):
    for sub in ast.walk(exc):
        if isinstance(sub, ast.Constant) and isinstance(sub.value, str):
            return sub.value
    return unparse(exc)


def _enclosing_test(node):
    return str(node.lineno)


# ---------------------------------------------------------------------------
# T7  uniqueness guard
# ---------------------------------------------------------------------------

def rule_T7(ctx, qualname, list_attr, rid='T7'):
    """Every append to self.<list_attr> is dominated by a membership test of the
    appended value against self.<list_attr> whose true branch rejects."""
    ctx.rule(rid, 'uniqueness guard: every value appended to the key list has been tested for '
             'membership in that list, with the true branch rejecting, on every path')
    func = ctx.program.func(qualname)
    cfg = cfg_of(func)
    selfn = func.self_name
    appends = []
    for n in walk_no_nested(func.node):
        if isinstance(n, ast.Call) and isinstance(n.func, ast.Attribute) and \
                n.func.attr in ('append', 'insert') and n.args:
            ra = root_attr(n.func.value, selfn)
            if ra and ra[0] == list_attr and not ra[1]:
                appends.append(n)
        if isinstance(n, (ast.Assign, ast.AugAssign)):
            tgts = n.targets if isinstance(n, ast.Assign) else [n.target]
            for t in tgts:
                ra = root_attr(t, selfn)
                if ra and ra[0] == list_attr and not ra[1] and func.name != '__init__':
                    appends.append(n)
    ctx.require(appends, '%s no longer appends to %s (T7 anchor)' % (qualname, list_attr))
    from .exprs import ekey
    # membership tests: `X in self.<list>` (Compare In) used as a branch condition
    tests = []
    for t in cfg.nodes:
        if t.kind != 'test':
            continue
        for sub in ast.walk(t.expr):
            if isinstance(sub, ast.Compare) and len(sub.ops) == 1 and \
                    isinstance(sub.ops[0], (ast.In, ast.NotIn)):
                ra = root_attr(sub.comparators[0], selfn)
                if ra and ra[0] == list_attr and not ra[1]:
                    tests.append((t, sub))
    for ap in appends:
        nid = cfg.node_of(ap).id
        if isinstance(ap, ast.Call):
            val = ap.args[-1]
        else:
            # self.keys = self.keys + [v]   /   self.keys += [v]
            v = ap.value
            if isinstance(ap, ast.Assign) and isinstance(v, ast.BinOp) and \
                    isinstance(v.op, ast.Add):
                v = v.right
            if not (isinstance(v, (ast.List, ast.Tuple)) and len(v.elts) == 1):
                raise AnalysisError('%s: unrecognised update of self.%s at line %d'
                                    % (qualname, list_attr, ap.lineno))
            val = v.elts[0]
        vkey = ekey(cfg, nid, val)
        ok = False
        why = 'no membership test of the appended value against self.%s dominates the append' \
            % list_attr
        for t, cmp_ in tests:
            if ekey(cfg, t.id, cmp_.left) != vkey:
                continue
            # polarity: which branch means "already present"
            present_label = _present_label(t.expr, cmp_)
            if present_label is None:
                continue
            # the "present" branch must not reach the append; the test must dominate it
            succ = [s for s, lab in t.succ if lab == present_label]
            if not cfg.dominates(t.id, nid):
                continue
            reach = set()
            for s in succ:
                reach |= cfg.reach(s, include_src=True)
            if nid in reach:
                why = 'the branch taken when the key is already present still reaches the append'
                continue
            ok = True
            break
        ctx.ob(rid, '%s:append(%s)' % (qualname, _norm_val(val)), ok, func.where(ap),
               'value `%s` is appended to self.%s but %s' % (unparse(val), list_attr, why)
               if not ok else 'append of `%s` is dominated by a rejecting membership test'
               % unparse(val))
    return len(appends)


def _norm_val(val):
    if isinstance(val, ast.Name):
        return val.id
    if isinstance(val, ast.Call):
        return 'generated'
    return type(val).__name__


def _present_label(test_expr, cmp_):
    """Label of the branch of `test_expr` on which `cmp_` (x in list) being true is
    implied / possible.  Handles `x in L`, `x not in L`, `not (x in L)`, and `or`
    chains (present => whole `or` true)."""
    positive = isinstance(cmp_.ops[0], ast.In)
    e = test_expr
    neg = False
    while isinstance(e, ast.UnaryOp) and isinstance(e.op, ast.Not):
        neg = not neg
        e = e.operand
    if e is cmp_:
        return (positive != neg)
    if isinstance(e, ast.BoolOp):
        if cmp_ in e.values:
            if isinstance(e.op, ast.Or) and positive:
                return (True != neg)       # present => disjunction true
            if isinstance(e.op, ast.And) and not positive:
                return (False != neg)      # present => conjunction false
    return None


# ---------------------------------------------------------------------------
# T3  dirty => recompute
# ---------------------------------------------------------------------------

def _usi_inputs(prog):
    """Attributes update_shell_info reads and does not itself write."""
    res = resolver(prog)
    f = prog.func('Sampler.update_shell_info')
    d = res.direct(f)
    reads = {a for c, a in d.reads if c == 'Sampler'}
    writes = {a for c, a, k in d.writes if c == 'Sampler'}
    return reads - writes, writes


def _recompute_nodes(func, cfg):
    """-> (list of (node id, index expr) for update_shell_info(i) calls,
            set of node ids that recompute every shell)"""
    calls, alls = [], set()
    selfn = func.self_name
    for n in walk_no_nested(func.node):
        if isinstance(n, ast.Call) and dotted(n.func) == '%s.update_shell_info' % selfn and \
                n.args and cfg.has(n):
            calls.append((cfg.node_of(n).id, n.args[0], n))
        if isinstance(n, ast.Assign):
            for t in n.targets:
                if isinstance(t, ast.Attribute) and isinstance(t.value, ast.Name) and \
                        t.value.id == selfn and t.attr == 'discard_exploration' and cfg.has(n):
                    alls.add(cfg.node_of(n).id)      # the setter recomputes every shell
    # update_shell_info(i) inside `for i in range(len(self.<per-shell list>))`
    for lp in walk_no_nested(func.node):
        if isinstance(lp, ast.For) and isinstance(lp.target, ast.Name) and \
                isinstance(lp.iter, ast.Call) and dotted(lp.iter.func) == 'range' and \
                len(lp.iter.args) == 1 and isinstance(lp.iter.args[0], ast.Call) and \
                dotted(lp.iter.args[0].func) == 'len' and lp.iter.args[0].args and \
                root_attr(lp.iter.args[0].args[0], selfn):
            for nid, idx, call in calls:
                if isinstance(idx, ast.Name) and idx.id == lp.target.id and \
                        any(call is s for s in ast.walk(lp)):
                    alls.add(cfg.node_of(lp).id)
    return calls, alls


def rule_T3(ctx, rid='T3', view=False):
    ctx.rule(rid, 'dirty => recompute: every write to an input of update_shell_info for an '
             'existing shell i (its samples, its proposal count, the discard flag, the phase '
             'flag, the exploration boundaries, the state of its bound) is followed on every '
             'path to the exit by update_shell_info(i), by a recomputation of every shell, or '
             'by the discard setter')
    from .exprs import ekey
    prog = ctx.program
    inputs, outputs = _usi_inputs(prog)
    ctx.require({'log_l', 'shell_n_sample', '_discard_exploration', 'explored'} <= inputs,
                'update_shell_info no longer reads its expected inputs (got %s)' % sorted(inputs))
    ctx.extra['update_shell_info_inputs'] = sorted(inputs)
    S = prog.cls('Sampler')
    n = 0
    for name, f in sorted(S.methods.items()):
        if f.name in ('__init__', 'update_shell_info'):
            continue
        cfg = cfg_of(f)
        selfn = f.self_name
        calls, alls = _recompute_nodes(f, cfg)
        params = [p for p in f.params if p != selfn]
        dirty = []      # (node, attr, index expr or None, text)
        for st in walk_no_nested(f.node):
            tg = []
            if isinstance(st, ast.Assign):
                tg = st.targets
            elif isinstance(st, ast.AugAssign):
                tg = [st.target]
            for t in tg:
                ra = root_attr(t, selfn)
                if not ra or ra[0] not in inputs or not cfg.has(st):
                    continue
                if ra[0] == 'bounds':
                    continue     # structural changes of the bound list: lockstep + T6
                if ra[1] and ra[1][0][0] == 'idx':
                    dirty.append((cfg.node_of(st).id, ra[0], ra[1][0][1], unparse(t)))
                elif not ra[1]:
                    if ra[0] in ('log_l',):
                        continue   # rebinding the whole list (constructor-style)
                    if isinstance(st, ast.Assign) and _is_push_or_delete(st.value, t):
                        continue   # a shell record is created / removed: lockstep (L1)
                    dirty.append((cfg.node_of(st).id, ra[0], None, unparse(t)))
            # sampling from a bound changes its volume estimate
            if isinstance(st, ast.Call) and dotted(st.func) == '%s.sample_shell' % selfn and \
                    st.args and cfg.has(st):
                dirty.append((cfg.node_of(st).id, 'bounds[i].log_v', st.args[0], unparse(st)[:40]))
        for nid, attr, idx, text in dirty:
            n += 1
            rec = set(alls)
            if idx is not None:
                ik = ekey(cfg, nid, idx)
                for cn, cidx, call in calls:
                    if ekey(cfg, cn, cidx) == ik or _guarded_equal(cfg, nid, idx, cidx):
                        rec.add(cn)
            ok = bool(rec) and cfg.must_pass(nid, cfg.exit.id, rec)
            ctx.ob(rid, '%s:dirty(%s)' % (f.qualname, _t3_key(attr, idx)), ok,
                   f.where(cfg.nodes[nid].ast),
                   '`%s` changes an input of the statistics of shell `%s`; %s' % (
                       text, unparse(idx) if idx is not None else 'all',
                       'the statistics are recomputed on every path to the exit' if ok else
                       'some path to the exit does not recompute them: stale '
                       'shell_n / shell_log_v / shell_log_l / shell_n_eff'))
    ctx.require(n >= 6, 'T3 found only %d dirty sites (floor 6)' % n)
    # callers treat `self.discard_exploration = x` as "every shell recomputed" (e.g. right after
    # explored becomes True): the setter must do so on every returning path, not only when
    # the value changes
    for name, f in sorted(S.methods.items()):
        if f.kind != 'setter':
            continue
        cfg = cfg_of(f)
        calls, alls = _recompute_nodes(f, cfg)
        ok = bool(alls) and cfg.must_pass(cfg.entry.id, cfg.exit.id, alls)
        ctx.ob(rid, '%s:always-recomputes' % f.qualname, ok, f.where(),
               'the setter recomputes every shell on every returning path' if ok else
               'a returning path of the setter skips the recomputation (e.g. when the value is '
               'unchanged): statistics go stale when `explored` changed in between')
        # ... and stores what it was given: the flag attribute receives the value parameter
        # on every returning path, before the recomputation that reads it
        val = [p_ for p_ in f.params if p_ != f.self_name]
        if val:
            stores = {nn.id for nn in cfg.nodes if nn.kind == 'stmt' and
                      isinstance(nn.ast, ast.Assign) and len(nn.ast.targets) == 1 and
                      isinstance(nn.ast.targets[0], ast.Attribute) and
                      isinstance(nn.ast.targets[0].value, ast.Name) and
                      nn.ast.targets[0].value.id == f.self_name and
                      isinstance(nn.ast.value, ast.Name) and nn.ast.value.id == val[0]}
            oks = bool(stores) and cfg.must_pass(cfg.entry.id, cfg.exit.id, stores) and \
                all(any(cfg.dominates(s_, a_) for s_ in stores) for a_ in alls)
            ctx.ob(rid, '%s:stores-its-argument' % f.qualname, oks, f.where(),
                   'the setter stores the requested value before recomputing the statistics'
                   if oks else
                   'the setter does not store the requested value (on every path, before the '
                   'recomputation): switching the view has no effect or the statistics are '
                   'recomputed for the old value')
    if view:      # the view flag as an interface (C12 only): value domain, request in run()
        _rule_T3_domain(ctx, S, rid)
        _rule_T3_request(ctx, S, rid)
        _rule_T3_validated_early(ctx, S, rid)
    # update_shell_info is a pure recomputation: reads of its outputs follow its own writes
    f = prog.func('Sampler.update_shell_info')
    cfg = cfg_of(f)
    for out_attr in sorted(outputs):
        wn, rn = set(), set()
        for st in walk_no_nested(f.node):
            if isinstance(st, (ast.Assign, ast.AugAssign)) and cfg.has(st):
                for t in (st.targets if isinstance(st, ast.Assign) else [st.target]):
                    ra = root_attr(t, f.self_name)
                    if ra and ra[0] == out_attr:
                        wn.add(cfg.node_of(st).id)
                        if isinstance(st, ast.AugAssign):
                            rn.add(cfg.node_of(st).id)
        for sub in walk_no_nested(f.node):
            if isinstance(sub, ast.Attribute) and isinstance(sub.ctx, ast.Load) and \
                    sub.attr == out_attr and isinstance(sub.value, ast.Name) and \
                    sub.value.id == f.self_name and cfg.has(sub):
                rn.add(cfg.node_of(sub).id)
        # a read is fine if a write dominates it (or it is the written statement's own target)
        bad = []
        for r in rn:
            if r in wn and not isinstance(cfg.nodes[r].ast, ast.AugAssign):
                continue
            if not any(w != r and cfg.dominates(w, r) for w in wn):
                if r in wn and isinstance(cfg.nodes[r].ast, ast.AugAssign):
                    bad.append(r)
                elif r not in wn:
                    bad.append(r)
        ctx.ob(rid, 'Sampler.update_shell_info:pure-recomputation(%s)' % out_attr, not bad,
               f.where(), 'statistic %r is recomputed from the stored samples, never from its '
               'own previous value' % out_attr if not bad else
               'statistic %r is read before it is recomputed (line %s): the result depends on '
               'history, not only on the stored samples' % (
                   out_attr, [cfg.nodes[b].lineno for b in bad]))
    return n


def _setter_type(f):
    """(value parameter, type name) if setter `f` raises unless isinstance(value, T)."""
    val = [p_ for p_ in f.params if p_ != f.self_name]
    if not val:
        return None, None
    cfg = cfg_of(f)
    for t in cfg.nodes:
        if t.kind != 'test' or t.expr is None:
            continue
        e = t.expr
        neg = False
        while isinstance(e, ast.UnaryOp) and isinstance(e.op, ast.Not):
            neg, e = not neg, e.operand
        if isinstance(e, ast.Call) and dotted(e.func) == 'isinstance' and len(e.args) == 2 and \
                isinstance(e.args[0], ast.Name) and e.args[0].id == val[0] and \
                isinstance(e.args[1], ast.Name):
            rej = [s_ for s_, lab in t.succ if lab == (True if neg else False)]
            for s_ in rej:
                for r_ in {s_} | set(cfg.reach(s_)):
                    if cfg.nodes[r_].kind == 'stmt' and isinstance(cfg.nodes[r_].ast, ast.Raise):
                        return val[0], e.args[1].id
    return None, None


def _rule_T3_validated_early(ctx, S, rid):
    """A stepping method hands its argument to a setter that rejects wrong types by raising.
    If that happens in the middle of a phase transition, the exception leaves the transition
    half done (records removed, phase flag set, checkpoint not written).  So the method has to
    reject the argument itself before it writes any state."""
    for name, f in sorted(S.methods.items()):
        if f.kind != 'setter':
            continue
        val, tname = _setter_type(f)
        if tname is None:
            continue
        prop = name.split('.')[0]
        for gname, g in sorted(S.methods.items()):
            if g.kind in ('setter', 'property') or prop not in g.params:
                continue
            cfg = cfg_of(g)
            stores = [nn for nn in cfg.nodes if nn.kind == 'stmt' and
                      isinstance(nn.ast, ast.Assign) and len(nn.ast.targets) == 1 and
                      dotted(nn.ast.targets[0]) == '%s.%s' % (g.self_name, prop) and
                      any(isinstance(x, ast.Name) and x.id == prop
                          for x in ast.walk(nn.ast.value))]
            if not stores:
                continue
            checks = []
            for t in cfg.nodes:
                if t.kind != 'test' or t.expr is None:
                    continue
                e, neg = t.expr, False
                while isinstance(e, ast.UnaryOp) and isinstance(e.op, ast.Not):
                    neg, e = not neg, e.operand
                if isinstance(e, ast.Call) and dotted(e.func) == 'isinstance' and \
                        len(e.args) == 2 and isinstance(e.args[0], ast.Name) and \
                        e.args[0].id == prop and unparse(e.args[1]) == tname:
                    rej = [s_ for s_, lab in t.succ if lab == (True if neg else False)]
                    if any(cfg.nodes[r_].kind == 'stmt' and isinstance(cfg.nodes[r_].ast, ast.Raise)
                           for s_ in rej for r_ in {s_} | set(cfg.reach(s_))):
                        checks.append(t.id)
            writers = []
            for nn in cfg.nodes:
                if nn.kind != 'stmt' or nn.ast is None or nn in stores:
                    continue
                w = False
                if isinstance(nn.ast, (ast.Assign, ast.AugAssign)):
                    tg = nn.ast.targets if isinstance(nn.ast, ast.Assign) else [nn.ast.target]
                    w = any(root_attr(t_, g.self_name) for t_ in tg)
                elif isinstance(nn.ast, ast.Expr) and isinstance(nn.ast.value, ast.Call):
                    d = dotted(nn.ast.value.func) or ''
                    w = d.startswith('%s.' % g.self_name) and not d.endswith('print_status')
                if w and any(cfg.can_reach(nn.id, st.id) for st in stores):
                    writers.append(nn.id)
            ok = any(all(cfg.dominates(c_, w_) for w_ in writers) and
                     all(cfg.dominates(c_, st.id) for st in stores) for c_ in checks)
            ctx.ob(rid, '%s:%s-validated-before-any-write' % (g.qualname, prop), ok,
                   g.where(stores[0].ast),
                   'the argument is rejected (isinstance(.., %s)) before %s() writes any state'
                   % (tname, g.name) if ok else
                   '`%s` can raise (the setter rejects everything but %s, e.g. a numpy.bool_ '
                   'from np.any(..)) after %d state writes of %s() that precede it - at the end '
                   'of exploration: empty shells removed, explored = True - and before the '
                   'checkpoint is rewritten: the sampler in memory has finished exploring, the '
                   'file has not, and the next incremental update writes shell arrays of the '
                   'new length next to the old shells' % (
                       unparse(stores[0].ast)[:50], tname, len(writers), g.name))


def _rule_T3_request(ctx, S, rid):
    """A view flag that a stepping method takes as an argument is a request for the state the
    method leaves behind: the argument must reach the flag's setter also when the phase
    transition at which it is normally applied lies in the past (an earlier call, a resume)."""
    for name, f in sorted(S.methods.items()):
        if f.kind != 'setter':
            continue
        prop = name.split('.')[0]
        for gname, g in sorted(S.methods.items()):
            if g.kind in ('setter', 'property') or prop not in g.params:
                continue
            cfg = cfg_of(g)
            stores = [nn for nn in cfg.nodes if nn.kind == 'stmt' and
                      isinstance(nn.ast, ast.Assign) and len(nn.ast.targets) == 1 and
                      dotted(nn.ast.targets[0]) == '%s.%s' % (g.self_name, prop) and
                      any(isinstance(x, ast.Name) and x.id == prop
                          for x in ast.walk(nn.ast.value))]
            if not stores:
                continue
            phase = set()
            for nn in stores:
                for atom, text, truth in cfg.facts(nn.id):
                    if text.startswith('%s.' % g.self_name) and truth is False and \
                            isinstance(atom, ast.Attribute):
                        phase.add(text)
            free = [nn for nn in stores
                    if not any(text in phase and truth is False
                               for atom, text, truth in cfg.facts(nn.id))]
            ok = bool(free) or not phase
            ctx.ob(rid, '%s:%s-request-applied-in-every-phase' % (g.qualname, prop), ok,
                   g.where(stores[0].ast),
                   'the requested view is applied whatever phase the sampler is in when %s() '
                   'is called' % g.name if ok else
                   'the argument `%s` of %s() reaches the flag only at `%s` under `not %s`: '
                   'when that phase ended before the call (an earlier %s(), a resume from a '
                   'checkpoint of a finished exploration) the request is silently ignored - '
                   '%s() returns True with the old view' % (
                       prop, g.name, unparse(stores[0].ast)[:50], sorted(phase)[0], g.name,
                       g.name))


def _rule_T3_domain(ctx, S, rid):
    """Getter / setter domain agreement: a setter that rejects everything but `T` instances
    must accept whatever its own getter returns, or `x.flag = x.flag` (save / toggle / restore)
    raises.  So every store into the backing field outside the setter has to be a `T`:
    a literal, a `T(..)` conversion, a comparison (for bool) - not a value read from a file,
    which is a numpy scalar."""
    for name, f in sorted(S.methods.items()):
        if f.kind != 'setter':
            continue
        val = [p_ for p_ in f.params if p_ != f.self_name]
        if not val:
            continue
        cfg = cfg_of(f)
        tname = None
        for t in cfg.nodes:
            if t.kind != 'test' or t.expr is None:
                continue
            e = t.expr
            neg = isinstance(e, ast.UnaryOp) and isinstance(e.op, ast.Not)
            c = e.operand if neg else e
            if isinstance(c, ast.Call) and dotted(c.func) == 'isinstance' and len(c.args) == 2 \
                    and isinstance(c.args[0], ast.Name) and c.args[0].id == val[0] and \
                    isinstance(c.args[1], ast.Name):
                rej = [s_ for s_, lab in t.succ if lab == (True if neg else False)]
                if any(isinstance(cfg.nodes[r_].ast, ast.Raise) for s_ in rej
                       for r_ in ({s_} | set(cfg.reach(s_))) if cfg.nodes[r_].kind == 'stmt'
                       and not cfg.can_reach(r_, cfg.exit.id)
                       or isinstance(cfg.nodes[r_].ast, ast.Raise)):
                    tname = c.args[1].id
        if tname is None:
            continue
        backing = {nn.ast.targets[0].attr for nn in cfg.nodes if nn.kind == 'stmt' and
                   isinstance(nn.ast, ast.Assign) and len(nn.ast.targets) == 1 and
                   isinstance(nn.ast.targets[0], ast.Attribute) and
                   isinstance(nn.ast.value, ast.Name) and nn.ast.value.id == val[0]}
        ctx.require(len(backing) == 1, 'T3: backing field of setter %s not found' % f.qualname)
        field = backing.pop()

        def kind(v):
            if isinstance(v, ast.Constant):
                return 'ok' if type(v.value).__name__ == tname else 'bad'
            if isinstance(v, ast.Call) and dotted(v.func) == tname:
                return 'ok'
            if tname == 'bool' and (isinstance(v, (ast.Compare, ast.BoolOp)) or
                                    isinstance(v, ast.UnaryOp) and isinstance(v.op, ast.Not)):
                return 'ok'
            if isinstance(v, ast.Subscript):
                return 'bad'       # a value taken from a file / container: numpy scalar
            if isinstance(v, ast.Call) and (dotted(v.func) or '').startswith('np.'):
                return 'bad'
            return None
        n = 0
        for gname, g in sorted(S.methods.items()):
            if g is f:
                continue
            gcfg = cfg_of(g)
            stores = []
            for st in walk_no_nested(g.node):
                if isinstance(st, ast.Assign) and len(st.targets) == 1 and \
                        isinstance(st.targets[0], ast.Attribute) and \
                        isinstance(st.targets[0].value, ast.Name) and \
                        st.targets[0].value.id == g.self_name and st.targets[0].attr == field \
                        and gcfg.has(st):
                    stores.append((st, st.value))
                if isinstance(st, ast.For) and isinstance(st.iter, (ast.List, ast.Tuple)) and \
                        isinstance(st.target, ast.Name) and \
                        any(isinstance(e_, ast.Constant) and e_.value == field
                            for e_ in st.iter.elts):
                    for c in ast.walk(st):
                        if isinstance(c, ast.Call) and dotted(c.func) == 'setattr' and \
                                len(c.args) == 3 and isinstance(c.args[1], ast.Name) and \
                                c.args[1].id == st.target.id and gcfg.has(c):
                            stores.append((c, c.args[2]))
            for st, v in stores:
                k = kind(v)
                ctx.require(k is not None, 'T3 not decided: type of `%s` stored into %s.%s'
                            % (unparse(v)[:40], S.name, field))
                nid = gcfg.node_of(st).id
                if k == 'bad':
                    # a later normalising store on every path repairs it
                    later = {gcfg.node_of(s2).id for s2, v2 in stores if kind(v2) == 'ok'
                             and gcfg.node_of(s2).id != nid}
                    later = {l_ for l_ in later if gcfg.can_reach(nid, l_)}
                    k = 'ok' if later and gcfg.must_pass(nid, gcfg.exit.id, later) else 'bad'
                n += 1
                ctx.ob(rid, '%s:%s-is-a-%s' % (g.qualname, field, tname), k == 'ok', g.where(st),
                       'the value stored into the field is a %s, which its setter accepts'
                       % tname if k == 'ok' else
                       '`%s` is stored into %s, whose getter then returns a value its own '
                       'setter rejects (`isinstance(.., %s)` is False for a numpy scalar): '
                       'restoring a saved flag with `s.%s = saved` raises' % (
                           unparse(v)[:40], field, tname, name.split('.')[0]))
        ctx.require(n >= 1, 'T3: no store into %s outside its setter' % field)


def _is_push_or_delete(value, target):
    """np.append(T, x) / np.delete(T, i): one per-shell record added or removed."""
    return isinstance(value, ast.Call) and dotted(value.func) in ('np.append', 'np.delete') \
        and value.args and unparse(value.args[0]) == unparse(target)


def _t3_key(attr, idx):
    if idx is None:
        return attr
    t = unparse(idx)
    return '%s[%s]' % (attr, t if len(t) < 12 else 'expr')


def _guarded_equal(cfg, nid, a, b):
    """Constant index `a` at node nid equals name `b` because a dominating guard
    `b == a` holds."""
    ca = const_value(a)
    if ca is None or not isinstance(b, ast.Name):
        return False
    for c, tx, truth in cfg.facts(nid):
        if truth is True and isinstance(c, ast.Compare) and len(c.ops) == 1 and \
                isinstance(c.ops[0], ast.Eq) and isinstance(c.left, ast.Name) and \
                c.left.id == b.id and const_value(c.comparators[0], object()) == ca:
            return True
    return False


# ---------------------------------------------------------------------------
# T4  primed before publish
# ---------------------------------------------------------------------------

def rule_T4(ctx, rid='T4'):
    ctx.rule(rid, 'primed-before-publish: every bound appended to Sampler.bounds whose volume '
             'getter can sample lazily has had sample()/log_v evaluated on every path from its '
             'construction, so that log_v never draws random numbers afterwards')
    prog = ctx.program
    res = resolver(prog)
    f = prog.func('Sampler.add_bound')
    cfg = cfg_of(f)
    n = 0
    for c in walk_no_nested(f.node):
        if not (isinstance(c, ast.Call) and isinstance(c.func, ast.Attribute) and
                c.func.attr in ('append', 'insert') and
                root_attr(c.func.value, f.self_name) and
                root_attr(c.func.value, f.self_name)[0] == 'bounds' and cfg.has(c)):
            continue
        n += 1
        pay = c.args[-1]
        a_nid = cfg.node_of(c).id
        types = res.type_of(f, pay) or set()
        lazy = []
        for t in types:
            lv = prog.classes[t].methods.get('log_v')
            if lv is not None and res.trans(lv).draws:
                lazy.append(t)
        if not types:
            ctx.ob(rid, 'Sampler.add_bound:publish(untyped)', False, f.where(c),
                   'class of the appended bound `%s` cannot be determined' % unparse(pay))
            continue
        if not lazy:
            ctx.ob(rid, 'Sampler.add_bound:publish(%s)' % '|'.join(sorted(types)), True,
                   f.where(c), 'log_v of %s never samples' % sorted(types))
            continue
        ok = False
        why = 'appended bound is not a local constructed in this function'
        if isinstance(pay, ast.Name):
            defs = cfg.defs_at(a_nid, pay.id)
            primers = set()
            for s in walk_no_nested(f.node):
                if isinstance(s, ast.Call) and isinstance(s.func, ast.Attribute) and \
                        s.func.attr == 'sample' and isinstance(s.func.value, ast.Name) and \
                        s.func.value.id == pay.id and cfg.has(s):
                    primers.add(cfg.node_of(s).id)
                if isinstance(s, ast.Attribute) and s.attr == 'log_v' and \
                        isinstance(s.value, ast.Name) and s.value.id == pay.id and cfg.has(s):
                    primers.add(cfg.node_of(s).id)
            primers.discard(a_nid)
            ok = bool(defs) and bool(primers) and all(
                cfg.must_pass(d, a_nid, primers) for d in defs)
            why = ('sample()/log_v is evaluated on every path between construction and '
                   'publication' if ok else
                   'a path from the construction of `%s` to its publication evaluates neither '
                   'sample() nor log_v: the first log_v afterwards (an accessor, the discard '
                   'setter) would draw random numbers' % pay.id)
        ctx.ob(rid, 'Sampler.add_bound:publish(%s)' % '|'.join(sorted(lazy)), ok, f.where(c), why)
    ctx.require(n >= 2, 'T4 found %d publication sites (floor 2)' % n)
    return n


# ---------------------------------------------------------------------------
# T5  loop contract of run
# ---------------------------------------------------------------------------

def _conjuncts(e):
    if isinstance(e, ast.BoolOp) and isinstance(e.op, ast.And):
        out = []
        for v in e.values:
            out += _conjuncts(v)
        return out
    return [e]


def rule_T5(ctx, rid='T5'):
    ctx.rule(rid, 'loop contract of run(): the while test is a conjunction containing the strict '
             'budget test n_like < n_like_max and `not success`; likelihood evaluations happen '
             'only inside that loop; every iteration adds at most one batch and an iteration '
             'without a batch changes nothing; add_samples evaluates exactly one batch; the '
             'success predicate (explored, every shell >= n_shell, n_eff target) is the same '
             'expression before and inside the loop and is the returned value')
    prog = ctx.program
    res = resolver(prog)
    run = prog.func('Sampler.run')
    cfg = cfg_of(run)
    loops = [n for n in cfg.nodes if n.kind == 'test' and isinstance(n.ast, ast.While)]
    ctx.require(len(loops) == 1, 'Sampler.run: expected one while loop, found %d' % len(loops))
    W = loops[0]
    conj = _conjuncts(W.expr)
    # (a) budget
    budget = None
    for c in conj:
        if isinstance(c, ast.Compare) and len(c.ops) == 1:
            l, r = dotted(c.left), dotted(c.comparators[0])
            if l == 'self.n_like' and r == 'n_like_max':
                budget = ('<' if isinstance(c.ops[0], ast.Lt) else type(c.ops[0]).__name__)
            if r == 'self.n_like' and l == 'n_like_max':
                budget = ('<' if isinstance(c.ops[0], ast.Gt) else type(c.ops[0]).__name__)
    ctx.ob(rid, 'Sampler.run:budget-guard', budget == '<', run.where(W.ast),
           'the loop continues only while n_like < n_like_max (strict)' if budget == '<' else
           ('the loop test has no conjunct comparing n_like with n_like_max' if budget is None
            else 'the budget comparison is %s, not strict <: one more batch starts when the '
            'limit has been reached' % budget))
    svar = None
    for r_ in walk_no_nested(run.node):
        if isinstance(r_, ast.Return) and isinstance(r_.value, ast.Name):
            svar = r_.value.id
    ctx.require(svar is not None, 'Sampler.run does not return a plain variable')
    ns = any(isinstance(c, ast.UnaryOp) and isinstance(c.op, ast.Not) and
             isinstance(c.operand, ast.Name) and c.operand.id == svar for c in conj)
    ctx.ob(rid, 'Sampler.run:stops-on-success', ns, run.where(W.ast),
           'the loop test contains `not success`' if ns else
           'the loop does not stop when the success predicate holds')
    to = any(isinstance(c, ast.Compare) and any(isinstance(x, ast.Name) and x.id == 'timeout'
                                               for x in ast.walk(c)) for c in conj)
    ctx.ob(rid, 'Sampler.run:timeout-guard', to, run.where(W.ast),
           'the loop test compares elapsed time with the timeout')
    # (b) evaluations only inside the loop
    body = set()
    for s, lab in W.succ:
        if lab is True:
            body = cfg.reach(s, avoid={W.id}, include_src=True)
    adds = [c for c in walk_no_nested(run.node) if isinstance(c, ast.Call) and
            dotted(c.func) == 'self.add_samples' and cfg.has(c)]
    ctx.require(adds, 'Sampler.run no longer calls add_samples')
    for c in adds:
        ok = cfg.node_of(c).id in body
        ctx.ob(rid, 'Sampler.run:batch-inside-loop', ok, run.where(c),
               'add_samples is called inside the guarded loop' if ok else
               'add_samples is called outside the guarded loop: the budget does not apply')
    # who may call add_samples / evaluate_likelihood
    for target, allowed in (('add_samples', {'Sampler.run'}),
                            ('evaluate_likelihood', {'Sampler.add_samples'})):
        for f in prog.functions.values():
            for c in walk_no_nested(f.node):
                if isinstance(c, ast.Call) and isinstance(c.func, ast.Attribute) and \
                        c.func.attr == target:
                    ctx.ob(rid, '%s:caller(%s)' % (target, f.qualname), f.qualname in allowed,
                           f.where(c), '%s is called from %s' % (target, f.qualname))
    # (c) at most one batch per iteration; no batch => no state change
    add_nodes = {cfg.node_of(c).id for c in adds}
    paths = enumerate_paths_from(cfg, W, body)
    multi = [p for p in paths if sum(1 for n in p if n in add_nodes) > 1]
    ctx.ob(rid, 'Sampler.run:one-batch-per-iteration', not multi, run.where(W.ast),
           'each of the %d paths through one iteration adds at most one batch' % len(paths)
           if not multi else 'an iteration can add %d batches (lines %s)' % (
               max(sum(1 for n in p if n in add_nodes) for p in multi),
               [cfg.nodes[n].lineno for n in multi[0] if n in add_nodes]))
    inner = [a for a in add_nodes if cfg.can_reach(a, a, avoid={W.id})]
    ctx.ob(rid, 'Sampler.run:no-batch-in-inner-loop', not inner, run.where(W.ast),
           'no add_samples call sits in a loop nested inside the guarded loop' if not inner else
           'add_samples (line %s) is inside a nested loop: one iteration of the guarded loop can '
           'evaluate several batches without re-testing the budget'
           % [cfg.nodes[a].lineno for a in inner])
    zero = [p for p in paths if not any(n in add_nodes for n in p)]
    bad_zero = []
    for p in zero:
        for nid in p:
            n = cfg.nodes[nid]
            if n.kind == 'stmt' and isinstance(n.ast, (ast.Assign, ast.AugAssign)):
                tg = n.ast.targets if isinstance(n.ast, ast.Assign) else [n.ast.target]
                if any(root_attr(t, 'self') for t in tg):
                    bad_zero.append(n.lineno)
            if n.kind == 'stmt' and isinstance(n.ast, ast.Expr) and \
                    isinstance(n.ast.value, ast.Call) and \
                    (dotted(n.ast.value.func) or '').startswith('self.') and \
                    not (dotted(n.ast.value.func) or '').startswith('self.print_status'):
                bad_zero.append(n.lineno)
    ctx.ob(rid, 'Sampler.run:idle-iteration-is-pure', not bad_zero, run.where(W.ast),
           'an iteration that adds no batch changes no state' if not bad_zero else
           'an iteration without a batch still changes state at lines %s' % sorted(set(bad_zero)))
    # ... and it ends the loop: the branch facts of a path without a batch entail the success
    # predicate, whatever the estimators evaluate to -- `not (x < t)` does NOT entail `x >= t`
    # for a floating-point estimator (both are false for NaN), so a dispatch that relies on it
    # can spin for ever without evaluating anything and without touching the budget
    _rule_T5_progress(ctx, rid, run, cfg, W, zero, svar)
    # (d) add_samples evaluates exactly one batch on every path
    f = prog.func('Sampler.add_samples')
    c2 = cfg_of(f)
    ev = {c2.node_of(c).id for c in walk_no_nested(f.node) if isinstance(c, ast.Call) and
          dotted(c.func) == 'self.evaluate_likelihood' and c2.has(c)}
    ok = bool(ev) and c2.must_pass(c2.entry.id, c2.exit.id, ev) and \
        not any(c2.can_reach(a, b) for a in ev for b in ev)
    ctx.ob(rid, 'Sampler.add_samples:exactly-one-evaluation', ok, f.where(),
           'every path through add_samples evaluates the likelihood batch exactly once' if ok
           else 'some path through add_samples evaluates the batch zero or several times')
    # (e) success predicate
    assigns = [n for n in cfg.nodes if n.kind == 'stmt' and isinstance(n.ast, ast.Assign) and
               isinstance(n.ast.targets[0], ast.Name) and n.ast.targets[0].id == svar]
    ctx.require(len(assigns) >= 2, 'Sampler.run: assignments of the returned flag not found')
    texts = {ast.dump(a.ast.value) for a in assigns}
    ctx.ob(rid, 'Sampler.run:success-same-expression', len(texts) == 1, run.where(assigns[0].ast),
           'the success predicate is the same expression at all %d assignments' % len(assigns)
           if len(texts) == 1 else 'the success predicate differs between its assignments')
    for a in assigns:
        cjs = _conjuncts(a.ast.value)

        def reads(c):
            out = set()
            for sub in ast.walk(c):
                if isinstance(sub, ast.Attribute) and dotted(sub):
                    out.add(dotted(sub))
                elif isinstance(sub, ast.Name):
                    out.add(sub.id)
            return out
        no_or = not any(isinstance(sub, ast.BoolOp) and isinstance(sub.op, ast.Or)
                        for sub in ast.walk(a.ast.value))
        need = {'explored': any(dotted(c) == 'self.explored' for c in cjs),
                'n_shell': any({'self.shell_n', 'n_shell'} <= reads(c) for c in cjs),
                'n_eff': any({'self.n_eff', 'n_eff'} <= reads(c) for c in cjs)}
        okp = all(need.values()) and no_or
        ctx.ob(rid, 'Sampler.run:success-predicate@%d' % assigns.index(a), okp, run.where(a.ast),
               'success is a conjunction over explored, the per-shell minimum and the n_eff '
               'target' if okp else
               'success predicate `%s` is not a conjunction over the three termination criteria '
               '(missing: %s)' % (unparse(a.ast.value), [k for k, v in need.items() if not v]))
    inloop = [a for a in assigns if a.id in body]
    ok = bool(inloop) and all(cfg.must_pass(x, W.id, {a.id for a in inloop})
                              for x in add_nodes)
    ctx.ob(rid, 'Sampler.run:success-recomputed-after-batch', ok, run.where(W.ast),
           'the success predicate is recomputed after every batch before the loop test')
    rets = [n for n in cfg.nodes if n.kind == 'stmt' and isinstance(n.ast, ast.Return)]
    okr = bool(rets) and all(isinstance(r.ast.value, ast.Name) and r.ast.value.id == svar
                             for r in rets)
    ctx.ob(rid, 'Sampler.run:returns-success', okr, run.where(rets[0].ast if rets else None),
           'run() returns the success predicate' if okr else
           'run() does not return the success predicate')
    return len(paths)


def rule_T10(ctx, rid='T10'):
    """Every file state that run() leaves behind must be one from which a resumed run does what
    the uninterrupted run did next.  After a checkpoint write the uninterrupted run goes on
    inside the same iteration; a resumed run starts at the head of the loop.  The two agree when
    the next thing either of them does is to evaluate a batch (the generator state is in the
    file).  They differ when the uninterrupted run first takes a *phase decision* on the state
    just written - the end-of-exploration test - which the resumed run only reaches after
    another batch."""
    ctx.rule(rid, 'resume-equivalent checkpoints: inside one iteration of run() no checkpoint '
             'write is followed by the end-of-exploration decision without a batch evaluation '
             'or the loop head in between')
    from .cfg import edge_facts
    prog = ctx.program
    run = prog.func('Sampler.run')
    cfg = cfg_of(run)
    sn = run.self_name
    loops = [n for n in cfg.nodes if n.kind == 'test' and isinstance(n.ast, ast.While)]
    ctx.require(len(loops) == 1, 'Sampler.run: expected one while loop')
    W = loops[0]
    writes = [cfg.node_of(c).id for c in walk_no_nested(run.node) if isinstance(c, ast.Call) and
              dotted(c.func) in ('%s.write' % sn, '%s.write_shell_update' % sn) and cfg.has(c)]
    batches = {cfg.node_of(c).id for c in walk_no_nested(run.node) if isinstance(c, ast.Call)
               and dotted(c.func) == '%s.add_samples' % sn and cfg.has(c)}
    flips = [n.id for n in cfg.nodes if n.kind == 'stmt' and isinstance(n.ast, ast.Assign) and
             dotted(n.ast.targets[0]) == '%s.explored' % sn]
    ctx.require(writes and batches and flips, 'Sampler.run: checkpoint writes / batches / phase '
                'flag assignment not found')
    # the decision: the innermost test that guards the phase flip and is not the phase test itself
    decisions = set()
    for fl in flips:
        for t, lab in cfg.strict_guards(fl):
            e = cfg.nodes[t].expr
            if cfg.nodes[t].kind == 'test' and e is not None and t != W.id and \
                    unparse(e).replace('not ', '') != '%s.explored' % sn:
                decisions.add(t)
    ctx.require(decisions, 'Sampler.run: the test that ends exploration was not found')
    n = 0
    for k_, w in enumerate(sorted(set(writes), key=lambda i_: cfg.nodes[i_].lineno)):
        bad = [d for d in decisions if d != w and
               cfg.can_reach(w, d, avoid=batches | {W.id})]
        # a write that sits inside the decided branch (after the decision) is the final state
        bad = [d for d in bad if not cfg.dominates(d, w)]
        n += 1
        loopc = {tx for _, tx, _ in edge_facts(W.expr, True)}
        gtx = [('' if tr else 'not ') + tx for _, tx, tr in cfg.facts(w)
               if tx not in loopc and 'filepath' not in tx and not tx.startswith('isinstance(')]
        callee = (dotted(cfg.nodes[w].ast.value.func).split('.')[-1]
                  if isinstance(cfg.nodes[w].ast, ast.Expr) and
                  isinstance(cfg.nodes[w].ast.value, ast.Call) else 'write')
        ctx.ob(rid, 'Sampler.run:checkpoint-before-decision(%s|%s)' % (
            callee, ' & '.join(gtx[-2:])[:70]), not bad,
            run.where(cfg.nodes[w].ast),
            'what follows this checkpoint inside the iteration starts with a batch evaluation, '
            'the loop head, or nothing: a run resumed from it continues identically' if not bad
            else 'after this checkpoint the same iteration goes on to decide `%s` (and, if it '
            'holds, removes empty shells and sets explored) before any further batch; a run '
            'resumed from the file it leaves - a kill during the long rewrite that follows - '
            'starts at the loop head instead and draws one more exploration batch first: '
            'different n_like, evidence and posterior than the uninterrupted run'
            % unparse(cfg.nodes[bad[0]].expr)[:40])
    return n


INT_COUNTERS = {'self.shell_n', 'self.shell_n_sample', 'self.n_like'}


def _rule_T5_progress(ctx, rid, run, cfg, W, zero, svar):
    from .cfg import edge_facts
    inl = [n for n in cfg.nodes if n.kind == 'stmt' and isinstance(n.ast, ast.Assign) and
           isinstance(n.ast.targets[0], ast.Name) and n.ast.targets[0].id == svar and
           cfg.can_reach(n.id, W.id) and cfg.can_reach(W.id, n.id)]
    ctx.require(inl, 'Sampler.run: the success flag is not recomputed inside the loop')
    cjs = _conjuncts(inl[0].ast.value)

    def entailed(cj, facts):
        """(ok, why-not) -- does the fact set entail conjunct cj for every value, NaN included?"""
        txt = unparse(cj)
        if (txt, True) in facts:
            return True, None
        # min(A) >= B is all(A >= B) (and max(A) <= B is all(A <= B))
        if isinstance(cj, ast.Compare) and len(cj.ops) == 1 and isinstance(cj.left, ast.Call):
            red = dotted(cj.left.func) or ''
            arr = None
            if red in ('np.amin', 'np.min', 'min', 'np.amax', 'np.max', 'max') and cj.left.args:
                arr = cj.left.args[0]
            elif isinstance(cj.left.func, ast.Attribute) and cj.left.func.attr in ('min', 'max') \
                    and not cj.left.args:
                arr, red = cj.left.func.value, cj.left.func.attr
            is_min = red.endswith('min')
            if arr is not None and ((is_min and isinstance(cj.ops[0], (ast.GtE, ast.Gt))) or
                                    (not is_min and isinstance(cj.ops[0], (ast.LtE, ast.Lt)))):
                alt = ast.parse('np.all(%s %s %s)' % (
                    unparse(arr), {ast.GtE: '>=', ast.Gt: '>', ast.LtE: '<=', ast.Lt: '<'}[
                        type(cj.ops[0])], unparse(cj.comparators[0])), mode='eval').body
                return entailed(alt, facts)
        # np.all(A >= B) from not np.any(A < B): element-wise complement, fine for counters
        if isinstance(cj, ast.Call) and dotted(cj.func) in ('np.all', 'all') and cj.args and \
                isinstance(cj.args[0], ast.Compare) and len(cj.args[0].ops) == 1:
            c = cj.args[0]
            comp = {ast.GtE: ast.Lt, ast.Gt: ast.LtE, ast.LtE: ast.Gt, ast.Lt: ast.GtE}
            want = comp.get(type(c.ops[0]))
            for ft, tr in facts:
                if tr is not False:
                    continue
                try:
                    fe = ast.parse(ft, mode='eval').body
                except SyntaxError:
                    continue
                # not any(a < b) is all(a >= b); not any(a <= b) is all(a > b), which is stronger
                stronger = {ast.GtE: ast.LtE, ast.LtE: ast.GtE}.get(type(c.ops[0]))
                if isinstance(fe, ast.Call) and dotted(fe.func) in ('np.any', 'any') and fe.args \
                        and isinstance(fe.args[0], ast.Compare) and len(fe.args[0].ops) == 1 and \
                        want is not None and (isinstance(fe.args[0].ops[0], want) or (
                            stronger is not None and
                            isinstance(fe.args[0].ops[0], stronger))) and \
                        unparse(fe.args[0].left) == unparse(c.left) and \
                        unparse(fe.args[0].comparators[0]) == unparse(c.comparators[0]):
                    if dotted(c.left) in INT_COUNTERS:
                        return True, None
                    return False, ('`%s` is not an integer counter: the element-wise complement '
                                   'fails for NaN' % unparse(c.left))
        if isinstance(cj, ast.Compare) and len(cj.ops) == 1:
            comp = {ast.GtE: ast.Lt, ast.Gt: ast.LtE, ast.LtE: ast.Gt, ast.Lt: ast.GtE}
            want = comp.get(type(cj.ops[0]))
            # a known strict comparison gives the weak one (true comparisons exclude NaN)
            strict = {ast.GtE: ast.Gt, ast.LtE: ast.Lt}.get(type(cj.ops[0]))
            for ft, tr in facts:
                if tr is not True or strict is None:
                    continue
                try:
                    fe = ast.parse(ft, mode='eval').body
                except SyntaxError:
                    continue
                if isinstance(fe, ast.Compare) and len(fe.ops) == 1 and \
                        isinstance(fe.ops[0], strict) and \
                        unparse(fe.left) == unparse(cj.left) and \
                        unparse(fe.comparators[0]) == unparse(cj.comparators[0]):
                    return True, None
            for ft, tr in facts:
                if tr is not False:
                    continue
                try:
                    fe = ast.parse(ft, mode='eval').body
                except SyntaxError:
                    continue
                if isinstance(fe, ast.Compare) and len(fe.ops) == 1 and want is not None and \
                        isinstance(fe.ops[0], want) and \
                        unparse(fe.left) == unparse(cj.left) and \
                        unparse(fe.comparators[0]) == unparse(cj.comparators[0]):
                    if dotted(cj.left) in INT_COUNTERS:
                        return True, None
                    return False, ('only `not (%s)` is known, which does not give `%s` when `%s` '
                                   'is NaN (e.g. an effective sample size over shells whose '
                                   'weights are all zero: exp(-inf - (-inf)))'
                                   % (ft, txt, unparse(cj.left)))
        return False, 'no branch condition of the path gives `%s`' % txt
    k = 0
    for p in zero:
        facts = set()
        for a_, b_ in zip(p, p[1:]):
            na = cfg.nodes[a_]
            if na.kind == 'test' and na.expr is not None:
                for s_, lab in na.succ:
                    if s_ == b_ and lab in (True, False):
                        for atom, text, truth in edge_facts(na.expr, lab):
                            facts.add((text, truth))
        # the loop was entered: its own test held
        why = []
        for cj in cjs:
            ok, w = entailed(cj, facts)
            if not ok:
                why.append(w)
        k += 1
        ctx.ob(rid, 'Sampler.run:idle-iteration-ends-the-loop', not why, run.where(W.ast),
               'on the path through one iteration that evaluates no batch the branch conditions '
               'entail the success predicate: the loop ends' if not why else
               'an iteration can evaluate no batch and still leave `%s` false: %s; run() then '
               'spins without calling the likelihood, n_like never reaches n_like_max and only a '
               'timeout ends the call' % (svar, '; '.join(why)))
    ctx.require(k >= 1 or not zero, 'T5: idle paths not analysed')


def enumerate_paths_from(cfg, W, body):
    """Paths through one iteration of while-loop W (from its true successor back to W
    or out of the function), as lists of node ids."""
    from .cfg import enumerate_paths
    start = [s for s, lab in W.succ if lab is True][0]
    out = []
    for path, preds, end in enumerate_paths(cfg, start=start, max_loop=1, stop_at={W.id}):
        out.append(path)
    return out


# ---------------------------------------------------------------------------
# T6  phase guards
# ---------------------------------------------------------------------------

def _under_not_explored(cfg, nid):
    return cfg.has_fact(nid, 'self.explored', False) or \
        cfg.has_fact(nid, 'len(self.bounds) == 0', True)


def rule_T6(ctx, rid='T6'):
    ctx.rule(rid, 'phase guards: add_bound is called, and shells are removed or filtered, only '
             'under `not self.explored` (or for the very first bound); the removal of empty '
             'shells is followed on every path by explored = True; add_bound has no other caller')
    from .sampler_rules import SamplerTracker, G_SHELL
    from .lockstep import STRUCTURAL
    prog = ctx.program
    run = prog.func('Sampler.run')
    cfg = cfg_of(run)
    n = 0
    for c in walk_no_nested(run.node):
        if isinstance(c, ast.Call) and dotted(c.func) == 'self.add_bound' and cfg.has(c):
            n += 1
            ok = _under_not_explored(cfg, cfg.node_of(c).id)
            ctx.ob(rid, 'Sampler.run:add_bound-guard@%d' % n, ok, run.where(c),
                   'add_bound is called under `not self.explored` / for the first bound' if ok
                   else 'add_bound can be called after exploration has finished: the set of '
                   'bounds is not frozen')
    ctx.require(n >= 2, 'Sampler.run: add_bound call sites not found')
    for f in prog.functions.values():
        if f.qualname == 'Sampler.run':
            continue
        for c in walk_no_nested(f.node):
            if isinstance(c, ast.Call) and isinstance(c.func, ast.Attribute) and \
                    c.func.attr == 'add_bound':
                ctx.ob(rid, 'add_bound:caller(%s)' % f.qualname, False, f.where(c),
                       'add_bound is called from %s, outside the phase guard of run()'
                       % f.qualname)
    # run() applies its discard_exploration argument only when exploration ends; a later
    # run() slice must not overwrite a switch made through the setter
    n_set = 0
    for x in cfg.nodes:
        if x.kind == 'stmt' and isinstance(x.ast, ast.Assign) and any(
                dotted(t) in ('self.discard_exploration', 'self._discard_exploration')
                for t in x.ast.targets):
            n_set += 1
            ok = _under_not_explored(cfg, x.id)
            ctx.ob(rid, 'Sampler.run:discard-flag-set-only-at-transition', ok, run.where(x.ast),
                   'run() sets the discard flag inside the `not explored` branch (the '
                   'transition)' if ok else
                   'run() sets the discard flag outside the transition: a later run() call '
                   'overrides a switch made through the setter (its argument defaults to False)')
    ctx.require(n_set >= 1, 'Sampler.run no longer applies its discard_exploration argument')
    # destructive updates of the per-shell records in run
    tr = SamplerTracker(run, G_SHELL.members + ['shell_n_sample_exp', 'shell_end_exp'])
    dels = []
    for nid, es in tr.all_events().items():
        for e in es:
            if e.member in G_SHELL.members and e.op in ('DELETE', 'SELECT', 'SLICE', 'INIT',
                                                        'REBUILD', 'REORDER', 'XFORM', 'SET'):
                dels.append((nid, e))
    from .sampler_rules import helper_event_calls
    helper_dels = helper_event_calls(prog, run, set(G_SHELL.members),
                                     ops={'DELETE', 'SELECT', 'SLICE', 'INIT', 'REBUILD',
                                          'REORDER', 'XFORM', 'SET'})
    dels += helper_dels
    ctx.require(dels, 'Sampler.run: removal of empty shells not found')
    exp_true = {x.id for x in cfg.nodes if x.kind == 'stmt' and isinstance(x.ast, ast.Assign)
                and dotted(x.ast.targets[0]) == 'self.explored' and
                isinstance(x.ast.value, ast.Constant) and x.ast.value.value is True}
    # removal inside a loop over an index array must go from the highest index down (a pop
    # shifts every later shell), and must select exactly the empty shells
    from .resolve import helper_closure
    closure_, _ = helper_closure(prog, run.cls, {run.qualname})
    loop_funcs = [run] + [prog.functions[q] for q in sorted(closure_) if q != run.qualname]
    all_loops = [lp for lf in loop_funcs for lp in walk_no_nested(lf.node)]
    for lp in all_loops:
        if not (isinstance(lp, ast.For) and isinstance(lp.target, ast.Name)):
            continue
        inner = [e for nid, e in dels if e.op == 'DELETE' and any(
            e.ast is s_ or any(e.ast is x for x in ast.walk(s_)) for s_ in lp.body)]
        if not inner:
            continue
        it = lp.iter
        desc = False
        src = it
        if isinstance(it, ast.Subscript) and isinstance(it.slice, ast.Slice) and \
                it.slice.lower is None and it.slice.upper is None and \
                const_value(it.slice.step) == -1:
            desc, src = True, it.value
        elif isinstance(it, ast.Call) and dotted(it.func) == 'reversed' and it.args:
            desc, src = True, it.args[0]
        elif isinstance(it, ast.Call) and dotted(it.func) == 'sorted' and any(
                k.arg == 'reverse' and const_value(k.value) is True for k in it.keywords):
            desc, src = True, it.args[0]
        if isinstance(src, ast.Name):
            # the index array was bound to a local first: follow its single definition
            owner = [lf for lf in loop_funcs if any(x is lp for x in ast.walk(lf.node))]
            defs_ = [st_ for lf in owner for st_ in walk_no_nested(lf.node)
                     if isinstance(st_, ast.Assign) and len(st_.targets) == 1 and
                     isinstance(st_.targets[0], ast.Name) and st_.targets[0].id == src.id]
            if len(defs_) == 1:
                src = defs_[0].value
        asc_src = isinstance(src, ast.Call) and dotted(src.func) in ('np.flatnonzero',
                                                                    'np.nonzero', 'np.where')
        ctx.ob(rid, 'Sampler.run:removal-descending', desc and asc_src, run.where(lp),
               'empty shells are removed from the highest index down' if desc and asc_src else
               'shells are removed in an order that lets earlier removals shift the indices of '
               'later ones: the wrong shells would be dropped')
        sel = src.args[0] if asc_src and src.args else None
        okz = isinstance(sel, ast.Compare) and dotted(sel.left) == 'self.shell_n' and \
            isinstance(sel.ops[0], ast.Eq) and const_value(sel.comparators[0]) == 0
        ctx.ob(rid, 'Sampler.run:removal-selects-empty-shells', okz, run.where(lp),
               'exactly the shells with shell_n == 0 are removed' if okz else
               'the removed shells are selected by `%s`, not by shell_n == 0'
               % (unparse(sel) if sel is not None else unparse(it)))
    seen = set()
    for nid, e in dels:
        key = (e.member, e.op)
        if key in seen:
            continue
        seen.add(key)
        ok1 = _under_not_explored(cfg, nid)
        ok2 = bool(exp_true) and cfg.must_pass(nid, cfg.exit.id, exp_true) and \
            all(cfg.must_pass(nid, w, exp_true) for w in
                [x.id for x in cfg.nodes if x.kind == 'test' and isinstance(x.ast, ast.While)])
        ctx.ob(rid, 'Sampler.run:%s(%s)' % (e.op.lower(), e.member), ok1 and ok2,
               run.where(e.ast),
               'shell records are only reduced during exploration, immediately before the '
               'transition' if ok1 and ok2 else
               ('shell record %r is reduced outside the `not self.explored` branch' % e.member
                if not ok1 else 'after reducing %r a path continues without setting explored = '
                'True: shells could be removed more than once' % e.member))
    return n


# ---------------------------------------------------------------------------
# T8  proposal accounting
# ---------------------------------------------------------------------------

def rule_T8i(ctx, rid='T8'):
    """sample_shell: request N - c, count the request before filtering, advance c by the
    rows kept, return exactly those rows."""
    from .exprs import ekey
    from .lockstep import Tracker
    ctx.rule(rid, 'proposal accounting: (i) the batch loop `while c < N` requests N - c '
             'proposals, adds the request size to the proposal counter before any filtering, '
             'advances c only by the number of rows that survive row-subsetting of that request, '
             'and returns the concatenation of exactly those rows; (ii) wherever a bound adds K '
             'to its proposal counter, it adds K - len(kept) to its rejection counter for the '
             'very rows it stacks into its cache')
    prog = ctx.program
    f = prog.func('Sampler.sample_shell')
    cfg = cfg_of(f)
    loops = [n for n in cfg.nodes if n.kind == 'test' and isinstance(n.ast, ast.While)]
    ctx.require(len(loops) == 1, 'Sampler.sample_shell: expected one while loop')
    W = loops[0]
    t = W.expr
    ctx.require(isinstance(t, ast.Compare) and len(t.ops) == 1 and
                isinstance(t.left, ast.Name), 'sample_shell: loop test is not `c < N`')
    c_name = t.left.id
    N = t.comparators[0]
    strict = isinstance(t.ops[0], ast.Lt)
    okN = dotted(N) == 'self.n_batch'
    ctx.ob(rid, 'Sampler.sample_shell:batch-size', strict and okN, f.where(W.ast),
           'the loop runs while %s < self.n_batch' % c_name if strict and okN else
           'the loop bound is `%s`, not `%s < self.n_batch`' % (unparse(t), c_name))
    # the request
    sample_calls = []
    for n in walk_no_nested(W.ast):
        if isinstance(n, ast.Call) and isinstance(n.func, ast.Attribute) and \
                n.func.attr == 'sample' and n.args and \
                root_attr(n.func.value, f.self_name) and \
                root_attr(n.func.value, f.self_name)[0] == 'bounds':
            sample_calls.append(n)
    ctx.require(len(sample_calls) == 1, 'sample_shell: expected one bound.sample call in the '
                'loop, found %d' % len(sample_calls))
    sc = sample_calls[0]
    snid = cfg.node_of(sc).id
    want = ast.BinOp(left=N, op=ast.Sub(), right=ast.Name(id=c_name, ctx=ast.Load()))
    ast.fix_missing_locations(want)
    req_key = ekey(cfg, snid, sc.args[0])
    ok = req_key == ekey(cfg, snid, want)
    ctx.ob(rid, 'Sampler.sample_shell:request', ok, f.where(sc),
           'each round requests exactly the missing rows (N - c)' if ok else
           'a round requests `%s` proposals instead of the missing N - c' % unparse(sc.args[0]))
    # which shell is sampled
    ra = root_attr(sc.func.value, f.self_name)
    idx = ra[1][0][1] if ra[1] else None
    ok = isinstance(idx, ast.Name) and idx.id == f.params[1]
    ctx.ob(rid, 'Sampler.sample_shell:samples-requested-shell', ok, f.where(sc),
           'proposals are drawn from self.bounds[%s]' % (unparse(idx) if idx is not None else '?'))
    # the proposal counter
    from .exprs import aug_nodes
    incs = [n for n in aug_nodes(cfg) if
            isinstance(n.ast.op, ast.Add) and isinstance(n.ast.target, ast.Name)]
    prop = [n for n in incs if ekey(cfg, n.id, n.ast.value) == req_key and
            n.ast.target.id != c_name]
    ctx.ob(rid, 'Sampler.sample_shell:proposals-counted', len(prop) == 1, f.where(sc),
           'the request size is added to the proposal counter `%s`' % prop[0].ast.target.id
           if len(prop) == 1 else 'no counter is advanced by the request size (found %d)'
           % len(prop))
    # the rows
    tgt = cfg.nodes[snid].ast
    ctx.require(isinstance(tgt, ast.Assign) and isinstance(tgt.targets[0], ast.Name),
                'sample_shell: sample result is not bound to a local')
    pname = tgt.targets[0].id
    tr = Tracker(f, [], locals_=[pname])
    bad_ops = []
    for nid, es in tr.all_events().items():
        for e in es:
            if e.member == pname and e.op not in ('SELECT', 'SET', 'MARK', 'MAP') and \
                    nid in cfg.reach(W.id, avoid=set(), include_src=False) and \
                    cfg.can_reach(nid, W.id):
                bad_ops.append(e)
    ctx.ob(rid, 'Sampler.sample_shell:rows-only-subset', not bad_ops, f.where(),
           'inside the loop the proposals are only ever reduced by row selection' if not bad_ops
           else 'the proposals are changed by %s inside the loop' % [e.op for e in bad_ops])
    cinc = [n for n in incs if n.ast.target.id == c_name]
    okc = len(cinc) == 1 and isinstance(cinc[0].ast.value, ast.Call) and \
        dotted(cinc[0].ast.value.func) == 'len' and \
        isinstance(cinc[0].ast.value.args[0], ast.Name) and \
        cinc[0].ast.value.args[0].id == pname
    ctx.ob(rid, 'Sampler.sample_shell:advance-by-kept-rows', okc, f.where(cinc[0].ast) if cinc
           else f.where(), '%s advances by len(%s)' % (c_name, pname) if okc else
           'the row counter does not advance by the number of rows kept')
    # appended to the output list: same value
    apps = [n for n in walk_no_nested(W.ast) if isinstance(n, ast.Call) and
            isinstance(n.func, ast.Attribute) and n.func.attr == 'append' and
            isinstance(n.func.value, ast.Name) and n.args and isinstance(n.args[0], ast.Name)
            and n.args[0].id == pname]
    oka = False
    lname = None
    if okc and len(apps) == 1:
        a_nid = cfg.node_of(apps[0]).id
        oka = cfg.defs_at(a_nid, pname) == cfg.defs_at(cinc[0].id, pname)
        lname = apps[0].func.value.id
    ctx.ob(rid, 'Sampler.sample_shell:collect-kept-rows', oka, f.where(apps[0]) if apps else
           f.where(), 'the rows that advance the counter are the rows collected' if oka else
           'the rows collected differ from the rows counted')
    rets = [n for n in walk_no_nested(f.node) if isinstance(n, ast.Return)]
    okr = bool(rets)
    for r in rets:
        first = r.value.elts[0] if isinstance(r.value, ast.Tuple) else r.value
        second = r.value.elts[1] if isinstance(r.value, ast.Tuple) and \
            len(r.value.elts) > 1 else None
        rn = cfg.node_of(r).id
        from .exprs import ekey as _k
        want1 = 'np.concatenate(%s)' % lname
        inl = first
        if isinstance(first, ast.Name):
            for d in cfg.defs_at(rn, first.id):
                dn = cfg.nodes[d]
                if dn.kind == 'stmt' and isinstance(dn.ast, ast.Assign):
                    inl = dn.ast.value
        if unparse(inl) != want1:
            okr = False
        if not (len(prop) == 1 and isinstance(second, ast.Name) and
                second.id == prop[0].ast.target.id):
            okr = False
    ctx.ob(rid, 'Sampler.sample_shell:returns-rows-and-proposal-count', okr, f.where(),
           'returns the concatenated kept rows and the proposal counter' if okr else
           'the return value is not (concatenation of the kept rows, proposal counter, ...)')
    return 1


def rule_T8ii(ctx, qualname, rid='T8'):
    """n_sample += K ; n_reject += K - len(kept) ; cache = vstack([cache, kept])"""
    from .exprs import ekey
    prog = ctx.program
    f = prog.func(qualname)
    cfg = cfg_of(f)
    selfn = f.self_name
    from .exprs import aug_nodes
    augs = [n for n in aug_nodes(cfg) if
            isinstance(n.ast.op, ast.Add) and root_attr(n.ast.target, selfn) and
            not root_attr(n.ast.target, selfn)[1]]
    def _local_count(n):
        # K is a count computed in this function (not a value unpacked from a worker)
        ds = cfg.defs_at(n.id, n.ast.value.id)
        return bool(ds) and all(cfg.nodes[d].kind == 'stmt' for d in ds)
    ns = [n for n in augs if root_attr(n.ast.target, selfn)[0] == 'n_sample' and
          isinstance(n.ast.value, ast.Name) and _local_count(n)]
    nr = [n for n in augs if root_attr(n.ast.target, selfn)[0] == 'n_reject']
    ctx.require(ns, '%s: local proposal accounting not found' % qualname)
    for a in ns:
        K = a.ast.value
        # paired rejection update in the same block
        pair = [r for r in nr if cfg.dominates(a.id, r.id) or cfg.dominates(r.id, a.id)]
        pair = [r for r in pair if cfg.guards(r.id) == cfg.guards(a.id)]
        ok = False
        why = 'no rejection update is paired with the proposal update'
        for r in pair:
            v = r.ast.value
            if isinstance(v, ast.BinOp) and isinstance(v.op, ast.Sub) and \
                    ekey(cfg, r.id, v.left) == ekey(cfg, a.id, K) and \
                    isinstance(v.right, ast.Call) and dotted(v.right.func) == 'len' and \
                    isinstance(v.right.args[0], ast.Name):
                kept = v.right.args[0].id
                # the cache update stacks the same value
                caches = [c for c in cfg.nodes if c.kind == 'stmt' and
                          isinstance(c.ast, ast.Assign) and
                          root_attr(c.ast.targets[0], selfn) and
                          root_attr(c.ast.targets[0], selfn)[0] == 'points' and
                          any(isinstance(s, ast.Name) and s.id == kept and
                              id(s) not in {id(x.value) for x in ast.walk(c.ast.value)
                                            if isinstance(x, ast.Subscript)}
                              for s in ast.walk(c.ast.value)) and
                          cfg.guards(c.id) == cfg.guards(a.id)]
                same = [c for c in caches if cfg.defs_at(c.id, kept) == cfg.defs_at(r.id, kept)]
                if same:
                    ok = True
                    why = ('+= %s proposals, += %s - len(%s) rejections, and `%s` is what is '
                           'stacked into the cache' % (unparse(K), unparse(K), kept, kept))
                else:
                    why = ('rejections are computed from `%s` but a different value is stacked '
                           'into the cache' % kept)
            elif isinstance(v, ast.BinOp) and isinstance(v.op, ast.Sub) and \
                    ekey(cfg, r.id, v.left) == ekey(cfg, a.id, K) and \
                    isinstance(v.right, ast.Call) and \
                    dotted(v.right.func) in ('np.sum', 'np.count_nonzero') and \
                    len(v.right.args) == 1 and isinstance(v.right.args[0], ast.Name):
                # K - np.sum(mask) where `p[mask]` is what is stacked into the cache
                mask = v.right.args[0].id
                caches = [c for c in cfg.nodes if c.kind == 'stmt' and
                          isinstance(c.ast, ast.Assign) and
                          root_attr(c.ast.targets[0], selfn) and
                          root_attr(c.ast.targets[0], selfn)[0] == 'points' and
                          any(isinstance(s, ast.Subscript) and isinstance(s.slice, ast.Name)
                              and s.slice.id == mask for s in ast.walk(c.ast.value)) and
                          cfg.guards(c.id) == cfg.guards(a.id) and
                          cfg.defs_at(c.id, mask) == cfg.defs_at(r.id, mask)]
                if caches:
                    ok = True
                    why = ('+= %s proposals, += %s - (number of rows selected by `%s`) '
                           'rejections, and the rows selected by `%s` are what is stacked into '
                           'the cache' % (unparse(K), unparse(K), mask, mask))
                else:
                    why = ('rejections are computed from the mask `%s` but the cache is not '
                           'extended by the rows it selects' % mask)
            else:
                why = 'rejection update `%s` is not K - len(kept) for the K added to n_sample' \
                    % unparse(v)
        ctx.ob(rid, '%s:counters-describe-cache' % qualname, ok, f.where(a.ast), why)
        # K is the number of proposals actually requested
        req = False
        for c in walk_no_nested(f.node):
            if isinstance(c, ast.Call) and isinstance(c.func, ast.Attribute) and \
                    c.func.attr in ('sample', 'multinomial') and c.args and cfg.has(c) and \
                    cfg.guards(cfg.node_of(c).id) == cfg.guards(a.id):
                if ekey(cfg, cfg.node_of(c).id, c.args[0]) == ekey(cfg, a.id, K):
                    req = True
        # K = np.sum(counts) where the members draw `counts[k]` proposals each
        if not req and isinstance(K, ast.Name):
            for d in cfg.defs_at(a.id, K.id):
                dn = cfg.nodes[d]
                v = dn.ast.value if dn.kind == 'stmt' and isinstance(dn.ast, ast.Assign) else None
                if isinstance(v, ast.Call) and dotted(v.func) in ('np.sum', 'sum') and v.args \
                        and isinstance(v.args[0], ast.Name):
                    cname = v.args[0].id
                    for lc in ast.walk(f.node):
                        if isinstance(lc, (ast.ListComp, ast.GeneratorExp)) and any(
                                isinstance(x, ast.Name) and x.id == cname
                                for x in ast.walk(lc.generators[0].iter)) and \
                                isinstance(lc.elt, ast.Call) and \
                                isinstance(lc.elt.func, ast.Attribute) and \
                                lc.elt.func.attr == 'sample':
                            req = True
        ctx.ob(rid, '%s:counter-is-request' % qualname, req, f.where(a.ast),
               'the number added to n_sample is the number of proposals requested' if req else
               'the number added to n_sample (`%s`) is not the number of proposals requested'
               % unparse(K))
    return len(ns)

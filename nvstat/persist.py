"""E2 PERSIST: writer / updater / reader tables extracted from the HDF5 code and the
rules P1-P6 over them (DESIGN.md section 3, E2)."""
import ast

from .core import AnalysisError
from .cfg import cfg_of
from .exprs import dotted, unparse, walk_no_nested, root_attr, const_value, ekey
from .resolve import resolver

# ---------------------------------------------------------------------------
# key templates
# ---------------------------------------------------------------------------


def key_template(e):
    """-> (template, [format args]) or (None, []) for a non-key expression."""
    if isinstance(e, ast.Constant) and isinstance(e.value, str):
        return e.value, []
    if isinstance(e, ast.Call) and isinstance(e.func, ast.Attribute) and \
            e.func.attr == 'format' and isinstance(e.func.value, ast.Constant) and \
            isinstance(e.func.value.value, str):
        return e.func.value.value, list(e.args)
    if isinstance(e, ast.JoinedStr):
        t, args = '', []
        for v in e.values:
            if isinstance(v, ast.Constant):
                t += str(v.value)
            else:
                t += '{}'
                args.append(v.value)
        return t, args
    if isinstance(e, ast.BinOp) and isinstance(e.op, ast.Add):
        a, aa = key_template(e.left)
        b, ba = key_template(e.right)
        if a is None and b is not None:
            return '<dyn>' + b, ba
        if a is not None and b is None:
            return a + '<dyn>', aa
        if a is not None and b is not None:
            return a + b, aa + ba
    if isinstance(e, ast.BinOp) and isinstance(e.op, ast.Mod) and \
            isinstance(e.left, ast.Constant) and isinstance(e.left.value, str):
        import re
        t = re.sub(r'%[sdif]', '{}', e.left.value)
        args = list(e.right.elts) if isinstance(e.right, ast.Tuple) else [e.right]
        return t, args
    return None, []


class Entry:
    def __init__(self, role, kind, key, attr, node, guards, func, key_args=(), src=None,
                 loop=None, cls_names=None):
        self.role = role          # W U R
        self.kind = kind          # attr dataset group node probe
        self.key = key
        self.attr = attr          # source (W/U) or destination (R) attribute, or None
        self.node = node
        self.guards = guards      # [(test expr, polarity)]
        self.func = func
        self.key_args = list(key_args)
        self.src = src            # source expression (W/U)
        self.loop = loop
        self.cls_names = cls_names or set()   # classes whose .read() consumes the node (R)

    @property
    def where(self):
        return self.func.where(self.node)

    def __repr__(self):
        return '<%s %s %r attr=%s g=%d>' % (self.role, self.kind, self.key, self.attr,
                                            len(self.guards))


def _group_vars(func):
    """Names that denote HDF5 groups/files in `func`."""
    g = set()
    for p in func.params:
        if p in ('group', 'fstream', 'f', 'file'):
            g.add(p)
    changed = True
    while changed:
        changed = False
        for n in walk_no_nested(func.node):
            tgt = val = None
            if isinstance(n, ast.Assign) and len(n.targets) == 1 and \
                    isinstance(n.targets[0], ast.Name):
                tgt, val = n.targets[0].id, n.value
            elif isinstance(n, ast.withitem) and n.optional_vars is not None and \
                    isinstance(n.optional_vars, ast.Name):
                tgt, val = n.optional_vars.id, n.context_expr
            if tgt is None or tgt in g:
                continue
            if isinstance(val, ast.Call):
                cn = dotted(val.func) or ''
                if cn.endswith('File') or (isinstance(val.func, ast.Attribute) and
                                           val.func.attr in ('create_group', 'require_group')
                                           and _is_group(val.func.value, g)):
                    g.add(tgt)
                    changed = True
            elif isinstance(val, ast.Subscript) and _is_group(val.value, g):
                g.add(tgt)
                changed = True
    return g


def _is_group(e, gvars):
    if isinstance(e, ast.Name):
        return e.id in gvars
    if isinstance(e, ast.Subscript):          # fstream['sampler'] is a group as well
        return _is_group(e.value, gvars) and not _is_attrs(e.value)
    if isinstance(e, ast.Call) and isinstance(e.func, ast.Attribute) and \
            e.func.attr in ('create_group', 'require_group'):
        return _is_group(e.func.value, gvars)
    return False


def _is_attrs(e):
    return isinstance(e, ast.Attribute) and e.attr == 'attrs'


def _guards_of(func, node, parents):
    """Structural guards: enclosing if/while tests with polarity (+ ternaries)."""
    out = []
    child = node
    p = parents.get(id(child))
    while p is not None and p is not func.node:
        if isinstance(p, (ast.If, ast.While)):
            if any(child is s for s in p.body):
                out.append((p.test, True))
            elif any(child is s for s in p.orelse):
                out.append((p.test, False))
        elif isinstance(p, ast.IfExp):
            if child is p.body:
                out.append((p.test, True))
            elif child is p.orelse:
                out.append((p.test, False))
        child = p
        p = parents.get(id(child))
    return list(reversed(out))


def _parents(fn):
    par = {}
    for n in ast.walk(fn):
        for c in ast.iter_child_nodes(n):
            par[id(c)] = n
    return par


def _enclosing_loops(node, parents, fn):
    out = []
    p = parents.get(id(node))
    while p is not None and p is not fn:
        if isinstance(p, ast.For):
            out.append(p)
        elif isinstance(p, (ast.ListComp, ast.GeneratorExp)):
            out.append(p)
        p = parents.get(id(p))
    return out


def _resolve_local(func, e, depth=0):
    """Follow single-definition locals: rng_state -> self.rng.bit_generator.state;
    loop variables over self.X / enumerate(self.X) -> self.X[*]."""
    if depth > 5:
        return e
    if isinstance(e, ast.Name):
        defs = []
        for n in walk_no_nested(func.node):
            if isinstance(n, ast.Assign) and len(n.targets) == 1 and \
                    isinstance(n.targets[0], ast.Name) and n.targets[0].id == e.id:
                defs.append(n.value)
            elif isinstance(n, (ast.For, ast.comprehension)):
                t, it = n.target, n.iter
                if isinstance(it, ast.Call) and isinstance(it.func, ast.Name) and \
                        it.func.id == 'enumerate' and isinstance(t, ast.Tuple) and \
                        len(t.elts) == 2 and isinstance(t.elts[1], ast.Name) and \
                        t.elts[1].id == e.id and it.args:
                    defs.append(ast.Subscript(value=it.args[0], slice=t.elts[0],
                                              ctx=ast.Load()))
                elif isinstance(t, ast.Name) and t.id == e.id and not isinstance(it, ast.Call):
                    defs.append(ast.Subscript(value=it, slice=ast.Constant(value='*'),
                                              ctx=ast.Load()))
        if len(defs) == 1:
            return _resolve_local(func, defs[0], depth + 1)
        return e
    if isinstance(e, ast.Subscript):
        return ast.Subscript(value=_resolve_local(func, e.value, depth + 1), slice=e.slice,
                             ctx=ast.Load())
    if isinstance(e, ast.Attribute):
        return ast.Attribute(value=_resolve_local(func, e.value, depth + 1), attr=e.attr,
                             ctx=ast.Load())
    return e


def _src_attr(func, e, obj):
    """Root attribute of `obj` that a written value comes from, and whether the
    value is the attribute itself (direct) or something derived from it."""
    e2 = _resolve_local(func, e)
    ra = root_attr(e2, obj)
    if ra:
        direct = all(k == 'idx' for k, _ in ra[1])
        return ra[0], direct
    # derived: len(self.x), self.x is not None, self.x[0].__class__.__name__
    attrs = set()
    for sub in list(ast.walk(e2)):
        if isinstance(sub, ast.Name) and sub.id != obj:
            r = _resolve_local(func, sub)
            if r is not sub:
                for s2 in ast.walk(r):
                    if isinstance(s2, ast.Attribute) and isinstance(s2.value, ast.Name) and \
                            s2.value.id == obj:
                        attrs.add(s2.attr)
    for sub in ast.walk(e2):
        if isinstance(sub, ast.Attribute) and isinstance(sub.value, ast.Name) and \
                sub.value.id == obj:
            attrs.add(sub.attr)
    if len(attrs) == 1:
        return next(iter(attrs)), False
    return None, False


# ---------------------------------------------------------------------------
# table extraction
# ---------------------------------------------------------------------------

def writer_table(func, role='W'):
    """Entries written by a write/update function."""
    gv = _group_vars(func)
    par = _parents(func.node)
    obj = func.self_name
    out = []
    for n in walk_no_nested(func.node):
        # G.attrs[K] = V
        if isinstance(n, ast.Assign) and len(n.targets) == 1 and \
                isinstance(n.targets[0], ast.Subscript):
            t = n.targets[0]
            if _is_attrs(t.value) and _is_group(t.value.value, gv):
                key, kargs = key_template(t.slice)
                if key is None:
                    key = '<dyn>'
                attr, direct = _src_attr(func, n.value, obj)
                out.append(Entry(role, 'attr', key, attr if direct else None, n,
                                 _guards_of(func, n, par), func, kargs, n.value))
                out[-1].derived_from = attr
                continue
            # G[K][...] = V   (dataset overwrite)
            if isinstance(t.value, ast.Subscript) and _is_group(t.value.value, gv):
                key, kargs = key_template(t.value.slice)
                if key is not None:
                    attr, direct = _src_attr(func, n.value, obj)
                    out.append(Entry('U', 'dataset', key, attr if direct else None, n,
                                     _guards_of(func, n, par), func, kargs, n.value))
                    out[-1].derived_from = attr
                    out[-1].op = 'overwrite'
                continue
        if not isinstance(n, ast.Call) or not isinstance(n.func, ast.Attribute):
            continue
        m = n.func.attr
        recv = n.func.value
        if m == 'create_dataset' and _is_group(recv, gv) and n.args:
            key, kargs = key_template(n.args[0])
            data = None
            for k in n.keywords:
                if k.arg == 'data':
                    data = k.value
            if data is None and len(n.args) > 1:
                data = n.args[1]
            attr, direct = _src_attr(func, data, obj) if data is not None else (None, False)
            out.append(Entry(role, 'dataset', key or '<dyn>', attr if direct else None, n,
                             _guards_of(func, n, par), func, kargs, data))
            out[-1].derived_from = attr
        elif m in ('write', 'update') and n.args and isinstance(n.args[0], (ast.Call,
                                                                            ast.Subscript)):
            a = n.args[0]
            key = None
            if isinstance(a, ast.Call) and isinstance(a.func, ast.Attribute) and \
                    a.func.attr in ('create_group', 'require_group') and \
                    _is_group(a.func.value, gv) and a.args:
                key, kargs = key_template(a.args[0])
            elif isinstance(a, ast.Subscript) and _is_group(a.value, gv):
                key, kargs = key_template(a.slice)
            if key is not None:
                attr, direct = _src_attr(func, recv, obj)
                out.append(Entry('U' if m == 'update' else role, 'group', key,
                                 attr if direct else None, n, _guards_of(func, n, par), func,
                                 kargs, recv))
                out[-1].derived_from = attr
        elif m == 'resize' and isinstance(recv, ast.Subscript) and _is_group(recv.value, gv):
            key, kargs = key_template(recv.slice)
            if key is not None:
                src = n.args[0] if n.args else None
                attr, direct = _src_attr(func, src, obj) if src is not None else (None, False)
                e = Entry('U', 'dataset', key, None, n, _guards_of(func, n, par), func, kargs,
                          src)
                e.op = 'resize'
                e.derived_from = attr
                out.append(e)
    out.sort(key=lambda e: (e.node.lineno, e.node.col_offset))
    return out


VALUE_WRAPPERS = {'np.array', 'np.asarray', 'np.copy', 'np.atleast_1d', 'np.ascontiguousarray',
                  'list', 'tuple', 'int', 'float', 'bool', 'str', 'np.float64', 'np.int64'}


def reader_table(func, obj):
    """Entries consumed by a reader.  `obj` is the object being restored
    ('bound', 'emulator', 'self')."""
    gv = _group_vars(func)
    par = _parents(func.node)
    out = []
    seen = set()

    def dest_of(node):
        """Destination attribute of the statement containing `node`."""
        p = node
        consumed = False        # the value is an argument of a computation, not the stored value
        while p is not None and not isinstance(p, ast.stmt):
            q = par.get(id(p))
            if isinstance(q, ast.Call) and p is not q.func:
                d = dotted(q.func) or ''
                if not (d in VALUE_WRAPPERS or (isinstance(q.func, ast.Attribute) and
                                                q.func.attr in ('read', 'append', 'extend',
                                                                'insert'))):
                    consumed = True
            p = q
        if p is None:
            return None, None
        if consumed:
            return None, p
        if isinstance(p, ast.Assign) and len(p.targets) == 1:
            ra = root_attr(p.targets[0], obj)
            if ra:
                return ra[0], p
            if isinstance(p.targets[0], ast.Name):
                return None, p
        if isinstance(p, ast.Expr) and isinstance(p.value, ast.Call) and \
                isinstance(p.value.func, ast.Attribute) and \
                p.value.func.attr in ('append', 'extend', 'insert'):
            ra = root_attr(p.value.func.value, obj)
            if ra:
                return ra[0], p
        return None, p

    def classes_reading(node):
        """Class names C for which `node` is an argument of C.read(...)."""
        p = par.get(id(node))
        if isinstance(p, ast.Call) and isinstance(p.func, ast.Attribute) and \
                p.func.attr == 'read' and node in p.args:
            r = p.func.value
            if isinstance(r, ast.Name):
                return {r.id}, p
        return set(), None

    for n in walk_no_nested(func.node):
        if isinstance(n, ast.Subscript) and isinstance(n.ctx, ast.Load):
            if _is_attrs(n.value) and _is_group(n.value.value, gv):
                key, kargs = key_template(n.slice)
                attr, st = dest_of(n)
                e = Entry('R', 'attr', key or '<dyn>', attr, n, _guards_of(func, n, par), func,
                          kargs)
                e.in_test = _in_test(n, par)
                # fstream['bound_3'].attrs['type']: an attribute of a MEMBER's group, written
                # by the member's own write(), not by this class's writer
                owner = n.value.value
                if isinstance(owner, ast.Subscript) and _is_group(owner.value, gv):
                    e.member_group = key_template(owner.slice)[0]
                out.append(e)
            elif _is_group(n.value, gv) and not _is_attrs(n.value):
                key, kargs = key_template(n.slice)
                if key is None:
                    continue
                # skip the intermediate fstream['sampler'] group binding
                p = par.get(id(n))
                if isinstance(p, ast.Assign) and isinstance(p.targets[0], ast.Name) and \
                        p.targets[0].id in gv:
                    continue
                if isinstance(p, ast.Attribute) and p.attr == 'attrs' and \
                        any(isinstance(x, ast.Call) and isinstance(x.func, ast.Attribute) and
                            x.func.attr == 'create_group' and x.args and
                            key_template(x.args[0])[0] == key
                            for f2 in (func.cls.methods.values() if func.cls else ())
                            for x in ast.walk(f2.node)):
                    continue    # fstream['sampler'].attrs[...]: the sub-group itself, used inline
                attr, st = dest_of(n)
                cls_names, call = classes_reading(n)
                kind = 'group' if cls_names else 'dataset'
                e = Entry('R', kind, key, attr, n, _guards_of(func, n, par), func, kargs,
                          cls_names=cls_names)
                e.in_test = _in_test(n, par)
                out.append(e)
        elif isinstance(n, ast.Compare) and len(n.ops) == 1 and \
                isinstance(n.ops[0], (ast.In, ast.NotIn)) and _is_group(n.comparators[0], gv):
            key, kargs = key_template(n.left)
            if key is not None:
                e = Entry('R', 'probe', key, None, n, _guards_of(func, n, par), func, kargs)
                e.in_test = True
                out.append(e)
    out.sort(key=lambda e: (e.node.lineno, e.node.col_offset))
    return out


def _file_guard(test, obj):
    """A reader guard that depends on the file or on already restored state."""
    for sub in ast.walk(test):
        if isinstance(sub, ast.Compare) and len(sub.ops) == 1 and \
                isinstance(sub.ops[0], (ast.In, ast.NotIn)) and key_template(sub.left)[0]:
            return True
        if isinstance(sub, ast.Subscript) and _is_attrs(sub.value):
            return True
        if isinstance(sub, ast.Attribute) and isinstance(sub.value, ast.Name) and \
                sub.value.id == obj and obj != 'self':
            return True
    return False


def _in_test(node, par):
    """Is `node` part of a branch condition / loop domain rather than a stored value?"""
    c = node
    p = par.get(id(c))
    while p is not None and not isinstance(p, ast.stmt):
        c = p
        p = par.get(id(c))
    if isinstance(p, (ast.If, ast.While)) and c is p.test:
        return True
    if isinstance(p, ast.For) and c is p.iter:
        return True
    return False


def guard_probes(entry):
    """Keys probed / attrs tested by the guards of an entry."""
    keys = set()
    for test, pol in entry.guards:
        for sub in ast.walk(test):
            if isinstance(sub, ast.Compare) and len(sub.ops) == 1 and \
                    isinstance(sub.ops[0], (ast.In, ast.NotIn)):
                k, _ = key_template(sub.left)
                if k:
                    keys.add(k)
            if isinstance(sub, ast.Subscript) and _is_attrs(sub.value):
                k, _ = key_template(sub.slice)
                if k:
                    keys.add(k)
    return keys


# ---------------------------------------------------------------------------
# classes with persistence
# ---------------------------------------------------------------------------

def persist_classes(prog):
    """[(class, writer FuncInfo, reader FuncInfo, updater or None, obj var)]"""
    out = []
    for c in prog.classes.values():
        w = c.methods.get('write')
        r = c.methods.get('read')
        if w is None or r is None or c.name == 'Sampler':
            continue
        obj = _ctor_obj(r)
        out.append((c, w, r, c.methods.get('update'), obj))
    return out


def _ctor_obj(func):
    """Name of the object under construction in a classmethod constructor."""
    for n in walk_no_nested(func.node):
        if isinstance(n, ast.Assign) and len(n.targets) == 1 and \
                isinstance(n.targets[0], ast.Name) and isinstance(n.value, ast.Call) and \
                isinstance(n.value.func, ast.Name) and n.value.func.id == 'cls':
            return n.targets[0].id
    if func.name == '__init__':
        return func.self_name
    raise AnalysisError('%s: object under construction not found (expected `x = cls()`)'
                        % func.qualname)


def _kind_compatible(rk, wk):
    if rk == 'probe':
        return True
    if rk == wk:
        return True
    return False


# ---------------------------------------------------------------------------
# P1 / P2
# ---------------------------------------------------------------------------

def rule_P1_P2(ctx, cname, writer, reader, obj, rid1='P1', rid2='P2', reader_only_keys=()):
    ctx.rule(rid1, 'reader <= writer: every key the reader consumes is produced by the writer '
             'with the same kind, and a key the writer emits conditionally is consumed under a '
             'guard')
    ctx.rule(rid2, 'key <-> attribute: a key written from attribute a is restored into '
             'attribute a; a formatted key uses the index of the element it stores')
    W = writer_table(writer)
    R = reader_table(reader, obj)
    ctx.require(W, '%s writes nothing recognisable' % writer.qualname)
    ctx.require(R, '%s reads nothing recognisable' % reader.qualname)
    wkeys = {}
    for e in W:
        wkeys.setdefault(e.key, []).append(e)
    dyn_w = [e for e in W if '<dyn>' in e.key]
    for r in R:
        if '<dyn>' in r.key or r.key == '<dyn>':
            continue
        ws = wkeys.get(r.key)
        if ws is None:
            ws = [w for k, lst in wkeys.items() if template_match(k, r.key) for w in lst] or None
        if ws is None and dyn_w and any(_dyn_match(d.key, r.key) for d in dyn_w):
            continue
        if ws is None and getattr(r, 'member_group', None):
            # attribute of a member's sub-group: some member class must write it
            mg = r.member_group
            wk = [w for w in W if w.kind == 'group' and (w.key == mg or template_match(w.key, mg)
                                                          or template_match(mg, w.key))]
            owners = []
            for c2, w2, r2, u2, o2 in persist_classes(ctx.program):
                if any(e2.kind == 'attr' and e2.key == r.key for e2 in writer_table(w2)):
                    owners.append(c2.name)
            okm = bool(wk) and bool(owners)
            ctx.ob(rid1, '%s:member-attribute(%s.%s)' % (reader.qualname, mg, r.key), okm,
                   r.where,
                   'attribute %r of member group %r is written by the member\'s own write() '
                   '(%s)' % (r.key, mg, ', '.join(sorted(owners))) if okm else
                   'reader consumes attribute %r of member group %r, which no member class '
                   'writes' % (r.key, mg))
            continue
        if ws is None:
            ctx.ob(rid1, '%s:reads-unwritten(%s)' % (reader.qualname, r.key), False, r.where,
                   'reader consumes key %r which the writer %s never produces'
                   % (r.key, writer.qualname))
            continue
        okk = any(_kind_compatible(r.kind, w.kind) for w in ws)
        ctx.ob(rid1, '%s:kind(%s)' % (reader.qualname, r.key), okk, r.where,
               'key %r read as %s, written as %s' % (r.key, r.kind, sorted({w.kind for w in ws})))
        # guard compatibility
        optional = all(w.guards for w in ws)
        if optional and r.kind != 'probe':
            guarded = any(_file_guard(t, obj) for t, _ in r.guards)
            ctx.ob(rid1, '%s:guarded(%s)' % (reader.qualname, r.key), guarded, r.where,
                   'key %r is written only when `%s`; the reader consumes it %s' % (
                       r.key, unparse(ws[0].guards[-1][0]),
                       'under a guard' if guarded else 'unconditionally (KeyError for objects '
                       'written without it)'))
        # a read that sits under a probe of its own key sits on the branch where the key EXISTS
        if r.kind != 'probe':
            from .cfg import edge_facts
            for test, pol in r.guards:
                for atom, _, truth in edge_facts(test, pol):
                    if isinstance(atom, ast.Compare) and len(atom.ops) == 1 and \
                            isinstance(atom.ops[0], (ast.In, ast.NotIn)) and \
                            key_template(atom.left)[0] == r.key:
                        present = truth if isinstance(atom.ops[0], ast.In) else (not truth)
                        ctx.ob(rid1, '%s:read-where-present(%s)' % (reader.qualname, r.key),
                               present, r.where,
                               'key %r is read on the branch where the probe found it' % r.key
                               if present else
                               'key %r is read on the branch where `%s` says it is ABSENT: a '
                               'stored member is silently not restored (and a missing one '
                               'raises)' % (r.key, unparse(atom)[:50]))
        # P2
        if r.attr is not None:
            for w in ws:
                if w.attr is not None:
                    ctx.ob(rid2, '%s:key(%s)->%s' % (cname, r.key, r.attr), w.attr == r.attr,
                           r.where, 'key %r written from attribute %r (%s) and restored into %r'
                           % (r.key, w.attr, w.where, r.attr))
    # every writer key whose source attribute is mutable run state is restored (no silently
    # dropped state); keys written from attributes that only constructors assign, or from
    # derived expressions, are informational and need not be read back
    rkeys = {r.key for r in R if r.kind != 'probe'}      # asking whether a key exists restores nothing
    mutable = _mutable_attrs(ctx.program, cname)
    for w in W:
        if w.attr is None or '<dyn>' in w.key:
            continue
        if w.key in reader_only_keys or w.attr not in mutable:
            continue
        ok = w.key in rkeys or any(template_match(w.key, k) for k in rkeys)
        ctx.ob(rid1, '%s:restored(%s)' % (cname, w.key), ok, w.where,
               'key %r (attribute %r) is written %s' % (
                   w.key, w.attr, 'and read back' if ok else 'but never read back by %s'
                   % reader.qualname))
    # index agreement inside the writer: 'name_{}'.format(i) stores element i
    for w in W:
        _index_agreement(ctx, rid2, cname, w)
    return W, R


def template_match(template, key):
    """Does the concrete / template key `key` instantiate writer template `template`?"""
    import re
    if template == key:
        return True
    if '{}' not in template:
        return False
    # a placeholder stands for a formatted index (digits) or, for swept attribute names of a
    # network, an identifier followed by an index; it never matches a different fixed key such
    # as 'points_t' for 'points_{}'
    rx = '^' + r'(\d+|[A-Za-z_][A-Za-z0-9_]*?_\d+|[A-Za-z_][A-Za-z0-9_]*)'.join(
        re.escape(p) for p in template.split('{}')) + '$'
    k2 = key.replace('{}', '0')
    m = re.match(rx, k2)
    if m is None:
        return False
    # every placeholder of a purely indexed template must have matched digits
    if all(g.isdigit() for g in m.groups()):
        return True
    return not template.replace('{}', '').rstrip('_').isidentifier() or \
        any(ch.isdigit() for g in m.groups() for ch in g)


def _mutable_attrs(prog, cname):
    """Attributes of class `cname` written by any function other than its constructors."""
    res = resolver(prog)
    out = set()
    for f in prog.functions.values():
        if f.cls is not None and f.cls.name == cname and f.name in (
                '__init__', 'compute', 'read', 'train'):
            continue
        for c, a, k in res.direct(f).writes:
            if c == cname:
                out.add(a)
    return out


def _dyn_match(dkey, key):
    """Can the dynamically built writer key `dkey` (literal parts, `{}` index slots, `<dyn>` for
    a run-time name) ever equal the reader's key?  Index slots only produce digits, so a swept
    key `<name>_{i}` never stands in for a literal key such as 'n_networks'."""
    import re
    rx = ''.join('.+' if part == '<dyn>' else '[0-9]+' if part == '{}' else re.escape(part)
                 for part in re.split(r'(<dyn>|\{\})', dkey) if part)
    return re.fullmatch(rx, key.replace('{}', '0')) is not None


def _index_agreement(ctx, rid, cname, w):
    """The names formatted into a key are exactly the indices of the element stored."""
    if not w.key_args or w.src is None:
        return
    func = w.func
    r = _resolve_local(func, w.src)
    idx_names = set()
    e = r
    found = False
    while isinstance(e, (ast.Subscript, ast.Attribute)):
        if isinstance(e, ast.Subscript):
            found = True
            if not (isinstance(e.slice, ast.Constant) and e.slice.value == '*'):
                idx_names.add(unparse(e.slice))
        e = e.value
    if not found:
        return
    key_names = {unparse(a) for a in w.key_args}
    ok = idx_names == key_names or (not idx_names and False)
    if not idx_names:
        return          # element chosen by plain iteration (`for x in self.xs`): no index
    ctx.ob(rid, '%s:index(%s)' % (func.qualname, w.key), ok, w.where,
           'key %r formatted with %s stores the element indexed by %s' % (
               w.key, sorted(key_names), sorted(idx_names)))


# ---------------------------------------------------------------------------
# P3 definite assignment
# ---------------------------------------------------------------------------

OBS = ['contains', 'sample', 'log_v', 'write', 'update', 'reset', 'transform', 'predict',
       'n_ell', 'n_net',
       # a restored union is split / trimmed like any other (the writer stores the points of
       # every member for exactly that purpose)
       'split', 'trim']


def attrs_assigned(func, obj):
    """attr -> set of CFG node ids assigning obj.attr (plain assignment)."""
    cfg = cfg_of(func)
    out = {}
    for n in walk_no_nested(func.node):
        tgts = []
        if isinstance(n, ast.Assign):
            for t in n.targets:
                tgts += list(t.elts) if isinstance(t, (ast.Tuple, ast.List)) else [t]
        elif isinstance(n, ast.AnnAssign) and n.value is not None:
            tgts = [n.target]
        for t in tgts:
            if isinstance(t, ast.Attribute) and isinstance(t.value, ast.Name) and \
                    t.value.id == obj and cfg.has(n):
                out.setdefault(t.attr, set()).add(cfg.node_of(n).id)
    return out


def obs_reads(prog, cls):
    """Attributes of `cls` read through the observation interface (transitively
    through methods of the same object)."""
    res = resolver(prog)
    reads = {}
    for m in OBS:
        f = cls.methods.get(m)
        if f is None:
            continue
        seen = set()
        work = [f]
        while work:
            g = work.pop()
            if g.qualname in seen:
                continue
            seen.add(g.qualname)
            d = res.direct(g)
            for c, a in d.reads:
                if c == cls.name:
                    reads.setdefault(a, set()).add(g.qualname)
            # writes that are element/augmented updates also read the attribute
            for c, a, k in d.writes:
                if c == cls.name and k in ('elem', 'aug', 'mutcall'):
                    reads.setdefault(a, set()).add(g.qualname)
            for node, callees, status in d.calls:
                for cal in callees:
                    if cal.cls is cls and status == 'typed':
                        work.append(cal)
    return reads


def rule_P3(ctx, cls, ctors, rid='P3', exceptions=()):
    ctx.rule(rid, 'definite assignment: every attribute read through the observation interface '
             '(contains, sample, log_v, write, update, reset, transform, predict, n_ell, n_net, '
             'split, trim) '
             'is assigned on every path of every constructor (compute / read / train)')
    prog = ctx.program
    reads = obs_reads(prog, cls)
    n = 0
    for ctor in ctors:
        obj = _ctor_obj(ctor)
        cfg = cfg_of(ctor)
        assigned = attrs_assigned(ctor, obj)
        rets = [x.id for x in cfg.nodes if x.kind == 'stmt' and isinstance(x.ast, ast.Return)
                and isinstance(x.ast.value, ast.Name) and x.ast.value.id == obj]
        if ctor.name == '__init__':
            rets = [cfg.exit.id]
        ctx.require(rets, '%s: no `return %s` found' % (ctor.qualname, obj))
        for attr in sorted(reads):
            if (cls.name, attr) in exceptions:
                continue
            nodes = assigned.get(attr, set())
            bad = [r for r in rets if not nodes or not cfg.must_pass(cfg.entry.id, r, nodes)]
            ok = not bad
            n += 1
            ctx.ob(rid, '%s:%s' % (ctor.qualname, attr), ok, ctor.where(),
                   'attribute %r (read by %s) is %s' % (
                       attr, ', '.join(sorted(reads[attr]))[:120],
                       'assigned on every path to the return' if ok else
                       ('never assigned by this constructor' if not nodes else
                        'left unassigned on a path to the return at line %s'
                        % [cfg.nodes[b].lineno for b in bad])))
    return n


# ---------------------------------------------------------------------------
# P4 incremental completeness
# ---------------------------------------------------------------------------

def param_mutations(prog):
    """qualname -> set of parameter names whose referent the function mutates in
    place (element store, augmented element, mutating method)."""
    out = {}
    for f in prog.functions.values():
        ps = set(f.params) - {f.self_name}
        mut = set()
        for n in walk_no_nested(f.node):
            tgt = None
            if isinstance(n, ast.Assign):
                for t in n.targets:
                    if isinstance(t, ast.Subscript):
                        tgt = t
            elif isinstance(n, ast.AugAssign) and isinstance(n.target, ast.Subscript):
                tgt = n.target
            if tgt is not None:
                b = tgt
                while isinstance(b, ast.Subscript):
                    b = b.value
                if isinstance(b, ast.Name) and b.id in ps:
                    # only if the parameter is not rebound before (conservative: any rebinding
                    # to a fresh value removes the alias)
                    if not _rebound_fresh(f, b.id):
                        mut.add(b.id)
        if mut:
            out[f.qualname] = mut
    return out


def _rebound_fresh(f, name):
    for n in walk_no_nested(f.node):
        if isinstance(n, ast.Assign) and len(n.targets) == 1 and \
                isinstance(n.targets[0], ast.Name) and n.targets[0].id == name:
            return True
    return False


def mutated_attrs(prog, roots, cls_name, skip=()):
    """Attributes of class `cls_name` written by the functions in `roots` and
    everything they call (also through parameter aliasing)."""
    res = resolver(prog)
    pm = param_mutations(prog)
    out = {}
    seen = set()
    work = list(roots)
    while work:
        f = work.pop()
        if f.qualname in seen or f.qualname in skip:
            continue
        seen.add(f.qualname)
        d = res.direct(f)
        for c, a, k in d.writes:
            if c == cls_name:
                out.setdefault(a, set()).add((k, f.qualname))
        for node, callees, status in d.calls:
            for cal in callees:
                if cal.qualname not in seen:
                    work.append(cal)
                # parameter aliasing
                if isinstance(node, ast.Call) and cal.qualname in pm:
                    params = [p for p in cal.params if p != cal.self_name]
                    for i, a in enumerate(node.args):
                        if i < len(params) and params[i] in pm[cal.qualname]:
                            ra = root_attr(a, f.self_name) if f.self_name else None
                            if ra and f.cls is not None and f.cls.name == cls_name:
                                out.setdefault(ra[0], set()).add(
                                    ('elem', '%s (through parameter %s of %s)' % (
                                        f.qualname, params[i], cal.qualname)))
    return out


# ---------------------------------------------------------------------------
# P4 for bound classes with an `update`
# ---------------------------------------------------------------------------

def _u_cover(U):
    """attr -> 'whole' | 'elem' from an updater table."""
    cover = {}
    for u in U:
        a = u.attr or (getattr(u, 'derived_from', None) if u.kind == 'group' else None)
        if u.attr is None and u.kind != 'group':
            continue
        if a is None:
            continue
        kind = 'elem' if u.key_args else 'whole'
        if cover.get(a) != 'whole':
            cover[a] = kind
    return cover


def _presence_edge_ok(node, lab):
    """Edge filter that assumes presence / type tests of optional members succeed:
    `X is not None`, `isinstance(...)`, `K in group` (an edge whose facts say the member
    is absent is infeasible under that assumption)."""
    from .cfg import edge_facts
    if node.kind != 'test' or lab not in (True, False):
        return True
    for e, tx, truth in edge_facts(node.expr, lab):
        if isinstance(e, ast.Compare) and len(e.ops) == 1 and \
                isinstance(e.comparators[0], ast.Constant) and e.comparators[0].value is None \
                and isinstance(e.ops[0], ast.Is) and truth is True:
            return False        # "X is None": the member is absent
        if isinstance(e, ast.Call) and dotted(e.func) == 'isinstance' and truth is False:
            return False
        if isinstance(e, ast.Compare) and len(e.ops) == 1 and isinstance(e.ops[0], ast.In) \
                and truth is False:
            return False
    return True


def _updates_on_every_path(ctx, rid, func, entries, label):
    """Each updater entry is executed on every path from entry to the normal exit
    (optional members: assuming their presence test succeeds)."""
    cfg = cfg_of(func)
    by_key = {}
    for e in entries:
        if cfg.has(e.node):
            by_key.setdefault((e.key, getattr(e, 'op', e.kind)), set()).add(
                cfg.node_of(e.node).id)
    for (key, op), nodes in sorted(by_key.items()):
        ok = cfg.must_pass(cfg.entry.id, cfg.exit.id, nodes, edge_ok=_presence_edge_ok)
        ctx.ob(rid, '%s:always(%s/%s)' % (label, key, op), ok, func.where(),
               'key %r is rewritten on every path through %s' % (key, func.qualname) if ok else
               'a path through %s returns without rewriting key %r (a conditional skip): the '
               'checkpoint can keep a stale value' % (func.qualname, key))


def rule_P4_bound(ctx, cls, rid='P4'):
    ctx.rule(rid, 'incremental completeness: every persisted attribute that the code running '
             'between two full writes can modify is re-written by the incremental update '
             '(or the modification is followed by a full write before the next update)')
    prog = ctx.program
    w, u = cls.methods['write'], cls.methods['update']
    W = writer_table(w)
    U = [e for e in writer_table(u, 'U')]
    roots = [cls.methods[m] for m in ('sample', 'log_v') if m in cls.methods]
    mut = mutated_attrs(prog, roots, cls.name)
    persisted = {e.attr for e in W if e.attr}
    cover = _u_cover(U)
    n = 0
    for a in sorted(mut):
        if a not in persisted:
            continue
        ok = a in cover
        n += 1
        ctx.ob(rid, '%s.update:missing=%s' % (cls.name, a) if not ok else
               '%s.update:covers=%s' % (cls.name, a), ok, u.where(),
               'attribute %r is modified by %s between full writes and is %s by %s' % (
                   a, sorted({v for _, v in mut[a]})[:3], 're-written' if ok else
                   'NOT re-written', u.qualname))
    # update writes under the key the writer created, from the same attribute
    wk = {(e.key, e.attr) for e in W if e.attr}
    for e in U:
        if e.attr is None:
            continue
        ok = (e.key, e.attr) in wk
        n += 1
        ctx.ob(rid, '%s.update:key(%s)' % (cls.name, e.key), ok, e.where,
               'update stores attribute %r under key %r, %s' % (
                   e.attr, e.key, 'as the full write does' if ok else
                   'but the full write stores it under a different key / from another attribute'))
    # a dataset that is overwritten is first resized from the same attribute
    for e in U:
        if getattr(e, 'op', None) == 'overwrite':
            rs = [r for r in U if getattr(r, 'op', None) == 'resize' and r.key == e.key and
                  getattr(r, 'derived_from', None) == e.attr and
                  r.node.lineno <= e.node.lineno]
            n += 1
            ctx.ob(rid, '%s:resize(%s)' % (u.qualname, e.key), bool(rs), e.where,
                   'dataset %r is resized to the current shape of %r before it is overwritten'
                   % (e.key, e.attr) if rs else
                   'dataset %r is overwritten without being resized to the shape of %r'
                   % (e.key, e.attr))
    _updates_on_every_path(ctx, rid, u, U, '%s.update' % cls.name)
    # nested objects with their own update
    res = resolver(prog)
    for e in W:
        if e.kind != 'group' or not e.attr:
            continue
        for d in res.attr_types.get((cls.name, e.attr), ()):
            dc = prog.classes[d]
            if 'update' not in dc.methods:
                continue
            dm = mutated_attrs(prog, roots, d)
            dW = writer_table(dc.methods['write'])
            dp = {x.attr for x in dW if x.attr}
            if set(dm) & dp:
                ok = any(x.kind == 'group' and (x.attr == e.attr or
                         getattr(x, 'derived_from', None) == e.attr) for x in U)
                n += 1
                ctx.ob(rid, '%s.update:nested(%s)' % (cls.name, e.attr), ok, u.where(),
                       'sub-object %r (%s) is modified between full writes (%s) and its update '
                       'is %s' % (e.attr, d, sorted(set(dm) & dp), 'forwarded' if ok else
                                  'NOT forwarded by %s' % u.qualname))
    return n


# ---------------------------------------------------------------------------
# P4 / P6 for the sampler
# ---------------------------------------------------------------------------

def _is_filepath_test(e):
    return (isinstance(e, ast.Compare) and len(e.ops) == 1 and isinstance(e.ops[0], ast.IsNot)
            and isinstance(e.comparators[0], ast.Constant) and e.comparators[0].value is None
            and dotted(e.left) == 'self.filepath')


def _assume_filepath():
    """Edge filter: a checkpoint file is configured (`self.filepath is None` is false)."""
    from .cfg import assume
    return assume(('self.filepath is None', False))


def _is_first_batch_test(e):
    if isinstance(e, ast.Compare) and len(e.ops) == 1 and isinstance(e.ops[0], ast.Eq):
        return {dotted(e.left), dotted(e.comparators[0])} == {'self.n_like', 'self.n_batch'}
    return False


def _calls_to(func, method, wrappers=()):
    """Calls self.<method>(...) in func; `wrappers` are further method names that are
    known to perform that call on every path."""
    cfg = cfg_of(func)
    names = {method} | set(wrappers)
    out = []
    for n in walk_no_nested(func.node):
        if isinstance(n, ast.Call) and isinstance(n.func, ast.Attribute) and \
                n.func.attr in names and isinstance(n.func.value, ast.Name) and \
                n.func.value.id == func.self_name and cfg.has(n):
            out.append(n)
    return out


def _wrappers_of(cls, method):
    """Methods of `cls` every normal path of which (with `self.filepath is not None`
    assumed) calls self.<method>: a call to such a wrapper is as good as the call itself
    (one level; wrappers of wrappers are not followed)."""
    out = set()
    for name, f in cls.methods.items():
        if name == method or f.kind not in ('method',) or not f.self_name:
            continue
        cfg = cfg_of(f)
        calls = {cfg.node_of(c).id for c in _calls_to(f, method)}
        if not calls:
            continue

        edge_ok = _assume_filepath()
        if cfg.must_pass(cfg.entry.id, cfg.exit.id, calls, edge_ok=edge_ok):
            out.add(name)
    return out


def _covered(cover, attr, kind, list_attrs):
    c = cover.get(attr)
    if c == 'whole':
        return True
    if c == 'elem':
        return kind in ('elem', 'aug') and attr in list_attrs
    return False


def rule_P4_sampler(ctx, rid='P4', rid6='P6'):
    ctx.rule(rid, 'incremental completeness: every persisted attribute that the code running '
             'between two full writes can modify is re-written by the incremental update '
             '(or the modification is followed by a full write before the next update)')
    ctx.rule(rid6, 'layout change => full write: in run(), with a checkpoint file configured, '
             'every state change that the incremental update cannot express is followed by '
             'write() before the next write_shell_update() on every path')
    prog = ctx.program
    res = resolver(prog)
    S = prog.cls('Sampler')
    run = prog.func('Sampler.run')
    wfun, ufun = prog.func('Sampler.write'), prog.func('Sampler.write_shell_update')
    W = writer_table(wfun)
    U = writer_table(ufun, 'U')
    persisted = {}
    for e in W:
        a = e.attr or getattr(e, 'derived_from', None)
        if a:
            persisted.setdefault(a, []).append(e)
    cover = _u_cover(U)
    ukeys = {e.key for e in U}
    # list-valued attributes: those persisted under a formatted key per element
    list_attrs = {e.attr for e in W if e.attr and e.key_args}
    cfg = cfg_of(run)
    add_samples = prog.func('Sampler.add_samples')

    # -- (1b) a dataset that grows is resized to its source before it is overwritten
    ucfg = cfg_of(ufun)
    for e in U:
        if getattr(e, 'op', None) != 'overwrite':
            continue
        rs = [r for r in U if getattr(r, 'op', None) == 'resize' and r.key == e.key and
              ucfg.has(r.node) and ucfg.has(e.node) and
              ucfg.dominates(ucfg.node_of(r.node).id, ucfg.node_of(e.node).id)]
        ctx.ob(rid, 'Sampler.write_shell_update:resize-before-overwrite(%s)' % e.key, bool(rs),
               e.where,
               'dataset %r is resized on every path before it is overwritten' % e.key if rs else
               'dataset %r is overwritten without first being resized to the array it receives: '
               'once the array has grown the update fails or stores a truncated copy' % e.key)

    # -- (2) per-batch state
    mut = mutated_attrs(prog, [add_samples], 'Sampler')
    for a in sorted(mut):
        if a not in persisted:
            continue
        for kind in sorted({k for k, _ in mut[a]}):
            if kind == 'assign' and _is_optional_init(add_samples, a):
                # `if self.a is None: self.a = [...]`: creation of an optional member by the
                # first batch that produces it, i.e. the first batch of the sampler's life,
                # which is followed by a full write (first-batch obligation under P6)
                ctx.ob(rid, 'Sampler.add_samples:optional-init(%s)' % a, True,
                       add_samples.where(), 'rebinding of %r happens only under `self.%s is '
                       'None` (initialisation by the first batch)' % (a, a))
                continue
            ok = _covered(cover, a, kind, list_attrs)
            via = sorted({v for k, v in mut[a] if k == kind})[:2]
            ctx.ob(rid, 'Sampler.write_shell_update:missing=%s' % a if not ok else
                   'Sampler.write_shell_update:covers=%s/%s' % (a, kind), ok, ufun.where(),
                   'attribute %r (%s write in %s) changes in every batch and is %s by the '
                   'incremental update' % (a, kind, via, 're-written' if ok else
                                           'NOT re-written'))
    # -- (2b) objects stored in persisted lists that have their own incremental update
    for e in W:
        if e.kind != 'group' or not e.attr:
            continue
        for d in sorted(res.attr_types.get(('Sampler', e.attr), ())):
            dc = prog.classes[d]
            if 'update' not in dc.methods or 'write' not in dc.methods:
                continue
            dm = mutated_attrs(prog, [add_samples], d)
            dp = {x.attr for x in writer_table(dc.methods['write']) if x.attr}
            hit = sorted(set(dm) & dp)
            if not hit:
                continue
            ok = any(u.kind == 'group' and (u.attr == e.attr or
                     getattr(u, 'derived_from', None) == e.attr) for u in U)
            ctx.ob(rid, 'Sampler.write_shell_update:nested(%s:%s)' % (e.attr, d), ok,
                   ufun.where(), 'every batch modifies %s of the %s stored in self.%s and its '
                   'update() is %s by the incremental update' % (
                       hit, d, e.attr, 'called' if ok else 'NOT called'))
    for u in U:
        _index_agreement(ctx, rid, 'Sampler', u)
    _updates_on_every_path(ctx, rid, ufun, U, 'Sampler.write_shell_update')
    # -- (3) the generator
    draws = res.trans(add_samples).draws
    if draws and 'rng' in persisted:
        for e in persisted['rng']:
            ok = e.key in ukeys
            ctx.ob(rid, 'Sampler.write_shell_update:missing=%s' % e.key if not ok else
                   'Sampler.write_shell_update:covers=%s' % e.key, ok, ufun.where(),
                   'generator state key %r: every batch draws random numbers (%d draw sites '
                   'reachable from add_samples) and the key is %s by the incremental update'
                   % (e.key, len(draws), 're-written' if ok else 'NOT re-written'))
    # -- (5) public mutators
    for name, f in sorted(S.methods.items()):
        if f.kind != 'setter':
            continue
        pm = mutated_attrs(prog, [f], 'Sampler')
        for a in sorted(pm):
            if a not in persisted:
                continue
            for kind in sorted({k for k, _ in pm[a]}):
                ok = _covered(cover, a, kind, list_attrs)
                ctx.ob(rid, 'Sampler.write_shell_update:missing=%s' % a if not ok else
                       'Sampler.write_shell_update:covers=%s/%s(setter)' % (a, kind), ok,
                       ufun.where(),
                       'attribute %r can be changed at any time through the public setter %s and '
                       'is %s by the incremental update (the next checkpoint after a toggle is '
                       'an incremental one)' % (a, f.qualname, 're-written' if ok else
                                                'NOT re-written'))
    # -- (4) P6: state changes in run() that need a full write
    w_wrap = _wrappers_of(S, 'write') - {'write_shell_update'}
    u_wrap = _wrappers_of(S, 'write_shell_update') - {'write'} - w_wrap
    full = {cfg.node_of(c).id for c in _calls_to(run, 'write', w_wrap)}
    incr = {cfg.node_of(c).id for c in _calls_to(run, 'write_shell_update', u_wrap)}
    ctx.require(full, 'Sampler.run no longer calls self.write (P6 anchor)')
    ctx.require(incr, 'Sampler.run no longer calls self.write_shell_update (P6 anchor)')
    first_block = set()
    for t in cfg.nodes:
        if t.kind == 'test' and 'len(self.bounds) == 0' in unparse(t.expr):
            for s, lab in t.succ:
                if lab is True:
                    first_block |= cfg.reach(s, avoid=[x.id for x in cfg.nodes
                                                       if x.kind == 'test' and x is not t],
                                             include_src=True)

    def edge_ok_for(start):
        return _assume_filepath()

    # The initial bound of a fresh sampler is created before any checkpoint exists.  Its
    # state reaches the file through the full write of the first batch: between the
    # exploration-phase add_samples and the following incremental update there must be a
    # test `n_like == n_batch` whose true branch performs a full write first.
    def first_batch_obligation():
        from .cfg import edge_facts
        tests = []
        for t in cfg.nodes:
            if t.kind != 'test':
                continue
            for lab in (True, False):
                if any(_is_first_batch_test(e_) and tr_ is True
                       for e_, tx_, tr_ in edge_facts(t.expr, lab)):
                    tests.append((t, lab))
        ok = False
        for t, flab in tests:
            tsucc = [x for x, lab in t.succ if lab is flab]
            for c in _calls_to(run, 'add_samples'):
                a = cfg.node_of(c).id
                if t.id not in cfg.reach(a, avoid=incr | full, edge_ok=edge_ok_for(a)):
                    continue
                firsts = [i for i in incr if cfg.can_reach(a, i, avoid=(incr - {i}),
                                                           edge_ok=edge_ok_for(a))]
                # every way from the batch to an incremental update leads through the
                # first-batch test - or through some other full write (the end of exploration)
                if firsts and all(cfg.must_pass(a, i, {t.id} | full, edge_ok=edge_ok_for(a)) and
                                  all(x in full or
                                      cfg.must_pass(x, i, full, edge_ok=edge_ok_for(a))
                                      for x in tsucc) for i in firsts):
                    ok = True
        ctx.ob(rid6, 'Sampler.run:first-batch-full-write', ok, run.where(),
               'the first batch of a fresh sampler is followed by a full write before the first '
               'incremental update (test `n_like == n_batch`)' if ok else
               'no full write is guaranteed after the first batch of a fresh sampler: the first '
               'incremental update would open a file that does not exist / lacks the initial '
               'bound')
        return ok

    sites = []     # (node id, description, {(attr, kind)})
    d = res.direct(run)
    # direct writes
    for n in walk_no_nested(run.node):
        hits = set()
        tg = []
        if isinstance(n, ast.Assign):
            tg = [(t, 'assign') for t in n.targets]
        elif isinstance(n, ast.AugAssign):
            tg = [(n.target, 'aug')]
        elif isinstance(n, ast.Call) and isinstance(n.func, ast.Attribute) and \
                n.func.attr in ('append', 'pop', 'extend', 'insert', 'remove', 'clear'):
            tg = [(n.func.value, 'mutcall')]
        for t, k in tg:
            ra = root_attr(t, run.self_name)
            if ra:
                kind = k if not ra[1] or k == 'mutcall' else ('elem' if k == 'assign' else k)
                setter = S.methods.get(ra[0] + '.setter')
                if setter is not None and not ra[1]:
                    for a, ks in mutated_attrs(prog, [setter], 'Sampler').items():
                        hits |= {(a, kk) for kk, _ in ks}
                else:
                    hits.add((ra[0], kind))
        if hits and cfg.has(n):
            sites.append((cfg.node_of(n).id, unparse(n)[:60], hits))
    # calls to other mutating methods of the sampler
    for n in walk_no_nested(run.node):
        if isinstance(n, ast.Call) and isinstance(n.func, ast.Attribute) and \
                isinstance(n.func.value, ast.Name) and n.func.value.id == run.self_name and \
                n.func.attr in S.methods and n.func.attr not in (
                    'add_samples', 'write', 'write_shell_update') and cfg.has(n):
            f = S.methods[n.func.attr]
            m = mutated_attrs(prog, [f], 'Sampler')
            hits = {(a, k) for a, ks in m.items() for k, _ in ks}
            if hits:
                sites.append((cfg.node_of(n).id, 'self.%s()' % f.name, hits))
    ctx.require(sites, 'Sampler.run: no state-changing site found (P6 anchor)')
    did_first = []
    for nid, desc, hits in sites:
        need_full = sorted({a for a, k in hits if a in persisted and
                            not _covered(cover, a, k, list_attrs)})
        if not need_full:
            ctx.ob(rid6, 'Sampler.run:%s' % _site_key(desc), True, run.where(cfg.nodes[nid].ast),
                   'state change `%s` is expressible by the incremental update' % desc)
            continue
        if nid in first_block:
            if not did_first:
                first_batch_obligation()
                did_first.append(1)
            continue
        r = cfg.reach(nid, avoid=full, edge_ok=edge_ok_for(nid))
        leak = sorted(i for i in incr if i in r)
        ok = not leak
        ctx.ob(rid6, 'Sampler.run:%s:needs-full-write(%s)' % (_site_key(desc),
                                                              ','.join(need_full)) if not ok
               else 'Sampler.run:%s' % _site_key(desc), ok, run.where(cfg.nodes[nid].ast),
               'state change `%s` modifies %s, which the incremental update cannot express, '
               'and %s' % (desc, need_full,
                           'a full write follows on every path before the next incremental '
                           'update' if ok else
                           'write_shell_update (line %s) is reachable without an intervening '
                           'full write: the checkpoint would not contain the change'
                           % [cfg.nodes[i].lineno for i in leak]))
    # -- (4b) file == memory at every step boundary: a state change of run() reaches a
    # checkpoint write before the loop comes round or run() returns (a stop by n_like_max or
    # timeout, or a kill while the next batch is evaluated, leaves exactly that file)
    loop_heads = [t.id for t in cfg.nodes if t.kind == 'test' and isinstance(t.ast, ast.While)]
    for nid, desc, hits in sites:
        if nid in first_block or not any(a in persisted for a, k in hits):
            continue
        if not any(cfg.can_reach(h, nid) for h in loop_heads):
            continue        # before the loop: covered by the first-batch obligation
        r = cfg.reach(nid, avoid=full | incr, edge_ok=edge_ok_for(nid))
        # ... nor before the next batch is handed to the likelihood: a kill while that batch is
        # evaluated leaves the file of the last write (C05_m: counters reset after the write)
        batches = {cfg.node_of(c).id for c in _calls_to(run, 'add_samples')} - {nid}
        leak = [h for h in loop_heads if h in r] + ([cfg.exit.id] if cfg.exit.id in r else []) \
            + sorted(b for b in batches if b in r)
        ok = not leak
        ctx.ob(rid6, 'Sampler.run:%s:persisted-before-next-step' % _site_key(desc), ok,
               run.where(cfg.nodes[nid].ast),
               'state change `%s` reaches a checkpoint write before the next step' % desc if ok
               else 'state change `%s` (%s) is not followed by any checkpoint write before the '
               'loop comes round / run() returns: a run stopped or killed there resumes from a '
               'file that does not contain it' % (
                   desc, sorted({a for a, k in hits if a in persisted})[:4]))
    # -- (6) the shell passed to add_samples is the shell whose update is written
    for c in _calls_to(run, 'add_samples'):
        nid = cfg.node_of(c).id
        arg = c.args[0] if c.args else None
        ctx.require(arg is not None, 'add_samples call without shell argument')
        r = cfg.reach(nid, avoid=full | {x for x in incr}, edge_ok=edge_ok_for(nid))
        nxt = [i for i in incr if i in cfg.reach(nid, edge_ok=edge_ok_for(nid))]
        # first incremental updates reachable without passing another one
        firsts = []
        for i in incr:
            if cfg.can_reach(nid, i, avoid=(incr - {i}) | full, edge_ok=edge_ok_for(nid)):
                firsts.append(i)
        for i in firsts:
            uc = [x for x in _calls_to(run, 'write_shell_update', u_wrap)
                  if cfg.node_of(x).id == i][0]
            sarg = _shell_arg_of_update(S, uc)
            ok = sarg is not None and ekey(cfg, i, sarg) == ekey(cfg, nid, arg)
            ctx.ob(rid, 'Sampler.run:update-shell(%s)' % unparse(arg), ok, run.where(uc),
                   'batch added to shell `%s`, incremental update written for shell `%s`'
                   % (unparse(arg), unparse(sarg) if sarg is not None else '?'))
        ok = bool(firsts) or not cfg.can_reach(nid, cfg.exit.id, avoid=full | incr,
                                               edge_ok=edge_ok_for(nid))
        if not firsts:
            # no incremental update follows: a full write must
            ctx.ob(rid, 'Sampler.run:batch-not-checkpointed(%s)' % unparse(arg), ok,
                   run.where(c), 'a batch is added but no checkpoint write follows on some path')
        else:
            ok2 = not cfg.can_reach(nid, cfg.nodes[nid].id, avoid=full | incr,
                                    edge_ok=edge_ok_for(nid)) and \
                cfg.exit.id not in cfg.reach(nid, avoid=full | incr, edge_ok=edge_ok_for(nid))
            ctx.ob(rid, 'Sampler.run:batch-checkpointed(%s)' % unparse(arg), ok2, run.where(c),
                   'every path from this batch reaches a checkpoint write before the next batch '
                   'or the return' if ok2 else
                   'a path from this batch reaches the next batch or the return without any '
                   'checkpoint write')
    # -- index discipline inside add_samples: element writes use the shell it was given
    _rule_shell_index(ctx, rid, add_samples, list_attrs | {'shell_n_sample'})


def rule_P4_sampler_subset(ctx, tokens, why):
    """The checkpoint-completeness obligations (P4 / P6) that concern the attributes a
    property depends on: the whole rule is evaluated, obligations whose construct names one
    of `tokens` are kept.  Obligations about other attributes belong to other properties."""
    from .core import Ctx
    sub = Ctx(ctx.prop, ctx.tier, ctx.program, ctx.seed)
    rule_P4_sampler(sub)
    for rid, text in sub.rules.items():
        ctx.rule(rid, text + ' [restricted to: %s]' % why)
    kept = 0
    for o in sub.obligations:
        if any(t in o.construct for t in tokens):
            ctx.obligations.append(o)
            ctx.instances[o.rule] = ctx.instances.get(o.rule, 0) + 1
            kept += 1
    ctx.notes += sub.notes
    return kept


def _is_optional_init(func, attr):
    """Every plain assignment `self.attr = ...` in func is control dependent on
    `self.attr is None`."""
    cfg = cfg_of(func)
    sites = []
    for n in walk_no_nested(func.node):
        if isinstance(n, ast.Assign):
            for t in n.targets:
                if isinstance(t, ast.Attribute) and isinstance(t.value, ast.Name) and \
                        t.value.id == func.self_name and t.attr == attr:
                    sites.append(n)
    if not sites:
        return False
    for n in sites:
        if not cfg.has_fact(cfg.node_of(n).id, 'self.%s is None' % attr, True):
            return False
    return True


def _shell_arg_of_update(cls, call):
    """The expression that ends up as the `shell` argument of write_shell_update for a call
    to it or to a one-level wrapper (the wrapper's parameter that it forwards)."""
    name = call.func.attr
    if name == 'write_shell_update':
        return call.args[1] if len(call.args) > 1 else None
    w = cls.methods.get(name)
    if w is None:
        return None
    params = [p for p in w.params if p != w.self_name]
    for c in walk_no_nested(w.node):
        if isinstance(c, ast.Call) and isinstance(c.func, ast.Attribute) and \
                c.func.attr == 'write_shell_update' and len(c.args) > 1 and \
                isinstance(c.args[1], ast.Name) and c.args[1].id in params:
            k = params.index(c.args[1].id)
            if k < len(call.args):
                return call.args[k]
            for kw in call.keywords:
                if kw.arg == c.args[1].id:
                    return kw.value
    return None


def _site_key(desc):
    import re
    return re.sub(r'[^A-Za-z0-9_.]+', '_', desc)[:40].strip('_')


def _rule_shell_index(ctx, rid, func, attrs):
    cfg = cfg_of(func)
    shell = func.params[1] if len(func.params) > 1 else None
    ctx.require(shell is not None, '%s has no shell parameter' % func.qualname)
    for n in walk_no_nested(func.node):
        tg = []
        if isinstance(n, ast.Assign):
            tg = n.targets
        elif isinstance(n, ast.AugAssign):
            tg = [n.target]
        for t in tg:
            ra = root_attr(t, func.self_name)
            if not ra or ra[0] not in attrs or not ra[1] or ra[1][0][0] != 'idx':
                continue
            idx = ra[1][0][1]
            ok = isinstance(idx, ast.Name) and idx.id == shell
            why = 'index is the shell parameter'
            if not ok:
                # a constant index is fine only under a guard `shell == <that constant>`
                cv = const_value(idx)
                nid = cfg.node_of(n).id
                for sub, tx, truth in cfg.facts(nid):
                    if truth is True and isinstance(sub, ast.Compare) and len(sub.ops) == 1 \
                            and isinstance(sub.ops[0], ast.Eq) and \
                            isinstance(sub.left, ast.Name) and sub.left.id == shell and \
                            const_value(sub.comparators[0], object()) == cv:
                        ok = True
                        why = 'constant index %r under the guard `%s == %r`' % (cv, shell, cv)
            ctx.ob(rid, '%s:index(%s)' % (func.qualname, ra[0]), ok, func.where(n),
                   'element write to self.%s[%s]: %s' % (ra[0], unparse(idx), why if ok else
                   'index is neither the shell parameter nor guarded to equal it; the '
                   'incremental update only rewrites the shell it is given'))


def _conj_member(test, sub):
    """`sub` is the test itself or a conjunct of an `and` chain (so test true => sub true)."""
    if test is sub:
        return True
    if isinstance(test, ast.BoolOp) and isinstance(test.op, ast.And):
        return any(_conj_member(v, sub) for v in test.values)
    return False


# ---------------------------------------------------------------------------
# P5 dispatch
# ---------------------------------------------------------------------------

P5_EXCEPTIONS = {
    ('UnitCubeEllipsoidMixture', 'ellipsoid', 'UnitCube'):
        'volume placeholder in compute(): replaced by an Ellipsoid or discarded (ellipsoid=None) '
        'before it could be stored',
}


def rule_P5(ctx, cname, reader, obj, rid='P5'):
    ctx.rule(rid, 'dispatch: the classes a reader can reconstruct into an attribute cover '
             'exactly the classes the creating code can put there')
    prog = ctx.program
    res = resolver(prog)
    R = reader_table(reader, obj)
    by_attr = {}
    for r in R:
        if r.kind == 'group' and r.attr:
            names = set()
            for c in r.cls_names:
                if c in prog.classes:
                    names.add(c)
                else:
                    names |= res._class_objects(reader, ast.Name(id=c, ctx=ast.Load()))
            by_attr.setdefault(r.attr, set()).update(names)
    n = 0
    for attr, readable in sorted(by_attr.items()):
        creatable = set(res.attr_types.get((cname, attr), set()))
        for c in list(creatable):
            if (cname, attr, c) in P5_EXCEPTIONS:
                creatable.discard(c)
        missing = creatable - readable
        n += 1
        ctx.ob(rid, '%s.%s:dispatch' % (cname, attr), not missing, reader.where(),
               'attribute %r can hold %s; the reader reconstructs %s%s' % (
                   attr, sorted(creatable), sorted(readable),
                   '' if not missing else ' -- %s cannot be read back' % sorted(missing)))
    return n


# ---------------------------------------------------------------------------
# P7 optional members: the reader decides presence exactly as the constructor / writer does
# ---------------------------------------------------------------------------

def _optional_assignments(func, obj):
    """attr -> (guard expr, polarity under which the attribute is assigned a non-None
    value) for attributes that are assigned None on another branch."""
    par = _parents(func.node)
    none_attrs, some = set(), {}
    for n in walk_no_nested(func.node):
        if isinstance(n, ast.Assign) and len(n.targets) == 1 and \
                isinstance(n.targets[0], ast.Attribute) and \
                isinstance(n.targets[0].value, ast.Name) and n.targets[0].value.id == obj:
            a = n.targets[0].attr
            if isinstance(n.value, ast.IfExp):
                # obj.a = X if cond else None   /   None if cond else X
                v = n.value
                b_none = isinstance(v.body, ast.Constant) and v.body.value is None
                o_none = isinstance(v.orelse, ast.Constant) and v.orelse.value is None
                if b_none != o_none:
                    none_attrs.add(a)
                    some.setdefault(a, []).append((v.test, o_none))
                continue
            if isinstance(n.value, ast.Constant) and n.value.value is None:
                none_attrs.add(a)
            else:
                g = _guards_of(func, n, par)
                if g:
                    some.setdefault(a, []).append(g[-1])
    return {a: some[a] for a in none_attrs if a in some}


def _norm_guard(test, pol, obj):
    """Normalised text of a presence predicate with the object variable abstracted and
    the polarity folded in."""
    t = test
    while isinstance(t, ast.UnaryOp) and isinstance(t.op, ast.Not):
        pol = not pol
        t = t.operand
    if isinstance(t, ast.Compare) and len(t.ops) == 1 and isinstance(t.ops[0], ast.Is) and \
            isinstance(t.comparators[0], ast.Constant) and t.comparators[0].value is None:
        # canonical form: `X is not None` / `not X is not None`
        t = ast.Compare(left=t.left, ops=[ast.IsNot()], comparators=t.comparators)
        pol = not pol
    txt = unparse(t)
    import re
    txt = re.sub(r'\b%s\.' % re.escape(obj), 'OBJ.', txt)
    return ('' if pol else 'not ') + txt


def rule_P7(ctx, cls, w, r, rid='P7'):
    ctx.rule(rid, 'optional members: an attribute that may be None is restored under the same '
             'presence predicate the constructor uses, or under a file probe / flag that the '
             'writer emits exactly when the attribute is present')
    comp = cls.methods.get('compute')
    if comp is None:
        return 0
    cobj, robj = _ctor_obj(comp), _ctor_obj(r)
    copt = _optional_assignments(comp, cobj)
    ropt = _optional_assignments(r, robj)
    W = writer_table(w)
    n = 0
    for attr in sorted(set(copt) & set(ropt)):
        for test, pol in ropt[attr][:1]:
            n += 1
            rtxt = _norm_guard(test, pol, robj)
            ctxts = {_norm_guard(t, p, cobj) for t, p in copt[attr]}
            # (a) same predicate over restored state
            if rtxt in ctxts:
                ctx.ob(rid, '%s.read:presence(%s)' % (cls.name, attr), True, r.where(test),
                       'restored exactly when `%s`, as in compute()' % rtxt)
                continue
            # (b) a probe of the key the writer emits under `self.attr is not None`
            probes = guard_probes(Entry('R', 'x', '', None, test, [(test, pol)], r))
            inner, epol = test, pol
            while isinstance(inner, ast.UnaryOp) and isinstance(inner.op, ast.Not):
                inner, epol = inner.operand, (not epol)
            if isinstance(inner, ast.Compare) and len(inner.ops) == 1 and \
                    isinstance(inner.ops[0], ast.NotIn):
                inner = ast.Compare(left=inner.left, ops=[ast.In()],
                                    comparators=inner.comparators)
                epol = not epol
            ok = False
            why = 'read() restores %r when `%s` but compute() creates it when %s' % (
                attr, rtxt, sorted(ctxts))
            for k in probes:
                ws = [e for e in W if e.key == k]
                for e in ws:
                    if e.kind == 'group' and e.attr == attr and e.guards and \
                            _norm_guard(e.guards[-1][0], e.guards[-1][1], 'self') == \
                            'OBJ.%s is not None' % attr and epol is True and \
                            isinstance(inner, ast.Compare) and isinstance(inner.ops[0], ast.In):
                        ok = True
                        why = 'restored when key %r is present; the writer emits it exactly ' \
                              'when the attribute is not None' % k
                    if e.kind == 'attr' and e.src is not None and \
                            unparse(e.src) == 'self.%s is not None' % attr and epol is True \
                            and isinstance(inner, ast.Subscript):
                        ok = True
                        why = 'restored when flag %r is true; the writer stores `%s`' % (
                            k, unparse(e.src))
            ctx.ob(rid, '%s.read:presence(%s)' % (cls.name, attr), ok, r.where(test), why)
    # an optional attribute never receives a value in read() without the file being asked
    # whether it was present: every non-None assignment that can survive to the return is
    # guarded by a file probe / stored flag / restored state
    rcfg = cfg_of(r)
    rassigned = attrs_assigned(r, robj)
    rpar = _parents(r.node)
    for attr in sorted(copt):
        for st in walk_no_nested(r.node):
            if not (isinstance(st, ast.Assign) and len(st.targets) == 1 and
                    isinstance(st.targets[0], ast.Attribute) and
                    isinstance(st.targets[0].value, ast.Name) and
                    st.targets[0].value.id == robj and st.targets[0].attr == attr and
                    rcfg.has(st)):
                continue
            if isinstance(st.value, ast.Constant) and st.value.value is None:
                continue
            if isinstance(st.value, ast.IfExp):
                continue        # handled through its own test above
            nid = rcfg.node_of(st).id
            later = rassigned.get(attr, set()) - {nid}
            if later and rcfg.must_pass(nid, rcfg.exit.id, later):
                continue
            guarded = any(_file_guard(t, robj) for t, _ in _guards_of(r, st, rpar))
            n += 1
            ctx.ob(rid, '%s.read:presence-asked(%s)' % (cls.name, attr), guarded, r.where(st),
                   'the value assigned to optional attribute %r depends on what the file says'
                   % attr if guarded else
                   'optional attribute %r receives `%s` on a path that never asks the file '
                   'whether it was present: an object written without it comes back with one'
                   % (attr, unparse(st.value)[:50]))
    return n


# ---------------------------------------------------------------------------
# P0 state completeness: every attribute that changes after construction is persisted
# ---------------------------------------------------------------------------

P0_EXCEPTIONS = {
    ('Sampler', 'blobs_dtype'): 're-derived from the dtype of the stored blob datasets on resume',
    ('Union', 'rng'): 'the shared generator is persisted once, by the sampler',
    ('NautilusBound', 'rng'): 'the shared generator is persisted once, by the sampler',
    ('UnitCube', 'rng'): 'the shared generator is persisted once, by the sampler',
    ('Ellipsoid', 'rng'): 'the shared generator is persisted once, by the sampler',
}


def rule_P0(ctx, cname, roots, writer, rid='P0'):
    ctx.rule(rid, 'state completeness: every attribute that the stepping code can modify after '
             'construction is written by the full checkpoint writer (or is re-derivable, with '
             'the reason recorded)')
    prog = ctx.program
    W = writer_table(writer)
    persisted = set()
    for e in W:
        a = e.attr or getattr(e, 'derived_from', None)
        if a:
            persisted.add(a)
    mut = mutated_attrs(prog, roots, cname)
    infl = _influential_reads(prog, roots, cname)
    n = 0
    for a in sorted(mut):
        if a not in infl and a not in persisted:
            # written but never consulted (e.g. a diagnostic counter): cannot influence a
            # resumed run, so its absence from the file does not break the property
            ctx.note('attribute %s.%s is modified but never read by the stepping code: not '
                     'required in the checkpoint' % (cname, a))
            continue
        if a not in persisted and _is_memo_cache(prog, cname, a):
            ctx.note('attribute %s.%s is a memoisation cache (only ever set to None or filled '
                     'under `is None`): re-derivable, not required in the checkpoint' % (cname, a))
            continue
        n += 1
        exc = P0_EXCEPTIONS.get((cname, a))
        ok = a in persisted or exc is not None
        ctx.ob(rid, '%s:persisted(%s)' % (cname, a), ok, writer.where(),
               'mutable attribute %r is %s' % (a, 'written by %s' % writer.qualname if a in
                                               persisted else 'not written: ' + (exc or '')) if ok
               else 'attribute %r is modified by %s but never written to the checkpoint: a '
               'resumed run continues from a different state' % (
                   a, sorted({v for _, v in mut[a]})[:2]))
    return n


def _influential_reads(prog, roots, cname):
    """Attributes of `cname` loaded by the code reachable from `roots`, not counting loads
    inside a statement that only updates that same attribute."""
    res = resolver(prog)
    seen, work, out = set(), list(roots), set()
    while work:
        f = work.pop()
        if f.qualname in seen:
            continue
        seen.add(f.qualname)
        for _, callees, _ in res.direct(f).calls:
            work.extend(callees)
        if f.cls is None:
            continue
        recv = f.self_name
        for st in walk_no_nested(f.node):
            if not isinstance(st, ast.stmt):
                continue
            own = set()
            if isinstance(st, (ast.Assign, ast.AugAssign)):
                for t in (st.targets if isinstance(st, ast.Assign) else [st.target]):
                    ra = root_attr(t, recv) if recv else None
                    if ra:
                        own.add(ra[0])
            if isinstance(st, (ast.If, ast.While, ast.For, ast.With, ast.Try,
                               ast.FunctionDef)):
                subs = [st.test] if isinstance(st, (ast.If, ast.While)) else (
                    [st.iter] if isinstance(st, ast.For) else [])
            else:
                subs = [st]
            for sub0 in subs:
                for sub in ast.walk(sub0):
                    if isinstance(sub, ast.Attribute) and isinstance(sub.ctx, ast.Load):
                        t = res.type_of(f, sub.value)
                        if t and cname in t and sub.attr not in own:
                            out.add(sub.attr)
    return out


# ---------------------------------------------------------------------------
# P8 attribute sweep of the emulator
# ---------------------------------------------------------------------------

def rule_P9(ctx, reader, obj, rid='P9'):
    """Elements of a list attribute are restored by increasing integer index (a key
    formatted with a range/counter variable), never by iterating the names of a group
    (h5py yields names in lexicographic order: bound_10 before bound_2)."""
    ctx.rule(rid, 'ordered restore: list-valued attributes are read back with keys formatted '
             'from an increasing integer index, not by iterating group member names')
    gv = _group_vars(reader)
    n = 0
    # names bound (directly or through a local list) to member names obtained by iterating a
    # group, and then used to index a group:  keys = [k for k in group if ...]; group[k]
    tainted_lists = set()
    tainted_vars = {}

    def iter_of(node):
        if isinstance(node, ast.For):
            return node.target, node.iter
        if isinstance(node, ast.comprehension):
            return node.target, node.iter
        return None, None
    for _ in range(2):
        for node in ast.walk(reader.node):
            tgt, it = iter_of(node)
            if it is None or not isinstance(tgt, ast.Name):
                continue
            e = it
            while isinstance(e, ast.Call) and dotted(e.func) in ('list', 'enumerate', 'reversed',
                                                                 'tuple') and e.args:
                e = e.args[0]
            from_group = _is_group(e, gv) or (
                isinstance(e, ast.Call) and isinstance(e.func, ast.Attribute) and
                e.func.attr == 'keys' and _is_group(e.func.value, gv)) or (
                isinstance(e, ast.Name) and e.id in tainted_lists)
            if from_group:
                tainted_vars[tgt.id] = node
        for st in walk_no_nested(reader.node):
            if isinstance(st, ast.Assign) and isinstance(st.targets[0], ast.Name) and \
                    isinstance(st.value, (ast.ListComp, ast.GeneratorExp)) and any(
                        isinstance(g.target, ast.Name) and g.target.id in tainted_vars
                        for g in st.value.generators) and isinstance(st.value.elt, ast.Name) \
                    and st.value.elt.id in tainted_vars:
                tainted_lists.add(st.targets[0].id)
    used = []
    for sub in ast.walk(reader.node):
        if isinstance(sub, ast.Subscript) and _is_group(sub.value, gv) and \
                isinstance(sub.slice, ast.Name) and sub.slice.id in tainted_vars:
            used.append(sub)
    if tainted_vars:
        n += 1
        ctx.ob(rid, '%s:members-indexed-by-iterated-names' % reader.qualname, not used,
               reader.where(used[0]) if used else reader.where(),
               'no member is looked up under a name obtained by iterating the group' if not used
               else 'members are read as `%s` with names taken from iterating the group: the '
               'order is lexicographic (..._10 before ..._2), so lists restored this way are '
               'permuted against their sibling records once there are more than ten'
               % unparse(used[0]))
    # a container built by a comprehension over the member names of a group is ordered by
    # name; storing it (or its values) into an attribute of the object permutes a list
    name_ordered = {}
    for st in walk_no_nested(reader.node):
        if isinstance(st, ast.Assign) and len(st.targets) == 1 and \
                isinstance(st.value, (ast.ListComp, ast.DictComp, ast.SetComp, ast.GeneratorExp)):
            g0 = st.value.generators[0]
            e = g0.iter
            while isinstance(e, ast.Call) and dotted(e.func) in ('list', 'sorted', 'enumerate',
                                                                 'reversed', 'tuple') and e.args:
                e = e.args[0]
            over = _is_group(e, gv) or (isinstance(e, ast.Call) and
                                        isinstance(e.func, ast.Attribute) and
                                        e.func.attr in ('keys', 'items', 'values') and
                                        _is_group(e.func.value, gv))
            if over and isinstance(st.targets[0], ast.Name):
                name_ordered[st.targets[0].id] = st
            elif over and root_attr(st.targets[0], obj):
                n += 1
                ctx.ob(rid, '%s:name-ordered(%s)' % (reader.qualname,
                                                     root_attr(st.targets[0], obj)[0]),
                       False, reader.where(st),
                       '`%s` fills the attribute in the order h5py lists member names '
                       '(lexicographic: ..._10 before ..._2)' % unparse(st)[:60])
    for st in walk_no_nested(reader.node):
        if isinstance(st, ast.Assign) and len(st.targets) == 1 and name_ordered:
            ra = root_attr(st.targets[0], obj)
            used = [x.id for x in ast.walk(st.value) if isinstance(x, ast.Name) and
                    x.id in name_ordered]
            if ra and used and not (isinstance(st.value, ast.Call) and
                                    isinstance(st.value.func, ast.Attribute) and
                                    st.value.func.attr in ('pop', 'get') and
                                    st.value.args and isinstance(st.value.args[0], ast.Constant)):
                n += 1
                ctx.ob(rid, '%s:name-ordered(%s)' % (reader.qualname, ra[0]), False,
                       reader.where(st),
                       'self.%s is filled from `%s`, a container built by iterating the member '
                       'names of the group: the order is lexicographic (..._10 before ..._2), so '
                       'the elements are permuted against their sibling records once there are '
                       'more than ten' % (ra[0], used[0]))
    # probed restore: `i = 0; while key(i) in group: append(read(group[key(i)])); i += 1`
    from .exprs import as_aug
    for lp in walk_no_nested(reader.node):
        if not isinstance(lp, ast.While):
            continue
        probes = [x for x in ast.walk(lp.test) if isinstance(x, ast.Compare) and
                  len(x.ops) == 1 and isinstance(x.ops[0], (ast.In, ast.NotIn)) and
                  _is_group(x.comparators[0], gv) and key_template(x.left)[0]]
        if not probes:
            continue
        pr = probes[0]
        key, kargs = key_template(pr.left)
        pol = isinstance(pr.ops[0], ast.In)
        t = lp.test
        while isinstance(t, ast.UnaryOp) and isinstance(t.op, ast.Not):
            pol = not pol
            t = t.operand
        reads = [x for st in lp.body for x in ast.walk(st) if isinstance(x, ast.Subscript) and
                 _is_group(x.value, gv) and key_template(x.slice)[0] == key]
        idx = [a.id for a in (kargs or []) if isinstance(a, ast.Name)]
        steps = [st for st in lp.body if as_aug(st) is not None and
                 isinstance(as_aug(st)[0], ast.Name) and as_aug(st)[0].id in idx]
        step_ok = bool(steps) and all(isinstance(as_aug(st)[1], ast.Add) and
                                      const_value(as_aug(st)[2]) == 1 for st in steps)
        starts = [st for st in walk_no_nested(reader.node) if isinstance(st, ast.Assign) and
                  isinstance(st.targets[0], ast.Name) and st.targets[0].id in idx and
                  st.lineno < lp.lineno and as_aug(st) is None]
        start_ok = bool(starts) and const_value(starts[-1].value) == 0 and \
            not isinstance(const_value(starts[-1].value), bool)
        ok = pol and bool(reads) and step_ok and start_ok
        n += 1
        ctx.ob(rid, '%s:probed-restore(%s)' % (reader.qualname, key), ok, reader.where(lp),
               'elements %r are read for i = 0, 1, 2, ... as long as the key exists' % key if ok
               else 'the loop that restores %r does not read element i for i = 0, 1, 2, ... while '
               'the key exists (%s): elements are skipped or the loop never runs' % (
                   key, ', '.join(w for w, c in (
                       ('continues while the key is ABSENT', not pol),
                       ('does not read the probed key', not reads),
                       ('index does not advance by one', not step_ok),
                       ('index does not start at 0', not start_ok)) if c)))
    for lp in walk_no_nested(reader.node):
        it = None
        if isinstance(lp, ast.For):
            it, body = lp.iter, lp.body
        elif isinstance(lp, ast.comprehension):
            it, body = lp.iter, []
        if it is None:
            continue
        e = it
        while isinstance(e, ast.Call) and dotted(e.func) in ('list', 'sorted', 'enumerate',
                                                             'reversed') and e.args:
            e = e.args[0]
        over_group = _is_group(e, gv) or (isinstance(e, ast.Call) and
                                          isinstance(e.func, ast.Attribute) and
                                          e.func.attr in ('keys', 'values', 'items') and
                                          _is_group(e.func.value, gv))
        if not over_group:
            continue
        # does the loop fill an attribute of the object?
        fills = []
        for st in body:
            for sub in ast.walk(st):
                if isinstance(sub, ast.Call) and isinstance(sub.func, ast.Attribute) and \
                        sub.func.attr in ('append', 'extend', 'insert'):
                    ra = root_attr(sub.func.value, obj)
                    if ra:
                        fills.append(ra[0])
        n += 1
        ctx.ob(rid, '%s:iterates-group-names(%s)' % (reader.qualname, ','.join(sorted(set(
            fills))) or '-'), not fills, reader.where(lp),
               'iteration over group members does not populate a list attribute' if not fills
               else 'self.%s is filled while iterating the names of an HDF5 group: the order '
               'is lexicographic (..._10 before ..._2), so elements come back permuted once '
               'there are more than ten' % sorted(set(fills))[0])
    return n


def rule_P8(ctx, rid='P8'):
    ctx.rule(rid, 'attribute sweep: the writer that stores every attribute of a fitted network '
             'skips only the attributes it stores explicitly elsewhere (the weight arrays); the '
             'reader restores every swept key of network i')
    f = ctx.program.func('NeuralNetworkEmulator.write')
    loops = [lp for lp in walk_no_nested(f.node) if isinstance(lp, ast.For) and
             isinstance(lp.iter, ast.Attribute) and lp.iter.attr == '__dict__' or
             (isinstance(lp, ast.For) and isinstance(lp.iter, ast.Call) and
              dotted(lp.iter.func) == 'vars')]
    ctx.require(len(loops) <= 1, 'NeuralNetworkEmulator.write: several attribute sweeps')
    ctx.ob(rid, 'NeuralNetworkEmulator.write:sweep-present', len(loops) == 1, f.where(),
           'the writer sweeps every attribute of each fitted network' if loops else
           'the writer no longer sweeps the attributes of the fitted networks (a fixed selection '
           'is stored instead): hyper-parameters outside the selection, e.g. the activation, are '
           'not stored, and the reader rebuilds the network with library defaults for them -- a '
           'restored emulator can predict differently from the one that was written')
    if not loops:
        return
    lp = loops[0]
    kv = lp.target.id if isinstance(lp.target, ast.Name) else None
    # keys stored explicitly as datasets: 'coefs_{}_{}' -> 'coefs_'
    explicit = set()
    for e in writer_table(f):
        if e.kind == 'dataset' and '{}' in e.key:
            explicit.add(e.key.split('{}')[0].rstrip('_') + '_')
    skips = []
    for st in ast.walk(lp):
        if isinstance(st, ast.If) and any(isinstance(x, ast.Continue) for x in st.body):
            skips.append(st)
    ok = True
    why = 'the sweep skips only %s, which are stored as datasets' % sorted(explicit)
    for st in skips:
        t = st.test
        good = isinstance(t, ast.Compare) and len(t.ops) == 1 and isinstance(t.ops[0], ast.In) \
            and isinstance(t.left, ast.Name) and t.left.id == kv and \
            isinstance(t.comparators[0], (ast.List, ast.Tuple, ast.Set)) and \
            all(isinstance(x, ast.Constant) and x.value in explicit
                for x in t.comparators[0].elts)
        if not good:
            ok = False
            why = 'the sweep also skips attributes by `%s`: they are neither swept nor stored ' \
                  'explicitly, so a restored network silently falls back to defaults for them' \
                  % unparse(t)
    ctx.ob(rid, 'NeuralNetworkEmulator.write:sweep-skips-only-explicit', ok, f.where(lp), why)
    # an attribute that cannot be stored must not take the checkpoint down: the handler around
    # the store covers what h5py raises -- TypeError / ValueError for unsupported types and
    # OSError for an attribute that does not fit (HDF5 attributes are limited to 64 KiB, which
    # `loss_curve_` exceeds after 8192 epochs; nautilus trains with max_iter=10000)
    tries = [t for t in ast.walk(lp) if isinstance(t, ast.Try)]
    caught = set()
    for t in tries:
        for h in t.handlers:
            if h.type is None:
                caught.add('BaseException')
            for x in ast.walk(h.type) if h.type is not None else ():
                if isinstance(x, ast.Name):
                    caught.add(x.id)
    okh = bool(tries) and (caught & {'OSError', 'Exception', 'BaseException', 'IOError'}) and \
        (caught & {'TypeError', 'Exception', 'BaseException'})
    ctx.ob(rid, 'NeuralNetworkEmulator.write:sweep-tolerates-unstorable', bool(okh), f.where(lp),
           'the sweep skips attributes h5py cannot store (%s)' % sorted(caught) if okh else
           'the sweep only tolerates %s: an attribute that does not fit into an HDF5 attribute '
           '(e.g. loss_curve_ of a network trained for more than 8191 epochs) raises OSError, '
           'the checkpoint write aborts and a bound that works in memory cannot be written'
           % (sorted(caught) or 'nothing'))
    # every swept attribute is stored under '<attr>_<i>'
    stores = [e for e in writer_table(f) if e.kind == 'attr' and '<dyn>' in e.key]
    ctx.ob(rid, 'NeuralNetworkEmulator.write:sweep-stores', bool(stores), f.where(lp),
           'swept attributes are stored under a key derived from their own name')
    r = ctx.program.func('NeuralNetworkEmulator.read')
    sets = [n for n in walk_no_nested(r.node) if isinstance(n, ast.Call) and
            dotted(n.func) == 'setattr']
    ctx.ob(rid, 'NeuralNetworkEmulator.read:sweep-restores', bool(sets), r.where(),
           'the reader restores swept attributes by name with setattr')
    # ... all of them: the only condition on a swept key is that its index suffix is this
    # network's; a further filter on the NAME (e.g. "fitted attributes only": names ending in
    # '_') drops constructor parameters such as `activation`, which predict() depends on
    rcfg = cfg_of(r)
    for c in sets:
        if not rcfg.has(c):
            continue
        extra = []
        for t, lab in rcfg.strict_guards(rcfg.node_of(c).id):
            e = rcfg.nodes[t].expr
            if e is None or rcfg.nodes[t].kind != 'test':
                continue
            for atom, text, truth in __import__('nvstat.cfg', fromlist=['edge_facts']).edge_facts(
                    e, lab):
                if any(isinstance(x, ast.Call) and isinstance(x.func, ast.Attribute) and
                       x.func.attr in ('endswith', 'startswith') for x in ast.walk(atom)) or \
                        (isinstance(atom, ast.Compare) and isinstance(atom.ops[0], (ast.In, ast.NotIn))
                         and isinstance(atom.comparators[0], (ast.List, ast.Tuple, ast.Set))):
                    extra.append(text)
        ctx.ob(rid, 'NeuralNetworkEmulator.read:sweep-restores-every-key', not extra, r.where(c),
               'every stored attribute of network i is restored' if not extra else
               'only keys passing `%s` are restored: constructor parameters of the network '
               '(activation, ..) stay at the library defaults, so the restored emulator computes '
               'another function than the one that was written' % extra[0][:50])


def _is_memo_cache(prog, cname, attr):
    """Every assignment to self.<attr> in the class is `= None` (invalidation) or is
    guarded by `self.<attr> is None` (fill on demand)."""
    cls = prog.classes.get(cname)
    if cls is None:
        return False
    seen = 0
    for f in cls.methods.values():
        if not f.self_name:
            continue
        cfg = cfg_of(f)
        for n in walk_no_nested(f.node):
            if isinstance(n, ast.Assign):
                for t in n.targets:
                    if isinstance(t, ast.Attribute) and isinstance(t.value, ast.Name) and \
                            t.value.id == f.self_name and t.attr == attr and cfg.has(n):
                        seen += 1
                        if isinstance(n.value, ast.Constant) and n.value.value is None:
                            continue
                        if cfg.has_fact(cfg.node_of(n).id, 'self.%s is None' % attr, True):
                            continue
                        return False
            elif isinstance(n, ast.AugAssign):
                ra = root_attr(n.target, f.self_name)
                if ra and ra[0] == attr:
                    return False
    return seen >= 2


# ---------------------------------------------------------------------------
# P10 restored, not re-derived
# ---------------------------------------------------------------------------

def _from_file(v, gv):
    return any((isinstance(x, ast.Subscript) and (_is_group(x.value, gv) or _is_attrs(x.value)))
               or (isinstance(x, ast.Name) and x.id == 'rng')
               or (isinstance(x, ast.Attribute) and x.attr == 'rng')
               or (isinstance(x, ast.Name) and x.id in gv)
               for x in ast.walk(v))


class _ObjName(ast.NodeTransformer):
    def __init__(self, obj):
        self.obj = obj

    def visit_Name(self, node):
        return ast.Name(id='OBJ', ctx=node.ctx) if node.id == self.obj else node


def _rederived_like_constructor(ctx, rid, cls, reader, obj, st, a, gv, cfg, assigned):
    """An attribute that only constructors assign and that read() computes instead of
    restoring: accepted when the expression is the one compute() uses (same function of
    restored attributes => same value), reported otherwise."""
    v = st.value
    if _from_file(v, gv):
        return 0
    if isinstance(v, ast.Constant) or (isinstance(v, (ast.List, ast.Tuple, ast.Dict)) and
                                       not ast.unparse(v).strip('[](){}')):
        return 0        # None / constant / empty container that is filled from the file
    later = assigned.get(a, set()) - {cfg.node_of(st).id}
    if later and cfg.must_pass(cfg.node_of(st).id, cfg.exit.id, later):
        return 0
    import copy
    rtxt = unparse(_ObjName(obj).visit(copy.deepcopy(v)))
    ctxts = []
    for cname in ('compute', 'train'):
        comp = cls.methods.get(cname)
        if comp is None:
            continue
        try:
            cobj = _ctor_obj(comp)
        except AnalysisError:
            continue
        for cs in walk_no_nested(comp.node):
            if isinstance(cs, ast.Assign) and len(cs.targets) == 1 and \
                    isinstance(cs.targets[0], ast.Attribute) and \
                    isinstance(cs.targets[0].value, ast.Name) and \
                    cs.targets[0].value.id == cobj and cs.targets[0].attr == a:
                ctxts.append(unparse(_ObjName(cobj).visit(copy.deepcopy(cs.value))))
    ok = rtxt in ctxts
    ctx.ob(rid, '%s.read:rederived(%s)' % (cls.name, a), ok, reader.where(st),
           'attribute %r is recomputed by read() with the constructor\'s own expression `%s`'
           % (a, rtxt[:50]) if ok else
           'attribute %r (read by the observation interface) is not restored from the file but '
           'recomputed as `%s`, while the constructor computes it as %s: the restored bound '
           'need not reproduce the written one bit for bit' % (
               a, rtxt[:60], [c[:60] for c in ctxts] or 'nothing comparable'))
    return 1


def _legacy_fallback(cls, cfg, nid, attr):
    """The statement runs only where `'<key>' in <group>.attrs` is false, and the full writer of
    the class stores that key from `attr` on every path."""
    w = cls.methods.get('write')
    if w is None:
        return False
    for atom, text, truth in cfg.facts(nid):
        if truth is not False or not (isinstance(atom, ast.Compare) and len(atom.ops) == 1 and
                                      isinstance(atom.ops[0], ast.In) and
                                      isinstance(atom.left, ast.Constant) and
                                      isinstance(atom.left.value, str)):
            continue
        key = atom.left.value
        wcfg = cfg_of(w)
        stores = {wcfg.node_of(e.node).id for e in writer_table(w)
                  if e.key == key and e.attr == attr and not e.key_args and wcfg.has(e.node)}
        if stores and wcfg.must_pass(wcfg.entry.id, wcfg.exit.id, stores):
            return True
    return False


def rule_P7n(ctx, rid='P7'):
    """Optional members: an attribute that some method of a bound class sets to None (a union
    without cube, a bound without phase shift, a neural bound without emulator, a mixture without
    cube or ellipsoid part) is dereferenced only where a test of that very attribute against
    None guards the use."""
    ctx.rule(rid + 'n', 'optional members are dereferenced only under their own not-None test')
    prog = ctx.program
    n = 0
    for c, w, r, u, obj in persist_classes(prog):
        nullable = set()
        for m in c.methods.values():
            for st in walk_no_nested(m.node):
                if isinstance(st, ast.Assign) and isinstance(st.value, ast.Constant) and \
                        st.value.value is None:
                    for t in st.targets:
                        if isinstance(t, ast.Attribute) and isinstance(t.value, ast.Name):
                            nullable.add(t.attr)
        for m in sorted(c.methods.values(), key=lambda m_: m_.qualname):
            if not m.self_name:
                continue
            cfg = cfg_of(m)
            for x in walk_no_nested(m.node):
                if not (isinstance(x, ast.Attribute) and isinstance(x.value, ast.Attribute) and
                        isinstance(x.value.value, ast.Name) and x.value.value.id == m.self_name
                        and x.value.attr in nullable and cfg.has(x)):
                    continue
                nid = cfg.node_of(x).id
                a = '%s.%s' % (m.self_name, x.value.attr)
                ok = cfg.has_fact(nid, a + ' is not None', True) or \
                    cfg.has_fact(nid, a + ' is None', False)
                if not ok:
                    # a dominating non-None assignment in the same function also guards it
                    asg = {cfg.node_of(st).id for st in walk_no_nested(m.node)
                           if isinstance(st, ast.Assign) and cfg.has(st) and
                           any(dotted(t) == a for t in st.targets) and
                           not (isinstance(st.value, ast.Constant) and st.value.value is None)}
                    ok = any(cfg.dominates(g, nid) for g in asg)
                n += 1
                ctx.ob(rid + 'n', '%s:%s-used-under-its-guard' % (m.qualname, x.value.attr), ok,
                       m.where(x),
                       'the optional member is used only where it is known to be present' if ok
                       else '`%s` is evaluated although %s can be None (the class sets it to '
                       'None for bounds built without that part): AttributeError for such a bound'
                       % (unparse(x)[:50], a))
    return n


def rule_P10(ctx, cls, reader, obj, rid='P10'):
    ctx.rule(rid, 'restored, not re-derived: an attribute that the observation interface reads '
             'and that some non-constructor method modifies is restored from the file (or from '
             'the rng argument), not re-derived by the reader from other quantities')
    prog = ctx.program
    res = resolver(prog)
    reads = obs_reads(prog, cls)
    mutable = _mutable_attrs(prog, cls.name)
    gv = _group_vars(reader)
    cfg = cfg_of(reader)
    assigned = attrs_assigned(reader, obj)
    n = 0
    for st in walk_no_nested(reader.node):
        if not (isinstance(st, ast.Assign) and len(st.targets) == 1 and
                isinstance(st.targets[0], ast.Attribute) and
                isinstance(st.targets[0].value, ast.Name) and st.targets[0].value.id == obj):
            continue
        a = st.targets[0].attr
        if a in reads and a not in mutable and a != 'rng' and cfg.has(st):
            n += _rederived_like_constructor(ctx, rid, cls, reader, obj, st, a, gv, cfg, assigned)
        if a not in reads or a not in mutable or a == 'rng':
            continue        # the generator is plumbed, not persisted, per object (F3/F4)
        if cfg.has(st):
            later = assigned.get(a, set()) - {cfg.node_of(st).id}
            if later and cfg.must_pass(cfg.node_of(st).id, cfg.exit.id, later):
                continue    # a preliminary value that is always overwritten before the return
        from_file = any((isinstance(x, ast.Subscript) and (_is_group(x.value, gv) or
                                                            _is_attrs(x.value)))
                        or (isinstance(x, ast.Name) and x.id == 'rng')
                        or (isinstance(x, ast.Attribute) and x.attr == 'rng')
                        for x in ast.walk(st.value))
        is_none = isinstance(st.value, ast.Constant) and st.value.value is None
        if not from_file and cfg.has(st) and _legacy_fallback(cls, cfg, cfg.node_of(st).id, a):
            # the branch for files that lack the key: today's writer always stores it, so the
            # derived value only ever serves files written before the key existed
            continue
        n += 1
        ctx.ob(rid, '%s.read:%s' % (cls.name, a), from_file or is_none, reader.where(st),
               'attribute %r is restored from the file' % a if from_file or is_none else
               'attribute %r changes after construction and is read by the observation '
               'interface, but read() re-derives it as `%s` instead of restoring it: a written '
               'and read-back bound can behave differently' % (a, unparse(st.value)[:50]))
    return n


# ---------------------------------------------------------------------------
# P11 the class chosen by a reader is the class the writer's tag names
# ---------------------------------------------------------------------------

def rule_P11(ctx, rid='P11'):
    ctx.rule(rid, 'type tag <-> class: where a reader chooses the class of a member by '
             'comparing a stored tag with a string, the branch taken on equality binds the class '
             'of that very name (the writer stores `__class__.__name__`), and the other branch a '
             'different class')
    prog = ctx.program
    n = 0
    triples = list(persist_classes(prog))
    S_ = prog.classes.get('Sampler')
    if S_ is not None and 'write' in S_.methods and '__init__' in S_.methods:
        triples.append((S_, S_.methods['write'], S_.methods['__init__'], None, 'self'))
    for c, w, r, u, obj in triples:
        gv = _group_vars(r)
        for st in walk_no_nested(r.node):
            if not isinstance(st, ast.If):
                continue
            t = st.test
            flipped = False
            while isinstance(t, ast.UnaryOp) and isinstance(t.op, ast.Not):
                t, flipped = t.operand, not flipped
            if not (isinstance(t, ast.Compare) and len(t.ops) == 1 and
                    isinstance(t.ops[0], (ast.Eq, ast.NotEq)) and
                    isinstance(t.comparators[0], ast.Constant) and
                    isinstance(t.comparators[0].value, str) and
                    isinstance(t.left, ast.Subscript) and _is_attrs(t.left.value)):
                continue
            tag = t.comparators[0].value
            if tag not in prog.classes:
                continue
            key, _ = key_template(t.left.slice)

            def bound_class(stmts):
                for x in stmts:
                    if isinstance(x, ast.Assign) and len(x.targets) == 1 and \
                            isinstance(x.targets[0], ast.Name) and \
                            isinstance(x.value, ast.Name) and x.value.id in prog.classes:
                        return x.value.id, x
                # ... or the branch reads the member with a class directly: X.read(group[...])
                for x in stmts:
                    for c_ in ast.walk(x):
                        if isinstance(c_, ast.Call) and isinstance(c_.func, ast.Attribute) and \
                                c_.func.attr == 'read' and isinstance(c_.func.value, ast.Name) \
                                and c_.func.value.id in prog.classes:
                            return c_.func.value.id, x
                return None, None
            eq_branch, ne_branch = (st.body, st.orelse) if \
                isinstance(t.ops[0], ast.Eq) != flipped else (st.orelse, st.body)
            ce, xe = bound_class(eq_branch)
            cn, xn = bound_class(ne_branch)
            if ce is None and cn is None:
                continue
            ok = ce == tag and (cn is None or cn != tag)
            n += 1
            ctx.ob(rid, '%s.read:tag(%s=%s)' % (c.name, key, tag), ok, r.where(st),
                   'tag %r selects class %s%s' % (tag, ce, ', anything else %s' % cn if cn else '')
                   if ok else
                   'a stored tag %r makes the reader build a %s (and any other tag a %s): the '
                   'member comes back as the wrong class' % (tag, ce, cn))
            # the writer stores the class name of the member under that key
            W = writer_table(w)
            ws = [e for e in W if e.key == key and e.kind == 'attr']
            okw = any(e.src is not None and '__class__.__name__' in unparse(e.src) or
                      (e.src is not None and 'type(' in unparse(e.src) and
                       '__name__' in unparse(e.src)) for e in ws)
            owner = t.left.value.value if isinstance(t.left.value, ast.Attribute) else None
            if not okw and isinstance(owner, ast.Subscript):
                # the tag is an attribute of the member's own group: the class named by the tag
                # must write exactly that literal
                cw = prog.classes[tag].methods.get('write')
                okw = cw is not None and any(
                    e.kind == 'attr' and e.key == key and isinstance(e.src, ast.Constant) and
                    e.src.value == tag for e in writer_table(cw))
            n += 1
            ctx.ob(rid, '%s.write:tag(%s)' % (c.name, key), okw, w.where(),
                   'the writer stores the class name of the member under %r' % key if okw else
                   'the writer does not store `__class__.__name__` of the member under %r, which '
                   'the reader compares with class names' % key)
    return n


# ---------------------------------------------------------------------------
# P12 a reader visits every index the writer emitted
# ---------------------------------------------------------------------------

P16_EXCEPTIONS = {
    'blobs_dtype': 're-derived from the stored blobs when the likelihood returned blobs before',
    'rng': 'the generator object is kept; only its state is restored',
}


def rule_P16(ctx, rid='P16'):
    """Configuration belongs to the caller: an attribute that Sampler.__init__ sets from one of
    its own arguments (batch size, live points, update thresholds, pools, flags) is not assigned
    again by the resume block.  The writer stores those values for inspection only; a resumed
    sampler that silently takes them from the file evaluates batches of a size the caller did
    not configure."""
    ctx.rule(rid, 'the resume block restores run state only: no attribute that the constructor '
             'derives from its own arguments is overwritten from the checkpoint')
    prog = ctx.program
    init = prog.func('Sampler.__init__')
    cfg = cfg_of(init)
    sn = init.self_name
    params = set(init.params) - {sn}
    gv = _group_vars(init)
    # statements of the resume block: those that run under the `resume` guard
    def in_resume(nid):
        return any(tx == 'resume' and tr is True for _, tx, tr in cfg.facts(nid))
    config, restored = {}, {}
    for st in walk_no_nested(init.node):
        if not (isinstance(st, ast.Assign) and cfg.has(st)):
            continue
        nid = cfg.node_of(st).id
        for t in st.targets:
            if isinstance(t, ast.Attribute) and isinstance(t.value, ast.Name) and \
                    t.value.id == sn:
                if in_resume(nid):
                    restored.setdefault(t.attr, st)
                else:
                    uses = {x.id for x in ast.walk(st.value) if isinstance(x, ast.Name)}
                    if uses & params:
                        config.setdefault(t.attr, st)
    # locals derived from parameters (n_batch = ... ; self.n_batch = n_batch) count as well
    n = 0
    for attr, st in sorted(restored.items()):
        if attr in P16_EXCEPTIONS:
            continue
        n += 1
        ok = attr not in config
        ctx.ob(rid, 'Sampler.__init__:restored(%s)-is-run-state' % attr, ok, init.where(st),
               'attribute %r is run state (not derived from a constructor argument)' % attr
               if ok else
               'attribute %r is set from the constructor argument at line %d and then '
               'overwritten from the checkpoint: a sampler resumed with a different setting '
               'silently keeps the old one (e.g. batches of the stored size, overshooting '
               'n_like_max by more than one configured batch)' % (attr, config[attr].lineno))
    ctx.require(n >= 10, 'P16 saw only %d restored attributes (floor 10)' % n)
    return n


def rule_P2s(ctx, rid='P2'):
    """What is written is the whole array: a dataset (or attribute) written from a *slice* of an
    attribute (`self.points[:N]`) persists a prefix only - the read-back object has a shorter
    proposal cache / row set than the one that was written."""
    ctx.rule(rid + 's', 'whole-array persistence: no writer or updater stores a slice of an '
             'attribute in place of the attribute')
    prog = ctx.program
    n = 0
    funcs = []
    for c, w, r, u, obj in persist_classes(prog):
        funcs += [w] + ([u] if u is not None else [])
    S_ = prog.classes.get('Sampler')
    if S_ is not None:
        funcs += [S_.methods[m] for m in ('write', 'write_shell_update') if m in S_.methods]
    for f in funcs:
        for e in writer_table(f):
            if e.src is None:
                continue
            v = _resolve_local(f, e.src)
            sl = [x for x in ast.walk(v) if isinstance(x, ast.Subscript) and
                  isinstance(x.slice, ast.Slice) and root_attr(x.value, f.self_name)]
            n += 1
            ctx.ob(rid + 's', '%s:whole(%s)' % (f.qualname, e.key), not sl, f.where(e.node),
                   'key %r receives the whole value' % e.key if not sl else
                   'key %r receives `%s`, a slice of the attribute: rows beyond the slice are '
                   'not in the file, the read-back object refills its cache earlier and its '
                   'sample stream and volume estimate diverge from the original'
                   % (e.key, unparse(sl[0])[:50]))
    return n


def rule_P2u(ctx, rid='P2'):
    """Every element of a list attribute is written: an indexed key written inside the loop over
    the list (`points_bound_{i}` for i, x in enumerate(self.points_bounds)) is not skipped for
    some elements by a data-dependent condition.  (The reader would have to invent the missing
    elements.)"""
    ctx.rule(rid + 'u', 'element-wise persistence: inside the loop over a list attribute, the '
             'indexed key of that list is written for every element (no data-dependent skip)')
    prog = ctx.program
    n = 0
    for c, w, r, u, obj in persist_classes(prog):
        par = _parents(w.node)
        for e in writer_table(w):
            if not e.key_args or e.kind not in ('dataset', 'group'):
                continue
            # enclosing for-loops over an attribute of self
            p_, loops, conds = e.node, [], []
            while p_ is not None:
                q_ = par.get(id(p_))
                if isinstance(q_, ast.For) and any(
                        isinstance(x, ast.Attribute) and isinstance(x.value, ast.Name) and
                        x.value.id == w.self_name for x in ast.walk(q_.iter)):
                    loops.append(q_)
                if isinstance(q_, ast.If) and loops == []:
                    conds.append(q_.test)
                p_ = q_
            if not loops:
                continue
            # conditions between the write and its loop that are not presence tests
            bad = [t for t in conds if not (
                isinstance(t, ast.Compare) and isinstance(t.ops[0], (ast.Is, ast.IsNot)))]
            n += 1
            ctx.ob(rid + 'u', '%s:every-element(%s)' % (w.qualname, e.key), not bad,
                   w.where(e.node),
                   'key %r is written for every element of the list' % e.key if not bad else
                   'key %r is written only for the elements passing `%s`: the others are not in '
                   'the file, the reader has to make them up (empty arrays), and what later reads '
                   'them - trim() ranks every ellipsoid by its number of points - behaves '
                   'differently after a round trip' % (e.key, unparse(bad[0])[:40]))
    return n


def rule_P12k(ctx, rid='P12'):
    """An ordered member list (bounds, point sets, shells) is never rebuilt by walking the names
    of an HDF5 group: h5py yields them in alphabetical order ('bound_10' before 'bound_2'), so
    from the eleventh member on the positions no longer match the sibling records that are read
    by index.  Positions come from an integer range formatted into the key."""
    ctx.rule(rid + 'k', 'no reader iterates the names of an HDF5 group to rebuild an ordered list')
    prog = ctx.program
    readers = [r for c, w, r, u, obj in persist_classes(prog)]
    S_ = prog.classes.get('Sampler')
    if S_ is not None and '__init__' in S_.methods:
        readers.append(S_.methods['__init__'])
    n = 0
    for r in readers:
        gv = _group_vars(r)
        its = []
        for x in ast.walk(r.node):
            it = None
            if isinstance(x, ast.For):
                it = x.iter
            elif isinstance(x, ast.comprehension):
                it = x.iter
            if it is None:
                continue
            base = it
            if isinstance(base, ast.Call) and dotted(base.func) in ('sorted', 'list', 'tuple',
                                                                    'reversed') and base.args:
                if dotted(base.func) == 'sorted' and any(k.arg == 'key' for k in base.keywords):
                    continue      # an explicit sort key can restore the numeric order
                base = base.args[0]
            if isinstance(base, ast.Call) and isinstance(base.func, ast.Attribute) and \
                    base.func.attr in ('keys', 'items', 'values'):
                base = base.func.value
            if _is_group(base, gv) and not _is_attrs(base):
                its.append(it)
        n += 1
        ctx.ob(rid + 'k', '%s:no-iteration-over-group-names' % r.qualname, not its,
               r.where(its[0]) if its else r.where(),
               'members are addressed by formatted integer positions only' if not its else
               '`%s` walks the names of the group; h5py yields them alphabetically '
               '(bound_0, bound_1, bound_10, bound_11, bound_2, ..): with more than ten members '
               'the rebuilt list is permuted against the records read by index (points, shell '
               'statistics, construction points)' % unparse(its[0])[:50])
    return n


def rule_P12(ctx, reader, obj, rid='P12'):
    """List members stored under an indexed key ('bound_{}', 'points_{}', ...) are written for
    every position of the list (enumerate / range(len)); the reader must ask for exactly the
    positions 0..N-1, N being the length of a sibling record it restored -- by a range whose
    bounds are evaluated for N = 0..6, together with indices it reads literally."""
    ctx.rule(rid, 'index domain: a reader restores the elements of an indexed key for exactly '
             'the indices 0 .. N-1 (range bounds evaluated for N = 0..6 against the length of '
             'the sibling record; literally read indices included)')
    from .rowfacts import eval_index_expr, _Cannot
    gv = _group_vars(reader)
    R = reader_table(reader, obj)
    by_key = {}
    for e in R:
        if '{}' in e.key and e.kind in ('dataset', 'group'):
            by_key.setdefault(e.key, []).append(e)
    par = _parents(reader.node)
    n = 0
    for key, entries in sorted(by_key.items()):
        ranges, literal = [], set()
        undecided = False
        for e in entries:
            args = e.key_args or []
            if len(args) != 1:
                undecided = True
                continue
            a = args[0]
            if isinstance(a, ast.Constant) and isinstance(a.value, int):
                literal.add(a.value)
                continue
            if not isinstance(a, ast.Name):
                undecided = True
                continue
            # the loop / comprehension that binds the index
            p = e.node
            it = None
            while p is not None:
                p = par.get(id(p))
                if isinstance(p, ast.For) and isinstance(p.target, ast.Name) and \
                        p.target.id == a.id:
                    it = p.iter
                    break
                if isinstance(p, (ast.ListComp, ast.GeneratorExp)):
                    for g in p.generators:
                        if isinstance(g.target, ast.Name) and g.target.id == a.id:
                            it = g.iter
                    if it is not None:
                        break
            if it is None or not (isinstance(it, ast.Call) and dotted(it.func) == 'range'):
                undecided = True
                continue
            ranges.append((it, e))
        # literal keys spelled out as constants ('bound_0')
        base = key.replace('{}', '')
        for e in R:
            if e.key.startswith(base) and e.key != key and e.key[len(base):].isdigit():
                literal.add(int(e.key[len(base):]))
        if undecided or not ranges:
            continue
        # the length symbol: the single len(<expr>) used in the range bounds
        lens = {unparse(x.args[0]) for it, _ in ranges for x in ast.walk(it)
                if isinstance(x, ast.Call) and dotted(x.func) == 'len' and x.args}
        if len(lens) != 1:
            ctx.note('%s not decided for %s in %s: range bounds use %s' % (
                rid, key, reader.qualname, sorted(lens) or 'no length'))
            continue
        lname = next(iter(lens))
        # the count is the length of a record of the SAME object (one that the writer stores
        # element for element next to this list) -- not of a record that belongs to a member
        # object, whose length is a different quantity that merely often coincides
        try:
            lexpr = ast.parse(lname, mode='eval').body
        except SyntaxError:
            lexpr = None
        depth = 0
        e_ = lexpr
        while isinstance(e_, (ast.Attribute, ast.Subscript)):
            if isinstance(e_, ast.Attribute):
                depth += 1
            e_ = e_.value
        if isinstance(e_, ast.Name) and e_.id == obj and depth >= 2:
            n += 1
            ctx.ob(rid, '%s:count-from-own-record(%s)' % (reader.qualname, key), False,
                   ranges[0][1].where,
                   'the number of %r elements to restore is taken from `len(%s)`, a record of a '
                   'member object: the writer stores one element per entry of its own list, '
                   'whose length is a different quantity (e.g. neural bounds follow the '
                   'non-overlapping split, the outer union is split further)' % (key, lname))
            continue
        ok, cex = True, None
        lo = max(literal) + 1 if literal else 0
        for N in range(lo, 7):
            got = set(literal)
            try:
                for it, _ in ranges:
                    class _L(ast.NodeTransformer):
                        def visit_Call(self, node):
                            self.generic_visit(node)
                            if dotted(node.func) == 'len' and node.args and \
                                    unparse(node.args[0]) == lname:
                                return ast.copy_location(ast.Constant(value=N), node)
                            return node
                    import copy
                    got |= set(eval_index_expr(_L().visit(copy.deepcopy(it)), {}))
            except _Cannot as exc:
                ok = None
                ctx.note('%s not decided for %s: %s' % (rid, key, exc))
                break
            if got != set(range(N)):
                ok, cex = False, (N, sorted(got))
                break
        if ok is None:
            continue
        n += 1
        ctx.ob(rid, '%s:index-domain(%s)' % (reader.qualname, key), ok,
               ranges[0][1].where,
               'keys %r are read for every index 0 .. len(%s)-1' % (key, lname) if ok else
               'for len(%s) = %d the reader asks for indices %s of %r, not 0 .. %d: an element '
               'the writer stored is never restored (or a missing one is requested)'
               % (lname, cex[0], cex[1], key, cex[0] - 1))
    return n


# ---------------------------------------------------------------------------
# P13 writer and reader walk the layers of a network over the same range
# ---------------------------------------------------------------------------

def rule_P13(ctx, rid='P13'):
    ctx.rule(rid, 'layer agreement: write() and read() of the emulator enumerate the layers of a '
             'network over the same range')
    prog = ctx.program
    n = 0
    # layer ranges
    w = prog.func('NeuralNetworkEmulator.write')
    r = prog.func('NeuralNetworkEmulator.read')

    def layer_ranges(f):
        out = []
        for x in ast.walk(f.node):
            it = None
            if isinstance(x, ast.For):
                it = x.iter
            elif isinstance(x, ast.comprehension):
                it = x.iter
            if isinstance(it, ast.Call) and dotted(it.func) == 'range' and any(
                    isinstance(y, ast.Attribute) and y.attr == 'n_layers_' for y in ast.walk(it)):
                out.append(it)
        return out
    wr, rr = layer_ranges(w), layer_ranges(r)
    if wr and rr:
        def key(it):
            import re
            return re.sub(r'\b\w+\.n_layers_', 'NET.n_layers_', unparse(it).replace(' ', ''))
        wk, rk = {key(x) for x in wr}, {key(x) for x in rr}
        ok = len(wk) == 1 and wk == rk
        n += 1
        ctx.ob(rid, 'NeuralNetworkEmulator:layer-range-agrees', ok, r.where(rr[0]),
               'write() and read() enumerate the layers over %s' % sorted(wk)[0] if ok else
               'write() enumerates the layers over %s but read() over %s: a layer is lost or a '
               'missing one is requested' % (sorted(wk), sorted(rk)))
    else:
        ctx.note('%s not decided: layer loops not found' % rid)
    return n


# ---------------------------------------------------------------------------
# P14 a class fixed by position in the reader is a class fixed by position in the state
# ---------------------------------------------------------------------------

def rule_P14(ctx, rid='P14'):
    ctx.rule(rid, 'positional class: where the resume block rebuilds one position of a list '
             'with a fixed class that differs from the class used for the other positions '
             '(bound_0 as UnitCube, the rest as NautilusBound) without consulting the stored '
             'type, no code path may remove or replace that position of the list')
    prog = ctx.program
    reader = prog.func('Sampler.__init__')
    R = reader_table(reader, 'self')
    fam = {}
    for e in R:
        if e.kind == 'group' and e.cls_names:
            base = e.key.replace('{}', '')
            if '{}' in e.key:
                fam.setdefault(base, {}).setdefault('*', set()).update(e.cls_names)
            elif e.key[len(base.rstrip('0123456789')):].isdigit() or e.key[-1:].isdigit():
                b2 = e.key.rstrip('0123456789')
                fam.setdefault(b2, {}).setdefault(int(e.key[len(b2):]), set()).update(
                    e.cls_names)
                fam[b2].setdefault('entry_%d' % int(e.key[len(b2):]), e)
    n = 0
    for base, d in sorted(fam.items()):
        generic = d.get('*', set())
        for pos, classes in sorted((k, v) for k, v in d.items() if isinstance(k, int)):
            if not generic or classes == generic:
                continue
            entry = d['entry_%d' % pos]
            # does the reader look at the stored type before choosing?
            tagged = any('type' in unparse(t) or 'class' in unparse(t) for t, _ in entry.guards)
            # which attribute is filled
            attr = entry.attr
            removals = []
            S = prog.cls('Sampler')
            for f in S.methods.values():
                if f is reader:
                    continue
                cfg = cfg_of(f)
                for x in walk_no_nested(f.node):
                    idx = None
                    if isinstance(x, ast.Call) and isinstance(x.func, ast.Attribute) and \
                            x.func.attr in ('pop', 'remove') and \
                            dotted(x.func.value) == 'self.%s' % attr:
                        idx = x.args[0] if x.args else ast.Constant(value=-1)
                    if isinstance(x, ast.Delete):
                        for t in x.targets:
                            if isinstance(t, ast.Subscript) and \
                                    dotted(t.value) == 'self.%s' % attr:
                                idx = t.slice
                    if idx is None or not cfg.has(x):
                        continue
                    cv = const_value(idx)
                    if cv is not None and cv != pos and not (cv < 0):
                        continue
                    safe = False
                    if isinstance(idx, ast.Name):
                        for atom, tx, tr in cfg.facts(cfg.node_of(x).id):
                            if isinstance(atom, ast.Compare) and len(atom.ops) == 1 and \
                                    isinstance(atom.left, ast.Name) and \
                                    atom.left.id == idx.id and \
                                    const_value(atom.comparators[0]) == pos and (
                                        (isinstance(atom.ops[0], ast.Gt) and tr) or
                                        (isinstance(atom.ops[0], ast.NotEq) and tr) or
                                        (isinstance(atom.ops[0], ast.Eq) and not tr) or
                                        (isinstance(atom.ops[0], ast.LtE) and not tr)):
                                safe = True
                    if not safe:
                        removals.append((f, x))
            ok = tagged or not removals
            n += 1
            ctx.ob(rid, 'Sampler.__init__:positional-class(%s%d)' % (base, pos), ok,
                   entry.where,
                   '%s%d is rebuilt as %s; position %d of self.%s is never removed' % (
                       base, pos, sorted(classes), pos, attr) if ok else
                   '%s%d is always rebuilt as %s (the other positions as %s) without looking at '
                   'the stored type, but `%s` in %s can remove position %d of self.%s (an empty '
                   'first shell at the end of exploration): the file then holds a %s under %s%d '
                   'and the resumed sampler silently treats it as a %s'
                   % (base, pos, sorted(classes), sorted(generic),
                      unparse(removals[0][1])[:40], removals[0][0].qualname, pos, attr,
                      sorted(generic)[0], base, pos, sorted(classes)[0]))
    return n


# ---------------------------------------------------------------------------
# P15 what the incremental update rewrites is what changes between checkpoints: the reader
#     restores every such key
# ---------------------------------------------------------------------------

def rule_P15(ctx, cname, updater, reader, obj, rid='P15'):
    ctx.rule(rid, 'updated => restored: every key an incremental update rewrites (the state that '
             'changes from batch to batch, generator state included) is consumed by the reader '
             'of the same class')
    U = writer_table(updater, role='U')
    R = reader_table(reader, obj)
    rkeys = {r.key for r in R if r.kind != 'probe'}
    n = 0
    seen = set()
    for u in U:
        if '<dyn>' in u.key or u.key in seen:
            continue
        seen.add(u.key)
        ok = u.key in rkeys or any(template_match(u.key, k) or template_match(k, u.key)
                                   for k in rkeys)
        n += 1
        ctx.ob(rid, '%s:restored(%s)' % (cname, u.key), ok, u.where,
               'key %r is rewritten after every batch and read back on resume' % u.key if ok else
               'key %r is rewritten after every batch by %s but %s never reads it: the state it '
               'carries is lost on resume' % (u.key, updater.qualname, reader.qualname))
    # the generator state must end up in the generator: each rng_* key is read inside the value
    # assigned to <generator>.bit_generator.state
    par = _parents(reader.node)
    for r in R:
        if not r.key.startswith('rng_'):
            continue
        p = r.node
        while p is not None and not isinstance(p, ast.stmt):
            p = par.get(id(p))
        ok = isinstance(p, ast.Assign) and len(p.targets) == 1 and \
            unparse(p.targets[0]).endswith('bit_generator.state')
        n += 1
        ctx.ob(rid, '%s:generator-state(%s)' % (cname, r.key), ok, r.where,
               'key %r is restored into the bit generator\'s state' % r.key if ok else
               'key %r is read but not assigned into `<rng>.bit_generator.state`: the resumed '
               'sampler continues with a different random stream' % r.key)
    return n


REORDERING = {'sort', 'unique', 'argsort', 'flip', 'flipud', 'fliplr', 'sorted', 'set',
              'frozenset', 'reversed', 'roll', 'shuffle', 'permutation', 'partition',
              'argpartition', 'union1d', 'intersect1d', 'setdiff1d'}


_NARROW = ('float32', 'float16', 'half', 'single', "'f4'", "'f2'", 'int32', 'int16', 'int8',
           'uint8', 'uint16', 'uint32', "'i4'", "'i2'")


def _reordering_in(expr):
    """First construct inside `expr` that changes the order or multiplicity of elements."""
    for x in ast.walk(expr):
        if isinstance(x, ast.Call):
            f = x.func
            name = f.attr if isinstance(f, ast.Attribute) else f.id if isinstance(f, ast.Name) \
                else None
            if name in REORDERING:
                return x
        if isinstance(x, ast.Slice) and x.step is not None:
            st = x.step
            if not (isinstance(st, ast.Constant) and st.value == 1):
                return x
    return None


def rule_P17(ctx, only=None, rid='P17'):
    """A value travels between an attribute and the file element by element in its own order.
    Records of one object are aligned by position (periodic[i] <-> centers[i]; bounds[i] <->
    points_bounds[i]); sorting, de-duplicating or reversing ONE of them on the way out or on
    the way in silently re-pairs them (C09_m: `np.unique` in PhaseShift.read; C16_m: `np.sort` in
    PhaseShift.write)."""
    ctx.rule(rid, 'stored-in-own-order: no writer, updater or reader of a checkpointed class '
             'sorts, de-duplicates, reverses or strides a value between attribute and file')
    prog = ctx.program
    funcs = []
    for c, w, r, u, obj in persist_classes(prog):
        if only and c.name not in only:
            continue
        funcs += [(w, 'W', None), (r, 'R', obj)] + ([(u, 'W', None)] if u is not None else [])
    S_ = prog.classes.get('Sampler')
    if S_ is not None and (not only or 'Sampler' in only):
        for m, role in (('write', 'W'), ('write_shell_update', 'W'), ('__init__', 'R')):
            if m in S_.methods:
                funcs.append((S_.methods[m], role, 'self'))
    n = 0
    for f, role, obj in funcs:
        gv = _group_vars(f)
        if role == 'W':
            for e in writer_table(f):
                if e.src is None:
                    continue
                src = _resolve_local(f, e.src)
                bad = _reordering_in(src)
                # ... and at the precision it is held at (C07_m: construction points written as
                # float32 - a later split encloses the ROUNDED points)
                narrow = None
                for x in list(ast.walk(e.node)) + list(ast.walk(src)):
                    if isinstance(x, ast.keyword) and x.arg == 'dtype' and any(
                            t_ in unparse(x.value) for t_ in _NARROW):
                        narrow = x.value
                    if isinstance(x, ast.Call) and isinstance(x.func, ast.Attribute) and \
                            x.func.attr == 'astype' and x.args and any(
                                t_ in unparse(x.args[0]) for t_ in _NARROW):
                        narrow = x
                ctx.ob(rid, '%s:%s:full-precision' % (f.qualname, e.key), narrow is None, e.where,
                       'stored in the dtype it has' if narrow is None else
                       '`%s` narrows the value stored under %r: what is read back is a rounded '
                       'copy (points move by ~1e-8, counters wrap), not the state that was '
                       'written' % (unparse(narrow)[:40], e.key))
                n += 1
                ctx.ob(rid, '%s:%s:own-order' % (f.qualname, e.key), bad is None, e.where,
                       'written as it is held' if bad is None else
                       '`%s` reorders / thins the value stored under %r: records aligned with it '
                       'by position are re-paired after a read' % (unparse(bad)[:50], e.key))
        else:
            par = _parents(f.node)
            for e in reader_table(f, obj):
                p = e.node
                while p is not None and not isinstance(p, ast.stmt):
                    p = par.get(id(p))
                if p is None or isinstance(p, (ast.If, ast.While, ast.For)):
                    continue
                bad = None
                # only constructs the read value flows through
                q = e.node
                while q is not p and q is not None:
                    q2 = par.get(id(q))
                    if isinstance(q2, ast.Call) and _reordering_in(
                            ast.Expression(body=ast.Call(func=q2.func, args=[], keywords=[]))):
                        bad = q2
                        break
                    if isinstance(q2, ast.Subscript) and q is q2.value and \
                            _reordering_in(q2.slice) is not None:
                        bad = q2
                        break
                    q = q2
                n += 1
                ctx.ob(rid, '%s:%s:own-order' % (f.qualname, e.key), bad is None, e.where,
                       'restored as it was stored' if bad is None else
                       '`%s` reorders / thins the value read from %r: records aligned with it '
                       'by position are re-paired' % (unparse(bad)[:50], e.key))
    return n
